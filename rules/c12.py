"""C12 -- Process and Thread objects report how their target really ended (structural clauses)."""

from __future__ import annotations

import ast

from mpsa.cfg import CFG, Node, calls_in, header_expr, walk_shallow
from mpsa.flow import count_minmax, dominators, fmt_path, path_avoiding, reachable, reaching_defs
from mpsa.loader import AnchorError, FuncInfo, dotted, norm_text
from mpsa.match import Scope, is_name, is_none, method_of, unwrap_await, walk_deep_func, walk_shallow_func
from mpsa.report import Checker

from .common import benign_call, CONTEXT, MPINIT, THREADING, build_cfg, make_fallible

TARGET_RAISES = frozenset({'BaseException'})  # a target may end by any exception incl. SystemExit


def _resolves(n: Node, fut='self._future_'):
    a = header_expr(n)
    if a is None:
        return 0
    return sum(1 for c in calls_in(a) if method_of(c)[1] in ('set_result', 'set_exception') and dotted(method_of(c)[0]) == fut)


def run(ck: Checker):
    ck.rule('C12-1', 'Thread.run resolves its future exactly once on every path; the handler set is a catch-all (COUNT+EXITS)')
    ck.rule('C12-2', 'child process sends exactly one (result, error) pair on every way the target can end, pairs are (value, None) / (None, RemoteException(e)) / (None, None); the pipe is closed on every exit (COUNT+EXITS)', minimum=3)
    ck.rule('C12-3', 'the result collector resolves the process future exactly once on every exit, including EOF (child killed) and a failing recv; it never raises out of its thread with the future pending (EXITS)')
    ck.rule('C12-4', 'join/result/exception read the future only after the OS-level join and (process) the collector-thread join; the not-done path leaves before touching it, the finished path always consults it, and an accessor waits for nothing but the worker, the collector and the future (PRECEDE+MUSTPASS+WHO)', minimum=6)
    ck.rule('C12-5', 'wait/as_completed map futures back to workers by the same key they indexed with (SIBLING)', minimum=4)
    ck.rule('C12-6', "a raised exception carries the thread's traceback text: Thread.run attaches the formatted traceback as __cause__ on every path that stores the exception (MUSTPASS)")
    check_thread_run(ck, 'C12-1')
    ck.rule('C12-12', 'the future exists when start() returns: it is created by the constructor or by start(), never by the new thread, and run() does not replace it (ORIGIN)', minimum=2)
    check_future_exists_at_start(ck, 'C12-12')
    check_thread_traceback(ck, 'C12-6')
    ck.rule('C12-14', 'an outcome of any size is collected: the collector reads the result pipe before it waits for the child to end — a child whose result does not fit into the pipe buffer blocks in send() until the parent reads, so a wait on the sentinel (or join / an exit-code poll) ahead of the first recv() never returns (WAITFOR)')
    cr14 = ck.repo.func(CONTEXT, 'SpawnProcess._collect_result')
    recvs14 = sorted([c for c in ast.walk(cr14.node) if isinstance(c, ast.Call) and method_of(c)[1] == 'recv'], key=lambda c: c.lineno)
    ck.need(recvs14, f'{cr14.key}: recv of the outcome not found')
    early14 = []
    for x in ast.walk(cr14.node):
        if getattr(x, 'lineno', 10**9) >= recvs14[0].lineno:
            continue
        if isinstance(x, ast.Call) and ((method_of(x)[1] in ('wait', 'join') and ('sentinel' in norm_text(x) or method_of(x)[1] == 'join'))):
            early14.append(x)
        if isinstance(x, ast.While) and 'exitcode' in norm_text(x.test):
            early14.append(x)
    ck.ob('C12-14', cr14, early14[0] if early14 else recvs14[0], not early14, 'nothing waits for the end of the child before the outcome has been read' if not early14 else f'L{early14[0].lineno}: `{norm_text(early14[0])[:60]}` waits for the child to end before the first recv(): a child sending a large outcome is blocked in send() and never ends — join / result / wait hang')
    ck.rule('C12-15', 'a killed child is reported by its signal, whoever reaps it: on EOF the collector uses the exit code only after it has seen that it is not None (a concurrent join() may have reaped the child without having stored the code yet — `-None` would end the collector with TypeError and leave the future unresolved)')
    probs15 = []
    for h in [h_ for t_ in ast.walk(cr14.node) if isinstance(t_, ast.Try) for h_ in t_.handlers if h_.type is not None and 'EOFError' in norm_text(h_.type)]:
        uses = [x for x in ast.walk(h) if isinstance(x, (ast.UnaryOp, ast.BinOp, ast.Compare)) and not (isinstance(x, ast.Compare) and any(is_none(c_) for c_ in x.comparators)) and any(isinstance(y, ast.Attribute) and dotted(y) == 'self.exitcode' for y in ast.walk(x)) and not (isinstance(x, ast.UnaryOp) and isinstance(x.op, ast.Not))]
        guards = [x for x in ast.walk(h) if isinstance(x, (ast.While, ast.If)) and 'self.exitcode' in norm_text(x.test) and 'None' in norm_text(x.test)]
        if uses and not any(g_.lineno <= min(u.lineno for u in uses) for g_ in guards):
            probs15.append(f'L{uses[0].lineno}: `{norm_text(uses[0])[:40]}` uses the exit code without having waited for it to be set')
    ck.ob('C12-15', cr14, (cr14.node.lineno, 'exit code on EOF'), not probs15, '; '.join(probs15) if probs15 else 'on EOF the exit code is used only after the wait for it to be set')
    ck.rule('C12-13', 'a child whose run() itself failed (the result could not be pickled, the report of the exception raised) does not exit with status 0: the override of _bootstrap returns the recorded code only after it has consulted what the standard bootstrap returned (1 when run() raised) — assert / test / combine, never discard')
    check_bootstrap_code(ck, 'C12-13')
    ck.rule('C12-7', 'pipe ownership: the write end of the result pipe lives only in a mapping created by SpawnProcess.__init__ (never in the caller\'s kwargs dict), so that a killed child is seen as EOF (ORIGIN)')
    check_pipe_ownership(ck, 'C12-7')
    ck.rule('C12-11', 'sys.exit classification: only None and integer 0 are a clean end; decided by evaluating the SystemExit handler\'s tests over representatives of every outcome class (finite-domain evaluation)', minimum=2)
    check_exit_classification(ck, 'C12-11')
    ck.rule('C12-10', 'two reapers: if a helper thread of the process object reads the exit status (waitpid), the decision "the process has ended" of join/result/exception also consults the sentinel (WHO+AGREE)')
    check_reap_race(ck, 'C12-10')
    ck.rule('C12-8', 'timeouts of join / result / exception / wait / as_completed reach the standard-library call as given (0 = poll is legal): re-bound only under `is None`, never replaced through truthiness (GUARD)', minimum=6)
    from .common import MPINIT, check_timeout_passthrough

    fs = [m for m in ck.repo.cls(CONTEXT, 'SpawnProcess').methods() if m.name in ('join', 'result', 'exception')]
    fs += [m for m in ck.repo.cls(THREADING, 'Thread').methods() if m.name in ('join', 'result', 'exception')]
    fs += [f for f in ck.repo.module(THREADING).functions.values() if f.parent is None and f.name in ('wait', 'as_completed')]
    fs += [f for f in ck.repo.module(MPINIT).functions.values() if f.parent is None and f.name in ('wait', 'as_completed')]
    check_timeout_passthrough(ck, 'C12-8', fs)
    # "a raised exception is re-raised in the parent with its type, arguments and the child's traceback text": the transport
    # of that text is RemoteException; its obligations (C15) are decided here as well
    from . import c15

    with ck.as_rule('C12-9', 'exception transport: the RemoteException obligations C15-1..5 (rebuild attaches the traceback on every path, text always present and formatted with the chain, forwarded text reused, storage agreement, EnsembleError members re-wrapped)', minimum=5):
        c15.run(ck)
    check_process_run(ck, 'C12-2')
    check_collector(ck, 'C12-3')
    check_accessors(ck, 'C12-4')
    check_wait_maps(ck, 'C12-5')


def _target_fallible(f: FuncInfo, extra=None):
    return make_fallible(Scope(f), iters=set(), calls={'self._target'}, raises=TARGET_RAISES, extra=extra)


def _user_class_ctor(node, a):
    """a call of a class computed from a value (`type(e)(...)`, `e.__class__(...)`) runs a constructor the library does not
    know: it can fail (UnicodeDecodeError needs five arguments, a user class two) -- user code, like the target"""
    R = set()
    for c in calls_in(a):
        fn = c.func
        if (isinstance(fn, ast.Call) and dotted(fn.func) == 'type' and len(fn.args) == 1) or (isinstance(fn, ast.Attribute) and fn.attr == '__class__' and not is_name(fn.value, 'self')):
            R.add('Exception')
    return R


def check_thread_run(ck: Checker, rid: str):
    f = ck.repo.func(THREADING, 'Thread.run')
    cfg = build_cfg(f, ck.repo, _target_fallible(f, extra=_user_class_ctor))
    ck.analysed_func(f, cfg)
    res = count_minmax(cfg, cfg.entry, _resolves, back='skip')
    bad = []
    for term, (lo, hi) in res.items():
        if term == ('node', cfg.exit_raise):
            srcs = sorted({cfg.nodes[e.src].lineno for e in cfg.pred[cfg.exit_raise]})
            bad.append(f'an exception can leave run() from L{srcs} (future resolved {lo}..{hi} times before): join() / result() / exception() then wait for a future nobody resolves')
        elif (lo, hi) != (1, 1):
            bad.append(f'a path ends with the future resolved {lo}..{hi} times')
    ck.paths_examined += len(res)
    ck.ob(rid, f, (f.node.lineno, 'Thread.run'), not bad, '; '.join(bad) if bad else 'every path (target returns, SystemExit in each form, any other BaseException, no target) resolves `_future_` exactly once and run() never raises')


def check_future_exists_at_start(ck: Checker, rid: str):
    """`wait()` / `as_completed()` / `result()` may be called as soon as `start()` has returned.  The future they read is
    therefore created by the thread that calls the constructor / `start()` -- never by the new thread (the first
    statement of `run()` executes at an unknown time after `start()` returned; until then the attribute would be None or
    missing and `wait([t])` fails with AttributeError)."""
    for rel, clsname in ((THREADING, 'Thread'), (CONTEXT, 'SpawnProcess')):
        cls = ck.repo.cls(rel, clsname)
        makers = []
        for m in cls.methods():
            for n in walk_shallow_func(m.node):
                tgt = n.targets[0] if isinstance(n, ast.Assign) and len(n.targets) == 1 else (n.target if isinstance(n, ast.AnnAssign) else None)
                if tgt is not None and dotted(tgt) == 'self._future_' and isinstance(n.value, ast.Call) and (dotted(n.value.func) or '').endswith('Future'):
                    makers.append((m, n))
        probs = []
        if not makers:
            probs.append('no method creates `self._future_`')
        early = [(m, n) for m, n in makers if m.name in ('__init__', 'start')]
        late = [(m, n) for m, n in makers if m.name not in ('__init__', 'start')]
        if makers and not early:
            m, n = late[0]
            probs.append(f'`self._future_` is created only in {clsname}.{m.name} (L{n.lineno}), which the new thread / a helper executes some time after start() returned: wait() / as_completed() / result() called right after start() find no future (AttributeError)')
        for m, n in late:
            if early and m.name == 'run':
                probs.append(f'{clsname}.run (L{n.lineno}) replaces the future created by {early[0][0].name}: a wait() that already holds the first future never sees it resolved')
        anchor = (early or makers or [(cls.method('run'), cls.method('run').node)])[0]
        ck.ob(rid, anchor[0], anchor[1], not probs, '; '.join(probs) if probs else f'`{clsname}._future_` is created in {anchor[0].name}: it exists when start() returns, and run() resolves that very object')


def check_thread_traceback(ck: Checker, rid: str):
    """The catch-all handler of Thread.run attaches the thread's traceback text (as `__cause__`, before `__traceback__`
    is cleared) on every path on which it stores the exception -- also for an exception that already has a cause
    (`raise X from Y`, an exception re-raised from a joined worker)."""
    f = ck.repo.func(THREADING, 'Thread.run')
    cfg = build_cfg(f, ck.repo, _target_fallible(f))
    probs = []
    n_handlers = 0
    for h in cfg.nodes:
        if h.kind != 'except' or not h.ast.name:
            continue
        e = h.ast.name
        body_ids = reachable(cfg, [h.id])
        fmt = [k for k in cfg.nodes if k.id in body_ids and k.kind == 'stmt' and isinstance(k.ast, ast.Assign) and 'format_exception' in norm_text(k.ast.value)]
        if not fmt:
            continue  # a handler that does not format a traceback (SystemExit: no traceback is reported for a plain exit)
        n_handlers += 1
        causes = {k.id for k in cfg.nodes if k.id in body_ids and k.kind == 'stmt' and isinstance(k.ast, ast.Assign) and any(dotted(t) == f'{e}.__cause__' for t in k.ast.targets)}
        stores = [k for k in cfg.nodes if k.id in body_ids and header_expr(k) is not None and any(method_of(c)[1] == 'set_exception' and c.args and is_name(c.args[0], e) for c in calls_in(header_expr(k)))]
        clears = {k.id for k in cfg.nodes if k.id in body_ids and k.kind == 'stmt' and isinstance(k.ast, ast.Assign) and any(dotted(t) == f'{e}.__traceback__' for t in k.ast.targets)}
        if not causes:
            probs.append(f'the handler at L{h.lineno} formats the traceback but never attaches it to the exception')
            continue
        for st in stores:
            p = path_avoiding(cfg, [h.id], {st.id}, avoid=causes)
            if p is not None:
                probs.append(f'the exception can be stored (L{st.lineno}) without the thread\'s traceback text attached — the assignment of `{e}.__cause__` is conditional: an exception that already has a cause reaches join()/result()/exception() without the text and the thread name' + (' (its own `__traceback__` is cleared all the same)' if clears else ''))
        for c_ in clears:
            p = path_avoiding(cfg, [h.id], {c_}, avoid={k.id for k in fmt})
            if p is not None:
                probs.append('`__traceback__` can be cleared before the traceback text was formatted')
    if not n_handlers:
        probs.append('no handler of Thread.run formats the traceback of the failed target')
    ck.ob(rid, f, (f.node.lineno, 'traceback text'), not probs, '; '.join(sorted(set(probs))) if probs else 'the catch-all handler formats the traceback and attaches it as `__cause__` on every path before it stores the exception')


def check_pipe_ownership(ck: Checker, rid: str):
    """The parent must not keep the write end of the result pipe open outside the process object: EOF on the read end
    -- the only sign of a child killed before it reported -- arrives only when every copy of the write end is gone.
    `__init__` therefore stores it in a mapping it created itself (`{}` / `dict(kwargs)` / a copy), never in the
    caller's own `kwargs` dict, which the caller may keep alive."""
    from mpsa.flow import definitely_assigned

    f = ck.repo.func(CONTEXT, 'SpawnProcess.__init__')
    cfg = build_cfg(f, ck.repo, None)
    ck.analysed_func(f, cfg)
    stores = [n for n in cfg.nodes if n.kind == 'stmt' and isinstance(n.ast, ast.Assign) and any(isinstance(t, ast.Subscript) and isinstance(t.slice, ast.Constant) and t.slice.value == '_result_and_error_' and isinstance(t.value, ast.Name) for t in n.ast.targets)]
    ck.need(stores, f'{f.key}: the store of the result pipe into the kwargs mapping was not found')
    st = stores[0]
    m = [t.value.id for t in st.ast.targets if isinstance(t, ast.Subscript)][0]
    probs = []

    def fresh(v):
        if isinstance(v, ast.Dict):
            return True  # {} or {**kwargs, ...}
        if isinstance(v, ast.Call):
            d = dotted(v.func) or ''
            if d == 'dict' or d.endswith('.copy') or d in ('copy.copy', 'copy.deepcopy'):
                return True
        return False

    da = definitely_assigned(cfg, start=cfg.entry).get(st.id, frozenset())
    if m in f.params() and m not in da:
        probs.append(f'on some path `{m}` is still the mapping the caller passed in when the write end of the result pipe is stored in it: the caller\'s dict keeps that end open in the parent, so a child killed before reporting never produces EOF — join()/result()/wait() block for ever')
    for d in reaching_defs(cfg, m, start=cfg.entry).get(st.id, frozenset()):
        dn = cfg.nodes[d]
        v = getattr(dn.ast, 'value', None)
        if dn.kind == 'stmt' and isinstance(dn.ast, ast.Assign) and not fresh(v):
            probs.append(f'L{dn.lineno}: `{norm_text(dn.ast)[:50]}` can leave `{m}` bound to the caller\'s own dict; the write end of the result pipe is then stored in it and stays open in the parent (a killed child never produces EOF)')
    ck.ob(rid, f, st.ast, not probs, '; '.join(sorted(set(probs))) if probs else f'the write end is stored in a mapping created by __init__ itself; the caller keeps no reference to it')


def check_reap_race(ck: Checker, rid: str):
    """`exitcode`, `is_alive()` and `join()` of a Process call waitpid.  When a helper thread of the process object uses one
    of them (the result collector polls `exitcode` after EOF), that thread can reap the child under a `join()` blocked in
    another thread, which then returns with neither the child nor -- for a moment -- its exit code.  The decision "has
    the process ended" taken by join/result/exception (`done()`) must then not rest on `exitcode` alone: the sentinel
    does not lag behind the reap."""
    from mpsa.match import spawn_sites

    cls = ck.repo.cls(CONTEXT, 'SpawnProcess')
    helpers = []
    for m in cls.methods():
        for sp in spawn_sites(m):
            if sp.kind == 'thread' and sp.target is not None and sp.target not in helpers:
                helpers.append(sp.target)
    ck.need(helpers, f'{cls.qualname}: no helper thread found')
    reads = []
    for h in helpers:
        for n in walk_deep_func(h.node):
            if isinstance(n, ast.Attribute) and is_name(n.value, 'self') and n.attr == 'exitcode':
                reads.append((h, n, 'self.exitcode'))
            if isinstance(n, ast.Call) and method_of(n)[1] in ('is_alive', 'join') and is_name(method_of(n)[0], 'self'):
                reads.append((h, n, f'self.{method_of(n)[1]}()'))
            if isinstance(n, ast.Call) and method_of(n)[1] in ('poll', 'wait') and dotted(method_of(n)[0]) == 'self._popen':
                reads.append((h, n, norm_text(n)))
    done = cls.method('done')
    robust = any(isinstance(n, ast.Attribute) and n.attr in ('sentinel', '_sentinel') for n in walk_shallow_func(done.node))
    via_done = []
    for name in ('join', 'result', 'exception'):
        g = cls.method(name)
        if not any(isinstance(n, ast.Call) and dotted(n.func) in ('self.done', 'self.join') for n in walk_shallow_func(g.node)):
            via_done.append(name)
    ok = (not reads) or (robust and not via_done)
    where = f'{reads[0][0].qualname} L{reads[0][1].lineno} `{reads[0][2]}`' if reads else ''
    ck.ob(rid, done, (done.node.lineno, 'done()'), ok, ('no helper thread of the process object calls waitpid' if not reads else f'helper thread reads the exit status ({where}), and done() also consults the sentinel: a reap by that thread cannot make join()/result()/exception() take a dead process for a running one') if ok else (f'the helper thread reaps the child ({where}) and done() rests on `exitcode` alone: when the child is killed while join() is blocked in another thread, the collector\'s waitpid can win, join() then returns silently with exitcode None (done() False), and result()/exception() raise a spurious TimeoutError' + (f'; {via_done} do not decide through done()' if via_done else '')))


def check_exit_classification(ck: Checker, rid: str):
    """sys.exit(code): only `None` and the integer 0 are a clean end; any other code -- a non-zero int, a string, an empty
    string or list, 0.0 -- is an error that join()/result()/exception() must surface (as the standard Process does with
    exit code 1).  Decided by evaluating the tests of the SystemExit handler over one representative per outcome class."""
    from mpsa.absval import walk

    REPS = [(None, True), (0, True), (False, True), (1, False), (2, False), (-1, False), (True, False), ('', False), ('msg', False), (0.0, False), (1.5, False), ([], False), ((), False)]
    for rel, qual, kind in ((CONTEXT, 'SpawnProcess.run', 'process'), (THREADING, 'Thread.run', 'thread')):
        f = ck.repo.func(rel, qual)
        cfg = build_cfg(f, ck.repo, _target_fallible(f))
        hs = [n for n in cfg.nodes if n.kind == 'except' and n.ast.name and 'SystemExit' in (n.extra.get('caught') or ())]
        ck.need(hs, f'{f.key}: no SystemExit handler')
        h = hs[0]
        e = h.ast.name

        def event(n, e=e):
            a = header_expr(n)
            if a is None:
                return None
            for c in calls_in(a):
                r, me = method_of(c)
                if me == 'set_exception' or (me == 'send' and c.args and not is_none(c.args[0]) and 'RemoteException' in norm_text(c.args[0])):
                    return 'error'
            return None

        region = reachable(cfg, [h.id], edge_ok=lambda ed: not ed.is_exc)
        probs = []
        for v, clean in REPS:
            paths = walk(cfg, h.id, {f'{e}.code': v}, event, stop=lambda n: n.pending is not None or n.id in (cfg.exit_return, cfg.exit_raise))
            verdicts = {('error' if 'error' in p else 'clean') for p in paths}
            want = 'clean' if clean else 'error'
            if verdicts != {want}:
                probs.append(f'sys.exit({v!r}) is reported as {"/".join(sorted(verdicts))} (must be {want})')
        ck.ob(rid, f, h.ast, not probs, '; '.join(probs) if probs else f'{kind}: sys.exit(None) / sys.exit(0) end cleanly, every other code ({len(REPS) - 3} representatives: non-zero and boolean ints, strings incl. empty, floats incl. 0.0, empty containers) is surfaced as an error')


def check_process_run(ck: Checker, rid: str):
    f = ck.repo.func(CONTEXT, 'SpawnProcess.run')
    cfg = build_cfg(f, ck.repo, _target_fallible(f))
    ck.analysed_func(f, cfg)
    # the pipe end: local popped from self._kwargs with the key the parent stored
    pipe = None
    for n in walk_shallow_func(f.node):
        if isinstance(n, ast.Assign) and isinstance(n.value, ast.Call) and method_of(n.value)[1] == 'pop' and n.value.args and isinstance(n.value.args[0], ast.Constant) and n.value.args[0].value == '_result_and_error_':
            pipe = n.targets[0].id
    ck.need(pipe, f'{f.key}: result pipe not found')

    def sends(n: Node):
        a = header_expr(n)
        return [c for c in calls_in(a) if method_of(c)[1] == 'send' and is_name(method_of(c)[0], pipe)] if a is not None else []

    res = count_minmax(cfg, cfg.entry, lambda n: len(sends(n)), back='skip')
    bad = []
    for term, (lo, hi) in res.items():
        if term == ('node', cfg.exit_raise):
            bad.append(f'an exception can leave run() after {lo}..{hi} sends')
        elif (lo, hi) != (2, 2):
            bad.append(f'a path ends after {lo}..{hi} sends (must be exactly result and error)')
    ck.paths_examined += len(res)
    ck.ob(rid, f, (f.node.lineno, 'sends per path'), not bad, '; '.join(bad) if bad else f'every way the target can end performs exactly two sends on `{pipe}`')
    # pair kinds
    probs = []
    send_nodes = [n for n in cfg.nodes if sends(n)]
    used = set()
    npairs = 0
    for n in send_nodes:
        if n.id in used:
            continue
        succ = [e.dst for e in cfg.normal_succ(n.id)]
        if len(succ) == 1 and sends(cfg.nodes[succ[0]]) and succ[0] not in used:
            m = cfg.nodes[succ[0]]
            used |= {n.id, m.id}
            npairs += 1
            a1, a2 = sends(n)[0].args[0], sends(m)[0].args[0]
            if is_none(a1) and is_none(a2):
                continue
            if is_none(a2) and isinstance(a1, ast.Name):
                # value, None : value is the target's return
                rd = reaching_defs(cfg, a1.id, start=cfg.entry).get(n.id, frozenset())
                if not rd or not all(isinstance(cfg.nodes[d].ast, ast.Assign) and 'self._target' in norm_text(cfg.nodes[d].ast.value) for d in rd):
                    probs.append(f'L{n.lineno}: the value sent as result is not the target\'s return value')
                continue
            if is_none(a1) and isinstance(a2, ast.Call) and (dotted(a2.func) or '').endswith('RemoteException') and a2.args and isinstance(a2.args[0], ast.Name):
                # must be the exception bound by the enclosing handler
                hs = [h for h in cfg.nodes if h.kind == 'except' and h.ast.name == a2.args[0].id]
                if not hs:
                    probs.append(f'L{m.lineno}: `{a2.args[0].id}` is not a caught exception')
                continue
            probs.append(f'L{n.lineno}: pair `({norm_text(a1)}, {norm_text(a2)})` is not (value, None) / (None, RemoteException(e)) / (None, None)')
        else:
            probs.append(f'L{n.lineno}: a send is not part of an adjacent (result, error) pair')
    ck.ob(rid, f, (f.node.lineno, 'pair kinds'), not probs and npairs >= 4, '; '.join(probs) if probs else f'{npairs} adjacent pairs, each (value, None), (None, RemoteException(e)) or (None, None)')
    # pipe closed on every exit
    closes = {n.id for n in cfg.nodes if header_expr(n) is not None and any(method_of(c)[1] == 'close' and is_name(method_of(c)[0], pipe) for c in calls_in(header_expr(n)))}
    p = path_avoiding(cfg, [cfg.entry], {cfg.exit_return, cfg.exit_raise}, avoid=closes)
    ck.ob(rid, f, (f.node.lineno, 'pipe closed on exit'), p is None, 'the child\'s end of the pipe is closed on every exit (an abnormal end reaches the parent as EOF)' if p is None else 'an exit leaves the pipe open', path=fmt_path(cfg, p) if p else '')


def check_collector(ck: Checker, rid: str):
    f = ck.repo.func(CONTEXT, 'SpawnProcess._collect_result')

    # closed world: while the future is still pending, a call either belongs to the table of operations that do not fail
    # in practice, or its failure must be handled -- an exception that leaves the collector thread with the future
    # pending makes wait()/as_completed()/result() on that process hang for ever
    TOTAL = {'time.sleep', 'os.strerror', 'OSError', 'Thread', 'multiprocessing.connection.wait', 'connection.wait', 'str', 'int', 'abs'}
    TOTAL_METHODS = {'close', 'start', 'put', 'join', 'set_result', 'set_exception', 'is_set', 'cancel'}

    imports = ck.repo.module(CONTEXT).imports

    def canon(d):
        # a from-imported name is read as its qualified form (`sleep` -> `time.sleep`)
        head, _, rest = d.partition('.')
        full = imports.get(head)
        return (full + ('.' + rest if rest else '')) if full else d

    def extra(node, a):
        R = set()
        for c in calls_in(a):
            r, me = method_of(c)
            if me == 'recv':
                R |= {'EOFError', 'Exception'}
            elif not (benign_call(c) or (dotted(c.func) or '') in TOTAL or canon(dotted(c.func) or '') in TOTAL or me in TOTAL_METHODS):
                R |= {'Exception'}
        return R

    cfg = build_cfg(f, ck.repo, make_fallible(Scope(f), iters=set(), calls=set(), extra=extra))
    ck.analysed_func(f, cfg)
    res = count_minmax(cfg, cfg.entry, _resolves, back='skip')
    bad = []
    for term, (lo, hi) in res.items():
        if term == ('node', cfg.exit_raise):
            srcs = sorted({cfg.nodes[e.src].lineno for e in cfg.pred[cfg.exit_raise]})
            bad.append(f'the collector thread can end by an exception (from L{srcs}) with the future resolved {lo}..{hi} times: wait()/as_completed() on that process never return')
        elif (lo, hi) != (1, 1):
            bad.append(f'a path ends with the future resolved {lo}..{hi} times')
    ck.paths_examined += len(res)
    # EOF = the child ended without delivering its outcome: it must never be reported as success, except on the
    # branch that recognises the library's own terminate() (SIGTERM)
    from mpsa.guard import Guard

    g = Guard(cfg, cfg.lat)
    eof = [n for n in cfg.nodes if n.kind == 'except' and 'EOFError' in (n.extra.get('caught') or ())]
    ok_res = [n for n in cfg.nodes if header_expr(n) is not None and any(method_of(c)[1] == 'set_result' and dotted(method_of(c)[0]) == 'self._future_' for c in calls_in(header_expr(n)))]
    term_tests = {}
    for n in cfg.nodes:
        if n.kind != 'test':
            continue
        t_, neg_ = n.ast, False
        while isinstance(t_, ast.UnaryOp) and isinstance(t_.op, ast.Not):
            t_, neg_ = t_.operand, not neg_
        if isinstance(t_, ast.Compare) and len(t_.ops) == 1 and isinstance(t_.ops[0], (ast.Eq, ast.NotEq)) and ('ENOTBLK' in norm_text(t_) or 'SIGTERM' in norm_text(t_) or norm_text(t_.comparators[0]) == '15' or norm_text(t_.left) == '15'):
            if isinstance(t_.ops[0], ast.NotEq):
                neg_ = not neg_
            term_tests[n.id] = 'F' if neg_ else 'T'
    if not eof:
        bad.append('EOF on the result pipe (child killed / died before sending) is not handled')
    elif ok_res:
        p = g.feasible_path([e for e in cfg.succ[eof[0].id]], {k.id for k in ok_res}, edge_ok=lambda e: not (e.src in term_tests and e.kind == term_tests[e.src]))
        if p is not None:
            bad.append(f'an EOF on the result pipe can end in set_result (via L{[cfg.nodes[k].lineno for k in p][-3:]}): a child that died without delivering its outcome (killed, or its result/exception could not be pickled) is reported as a success returning None')
    ck.ob(rid, f, (f.node.lineno, '_collect_result exits'), not bad, '; '.join(bad) if bad else 'every exit (result received, EOF after a signal, failing recv) resolves `_future_` exactly once')


def check_accessors(ck: Checker, rid: str):
    for rel, clsname, need_collector in ((CONTEXT, 'SpawnProcess', True), (THREADING, 'Thread', False)):
        cls = ck.repo.cls(rel, clsname)
        summaries = {}
        for meth in ('join', 'result', 'exception'):
            f = cls.method(meth)
            cfg = build_cfg(f, ck.repo, None)
            ck.analysed_func(f, cfg)
            reads = [n for n in cfg.nodes if header_expr(n) is not None and any(isinstance(x, ast.Attribute) and dotted(x) == 'self._future_' for x in walk_shallow(header_expr(n)))]
            if not reads:
                ck.ob(rid, f, (f.node.lineno, 'future reads'), False, 'the accessor does not consult the future at all')
                continue

            def has_call(n: Node, pred):
                a = header_expr(n)
                return a is not None and any(pred(c) for c in calls_in(a))

            os_join = {n.id for n in cfg.nodes if has_call(n, lambda c: method_of(c)[1] == 'join' and isinstance(method_of(c)[0], ast.Call) and dotted(method_of(c)[0].func) == 'super')}
            own_join = {n.id for n in cfg.nodes if has_call(n, lambda c: dotted(c.func) == 'self.join')}
            coll_join = {n.id for n in cfg.nodes if has_call(n, lambda c: method_of(c)[1] == 'join' and dotted(method_of(c)[0]) == 'self._result_collector_thread_')}
            # done tests: `not self.done()` / `self.is_alive()`: the edge on which the worker is NOT finished
            done_tests = {}
            for n in cfg.nodes:
                if n.kind != 'test':
                    continue
                t, neg = n.ast, False
                while isinstance(t, ast.UnaryOp) and isinstance(t.op, ast.Not):
                    neg, t = not neg, t.operand
                if isinstance(t, ast.Call) and dotted(t.func) == 'self.done':
                    done_tests[n.id] = 'T' if neg else 'F'
                elif isinstance(t, ast.Call) and dotted(t.func) == 'self.is_alive':
                    done_tests[n.id] = 'F' if neg else 'T'
            probs = []
            read_ids = {n.id for n in reads}
            osj = os_join | (own_join if summaries.get('join') else set())
            p = path_avoiding(cfg, [cfg.entry], read_ids, avoid=osj)
            if p is not None:
                probs.append('the future is read on a path that has not joined the OS-level thread/process')
            if need_collector:
                cj = coll_join | (own_join if summaries.get('join') else set())
                p = path_avoiding(cfg, [cfg.entry], read_ids, avoid=cj)
                if p is not None:
                    probs.append('the future is read without joining the collector thread first (it may not be resolved yet)')
            p = path_avoiding(cfg, [cfg.entry], read_ids, avoid=set(done_tests))
            if p is not None:
                probs.append('the future is read without testing that the worker has finished')
            for tid, nd in done_tests.items():
                p = path_avoiding(cfg, [e for e in cfg.succ[tid] if e.kind == nd], read_ids, avoid=set(done_tests) - {tid})
                if p is not None:
                    probs.append(f'the not-finished branch of the test at L{cfg.nodes[tid].lineno} reaches a read of the future')
            # the finished branch always consults the outcome: no normal return of a finished worker skips the future
            # (an exit status 0 does not mean the target ended well: os._exit(0), an outcome that cannot be unpickled)
            consult = read_ids | (own_join if summaries.get('join') else set())
            for tid, nd in done_tests.items():
                fin = [e for e in cfg.succ[tid] if e.kind in ('T', 'F') and e.kind != nd]
                p = path_avoiding(cfg, fin, {cfg.exit_return}, avoid=consult | (set(done_tests) - {tid}))
                if p is not None:
                    probs.append(f'a finished worker can leave {meth}() normally without its outcome being consulted (via L{[cfg.nodes[k].lineno for k in p if k >= 0][-3:]}): the accessors then disagree — e.g. join() returns although exception() reports an error')
            # what an accessor waits for: the OS-level worker, the collector thread, the future -- nothing whose end
            # depends on the child's data being well-formed (the log channel of a killed child can hold half a record)
            for n in cfg.nodes:
                a = header_expr(n)
                if a is None:
                    continue
                for c in calls_in(a):
                    r_, me = method_of(c)
                    if me in ('join', 'wait', 'get', 'recv', 'acquire', 'result', 'exception') and r_ is not None:
                        rt = dotted(r_) or (norm_text(r_) if isinstance(r_, ast.Call) else '')
                        if rt in ('self._future_', 'self._result_collector_thread_', 'self', 'multiprocessing.connection', 'connection') or rt.startswith('super('):
                            continue
                        probs.append(f'L{n.lineno}: {meth}() also waits for `{norm_text(c)[:60]}`: an accessor waits for the worker, the collector thread and the future only — anything else (the log channel, a helper thread) can outlast a killed child and makes {meth}() hang instead of reporting')
            # whether the worker failed is `exception() is not None`, not the truth value of the exception object: an
            # exception class may define __len__ / __bool__ (raise E() with no args and __len__ = len(self.args) is falsy)
            for n in cfg.nodes:
                if n.kind != 'test':
                    continue
                t_ = n.ast
                while isinstance(t_, ast.UnaryOp) and isinstance(t_.op, ast.Not):
                    t_ = t_.operand
                operands = t_.values if isinstance(t_, ast.BoolOp) else [t_]
                for o_ in operands:
                    while isinstance(o_, ast.UnaryOp) and isinstance(o_.op, ast.Not):
                        o_ = o_.operand
                    is_exc_call = isinstance(o_, ast.Call) and method_of(o_)[1] == 'exception' and dotted(method_of(o_)[0]) == 'self._future_'
                    is_exc_name = isinstance(o_, ast.Name) and any(isinstance(k.ast, ast.Assign) and any(is_name(tg, o_.id) for tg in k.ast.targets) and isinstance(k.ast.value, ast.Call) and method_of(k.ast.value)[1] == 'exception' for k in cfg.nodes)
                    if is_exc_call or is_exc_name:
                        probs.append(f'L{n.lineno}: `{norm_text(n.ast)}` decides by the truth value of the exception object: a falsy exception (a class with __len__ / __bool__) makes {meth}() return normally although the worker failed')
            ok = not probs
            if meth == 'join':
                summaries['join'] = ok
            ck.ob(rid, f, (f.node.lineno, f'{clsname}.{meth}'), ok, '; '.join(probs) if probs else f'{len(reads)} read(s) of `_future_`, each after the OS-level join{", the collector join" if need_collector else ""} and a passed finished-test')


def check_wait_maps(ck: Checker, rid: str):
    for rel in (MPINIT, THREADING):
        mod = ck.repo.module(rel)
        for name in ('wait', 'as_completed'):
            f = mod.func(name)
            build_key = None
            futs_expr = None
            for n in ast.walk(f.node):
                if isinstance(n, ast.DictComp):
                    build_key = n.key
                    tvar = n.generators[0].target.id if isinstance(n.generators[0].target, ast.Name) else None
                    val_ok = isinstance(n.value, ast.Name) and n.value.id == tvar
                if isinstance(n, ast.Assign) and isinstance(n.value, ast.ListComp) and isinstance(n.value.elt, ast.Attribute) and n.value.elt.attr == '_future_':
                    futs_expr = n
            probs = []
            if build_key is None or futs_expr is None:
                probs.append('future list / future->worker map not found')
            else:
                if not val_ok:
                    probs.append('the map does not map to the worker itself')
                bk = norm_text(build_key)
                # K(t._future_)
                if not (isinstance(build_key, ast.Call) and len(build_key.args) == 1 and isinstance(build_key.args[0], ast.Attribute) and build_key.args[0].attr == '_future_'):
                    probs.append(f'map key `{bk}` is not a function of the worker\'s future')
                else:
                    kf = dotted(build_key.func)
                    looks = [n for n in ast.walk(f.node) if isinstance(n, ast.Subscript) and isinstance(n.ctx, ast.Load) and dotted(n.value) and 'future_to' in dotted(n.value)]
                    if not looks:
                        probs.append('no lookup in the map')
                    for lk in looks:
                        if not (isinstance(lk.slice, ast.Call) and dotted(lk.slice.func) == kf and len(lk.slice.args) == 1 and isinstance(lk.slice.args[0], ast.Name)):
                            probs.append(f'lookup key `{norm_text(lk.slice)}` does not agree with build key `{bk}`')
            ck.ob(rid, f, (f.node.lineno, f'{name} map'), not probs, '; '.join(probs) if probs else f'futures indexed and looked up with the same key function `{kf}(future)`')


def check_bootstrap_code(ck: Checker, rid: str):
    cls = ck.repo.cls(CONTEXT, 'SpawnProcess')
    f = next((m for m in cls.methods() if m.name == '_bootstrap'), None)
    if f is None:
        ck.ob(rid, cls.methods()[0], cls.node, True, 'SpawnProcess does not override _bootstrap: the exit status is the standard one')
        return
    calls = [c for c in walk_shallow_func(f.node) if isinstance(c, ast.Call) and isinstance(c.func, ast.Attribute) and c.func.attr == '_bootstrap']
    ck.need(calls, f'{f.key}: call of the standard _bootstrap not found')
    probs = []
    for c in calls:
        holder = next((st for st in ast.walk(f.node) if isinstance(st, ast.stmt) and any(x is c for x in ast.walk(st)) and not isinstance(st, (ast.FunctionDef, ast.AsyncFunctionDef, ast.If, ast.Try, ast.With, ast.For, ast.While))), None)
        if isinstance(holder, ast.Expr):
            probs.append(f'L{c.lineno}: the value of `{norm_text(c)[:50]}` is discarded: when run() itself raised (standard bootstrap returns 1) the child still exits with the recorded code, 0 — exitcode 0 with no outcome delivered')
        elif isinstance(holder, ast.Assign) and len(holder.targets) == 1 and isinstance(holder.targets[0], ast.Name):
            v = holder.targets[0].id
            used = [x for x in ast.walk(f.node) if isinstance(x, ast.Name) and x.id == v and isinstance(x.ctx, ast.Load)]
            if not used:
                probs.append(f'L{c.lineno}: `{v}` (what the standard bootstrap returned) is never read')
    ck.ob(rid, f, calls[0], not probs, '; '.join(probs) if probs else 'the code returned by the standard bootstrap is consulted before the recorded one is returned')
