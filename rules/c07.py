"""C07 -- an abandoned request never harms the server (structural clauses)."""

import ast

from mpsa.loader import dotted
from mpsa.match import method_of, walk_shallow_func
from mpsa.report import Checker

from . import fifo, server
from .common import STREAMER


def run(ck: Checker):
    ck.rule('C07-1', 'race-free resolution: a direct set_result/set_exception in the gather thread is protected against the caller cancelling concurrently (InvalidStateError handled inside the loop) or deferred to the event loop; `if not fut.cancelled()` alone is check-then-act (EXITS)', minimum=4)
    ck.rule('C07-2', 'an id that is no longer in the ledger is tolerated: KeyError handled inside the gather loop', minimum=2)
    ck.rule('C07-3', "abandonment is local: on expiry only the caller's own future is cancelled; ledger, queues and admission condition are not touched; stream cleanup only cancels (WHO)", minimum=4)
    ck.rule('C07-4', 'a late result of an abandoned (cancelled) request still gives its slot back and wakes a waiter: ledger removal and exactly one signal per message whatever the state of the future — otherwise other callers stay blocked (EXITS+COUNT)', minimum=8)
    ck.rule('C07-8', 'a request whose result is not ready by ITS deadline raises TimeoutError: the deadline stored with the request is anchored at the arrival of the request (a clock reading taken before the admission wait), so that the time spent waiting for a slot counts against the caller\'s timeout (same obligation as C06-12)', minimum=1)
    ck.rule('C07-7', 'a request abandoned while it waits for admission harms nobody: a waiter that was woken by the per-request notify() and then gives up re-evaluates the capacity guard or passes the wake-up on — otherwise the freed slot is announced to nobody and the other pending callers keep waiting on an idle server (same obligation as C06-13)', minimum=2)
    for name in server.SERVERS:
        s = server.discover(ck.repo, name)
        server.check_slot_return(ck, 'C07-4', s)
        server.check_race_free_resolution(ck, 'C07-1', s)
        server.check_unknown_id_tolerated(ck, 'C07-2', s)
        server.check_abandon_local(ck, 'C07-3', s)
        server.check_only_deleter(ck, 'C07-3', s)
        server.check_wakeup_not_wasted(ck, 'C07-7', s)
        server.check_single_deadline(ck, 'C07-8', s)
        server.check_remaining_time(ck, 'C07-8', s)  # ... and the admission wait of every pass is what is left of it (C06-8)
    # stream cleanup: the only operations on dequeued futures are result / cancel / await
    for q in ('fifo_stream', 'async_fifo_stream'):
        outer = ck.repo.func(STREAMER, q)
        m = fifo.discover(ck.repo, outer)
        meths = set()
        futs = set()
        for n in walk_shallow_func(outer.node):
            if isinstance(n, ast.Assign) and isinstance(n.targets[0], ast.Tuple) and len(n.targets[0].elts) == 2 and isinstance(n.targets[0].elts[1], ast.Name):
                futs.add(n.targets[0].elts[1].id)
        for n in walk_shallow_func(outer.node):
            if isinstance(n, ast.Call):
                r, me = method_of(n)
                if isinstance(r, ast.Name) and r.id in futs:
                    meths.add(me)
        extra = meths - {'result', 'cancel', 'done', 'cancelled', 'exception'}
        ck.ob('C07-3', outer, (outer.node.lineno, 'operations on dequeued futures'), not extra and 'cancel' in meths, f'cleanup only cancels pending futures (operations used: {sorted(meths)})' if not extra else f'dequeued futures are also subjected to {sorted(extra)}')
    # an abandoned Server.stream(): closing the generator must stop the feeder (which keeps admitting requests on behalf
    # of the dropped stream) before draining, and the join of the feeder must not be able to block on a full hand-off
    # queue -- otherwise the consuming thread hangs in close() and never gets to shut the server down
    ck.rule('C07-5', 'an abandoned stream stops cleanly: the stop flag is set on every abnormal consumer exit before the drain, the feeder polls it, and the join of the feeder cannot wedge on a full queue (the C05-3/-4 obligations of fifo_stream / async_fifo_stream, on which Server.stream / AsyncServer.stream are built)', minimum=4)
    from . import c05

    for p in c05.pairs(ck):
        if p.fin is None:
            c05.check_stop_flag(ck, 'C07-5', p)
            c05.check_join_safety(ck, 'C07-5', p)
    ck.rule('C07-9', 'the late outcome of an abandoned request is discarded whatever it is: in the clean-up of async_fifo_stream every cancelled task is awaited inside a try that swallows CancelledError AND Exception — a request that had already failed when the stream was closed must not re-raise its error out of aclose() (and skip the rest of the clean-up)')

    afs = ck.repo.func(STREAMER, 'async_fifo_stream')
    probs9, n9 = [], 0
    for tr in [t_ for t_ in ast.walk(afs.node) if isinstance(t_, ast.Try) and t_.finalbody]:
        for fr in [f_ for st_ in tr.finalbody for f_ in ast.walk(st_) if isinstance(f_, (ast.For, ast.AsyncFor)) and isinstance(f_.target, ast.Name)]:
            lv = fr.target.id
            for inner in [t_ for st_ in fr.body for t_ in ast.walk(st_)]:
                if isinstance(inner, ast.Await) and isinstance(inner.value, ast.Name) and inner.value.id == lv:
                    n9 += 1
                    # the try statements of the loop body that contain this await
                    covers = set()
                    for t2 in [t_ for st_ in fr.body for t_ in ast.walk(st_) if isinstance(t_, ast.Try)]:
                        if any(x is inner for b_ in t2.body for x in ast.walk(b_)):
                            for h in t2.handlers:
                                if any(isinstance(x, ast.Raise) for b_ in h.body for x in ast.walk(b_)):
                                    continue
                                if h.type is None:
                                    covers |= {'BaseException'}
                                for e in (h.type.elts if isinstance(h.type, ast.Tuple) else ([h.type] if h.type is not None else [])):
                                    covers.add((dotted(e) or '?').split('.')[-1])
                    ok9 = 'BaseException' in covers or ({'CancelledError', 'Exception'} <= covers)
                    if not ok9:
                        probs9.append(f'L{inner.lineno}: `await {lv}` in the clean-up swallows only {sorted(covers) or "nothing"}: the error of a request that had already failed leaves the closing generator')
    ck.ob('C07-9', afs, (afs.node.lineno, 'clean-up awaits'), not probs9, '; '.join(probs9) if probs9 else f'{n9} await(s) of cancelled tasks in the clean-up, each swallowing CancelledError and Exception')
    # "the server still shuts down normally": an abandoned request may still be inside an earlier stage when the with-block
    # is left; its intermediate result must find the next stage alive, i.e. compound servlets stop their members in start
    # order and every service loop forwards the end sentinel (the C11-4 / C11-6 obligations)
    from . import c11
    from .common import SERVLET

    with ck.as_rule('C07-6', 'shutdown with abandoned requests in flight: members are stopped in start order (an upstream stage is stopped first, so what it still produces finds its consumer alive) and every service loop forwards the end sentinel (the C11-4 / C11-6 obligations)', minimum=10):
        c11.check_pairing(ck, 'C11-4', ck.repo.module(SERVLET))
        c11.check_sentinels(ck, 'C11-6')
