"""Tables and helpers shared by the rule modules."""

from __future__ import annotations

import ast

from mpsa.cfg import CFG, Node, calls_in, header_expr, walk_shallow
from mpsa.exc import ExcLattice
from mpsa.loader import AnchorError, FuncInfo, Repo, dotted, norm_text
from mpsa.match import Scope, call_dotted, has_timeout, kwarg, method_of, unwrap_await

# ----------------------------------------------------------------------
# User code (Appendix C of DESIGN.md): raise-set {Exception, StopRequested}
USER_RAISES = frozenset({'Exception', 'StopRequested'})

# iteration of these (canonical) expressions runs user code
USER_ITERS = {
    'instream',
    'self._instream',
    'self.instream',
    'data_stream',
    'data',
}
# calls of these (canonical) callables run user code
USER_CALLS = {
    'func',
    'preprocessor',
    'preprocess',
    'self._func',
    'self.func',
    'self.call',
    'self.switch',
    'self._target',
    'self.key',
    'key',
}

STREAMER = 'streamer/_streamer.py'
STREAMER_ASYNC = 'streamer/_streamer_async.py'
SERVER = 'mpserver/_server.py'
SERVLET = 'mpserver/_servlet.py'
WORKER = 'mpserver/_worker.py'
QUEUES = '_queues.py'
TEE = 'streamer/_tee.py'
CONTEXT = 'multiprocessing/context.py'
THREADING = 'threading/__init__.py'
MPINIT = 'multiprocessing/__init__.py'
SERVERPROC = 'multiprocessing/server_process.py'
REMOTE_EXC = 'multiprocessing/remote_exception.py'
QUEUE = 'queue.py'
SOCKET = 'socket.py'
PIPE = 'pipe.py'
FUTURES = 'concurrent/futures/__init__.py'
COMMON = '_common.py'


def make_fallible(scope: Scope | None, *, iters=USER_ITERS, calls=USER_CALLS, raises=USER_RAISES, extra=None):
    """Fallibility function for CFG construction under the user-code model."""

    def canon(e):
        if scope is not None:
            return scope.canon(e)
        return dotted(e)

    def fallible(node: Node):
        R = set()
        a = header_expr(node)
        if a is None:
            return R
        if node.kind == 'for':
            if (canon(a) in iters) or (dotted(a) in iters):
                R |= raises
        for c in calls_in(a):
            d = canon(c.func) or ''
            raw = dotted(c.func) or ''
            if d in calls or raw in calls:
                R |= raises
            elif raw in ('next', 'anext') and c.args and ((canon(c.args[0]) in iters) or (dotted(c.args[0]) in iters)):
                R |= raises
                if len(c.args) < 2:
                    R.add('StopIteration')
        if extra is not None:
            R |= set(extra(node, a) or ())
        return R

    return fallible


def lattice(repo: Repo) -> ExcLattice:
    return ExcLattice(repo)


def build_cfg(f: FuncInfo, repo: Repo, fallible=None, **kw) -> CFG:
    return CFG(f.node, lattice(repo), fallible, **kw)


# ----------------------------------------------------------------------
# small AST recognisers used all over
def put_calls(node_ast, scope: Scope, queue_canon: str | set[str]):
    """`Q.put(...)` / `Q.put_nowait(...)` calls inside `node_ast` whose receiver is the given queue."""
    qs = {queue_canon} if isinstance(queue_canon, str) else set(queue_canon)
    out = []
    for c in calls_in(node_ast):
        recv, meth = method_of(c)
        if meth in ('put', 'put_nowait') and recv is not None and scope.canon(recv) in qs:
            out.append(c)
    return out


def get_calls(node_ast, scope: Scope, queue_canon: str | set[str]):
    qs = {queue_canon} if isinstance(queue_canon, str) else set(queue_canon)
    out = []
    for c in calls_in(node_ast):
        recv, meth = method_of(c)
        if meth in ('get', 'get_nowait') and recv is not None and scope.canon(recv) in qs:
            out.append(c)
    return out


def method_calls(node_ast, meth_names, scope: Scope | None = None, recv_canon=None):
    names = {meth_names} if isinstance(meth_names, str) else set(meth_names)
    out = []
    for c in calls_in(node_ast):
        recv, meth = method_of(c)
        if meth in names and recv is not None:
            if recv_canon is None or (scope.canon(recv) if scope else dotted(recv)) == recv_canon:
                out.append(c)
    return out


def node_calls(node: Node):
    a = header_expr(node)
    return calls_in(a) if a is not None else []


def is_const_str(e, value=None):
    return isinstance(e, ast.Constant) and isinstance(e.value, str) and (value is None or e.value == value)


def is_isinstance(test, var: str | None = None):
    """(var_name, [class names]) if `test` is isinstance(var, cls-or-tuple)."""
    if isinstance(test, ast.Call) and dotted(test.func) == 'isinstance' and len(test.args) == 2:
        v = test.args[0]
        if isinstance(v, ast.Name) and (var is None or v.id == var):
            return v.id, ExcLattice.names_of(test.args[1])
    return None


def loop_header_of(cfg: CFG, node: Node):
    return node.loops[-1] if node.loops else None


def in_loop(node: Node, header_id) -> bool:
    return header_id in node.loops


def first(seq, msg):
    for x in seq:
        return x
    raise AnchorError(msg)


def where(f: FuncInfo, node) -> str:
    return f'{f.module.rel}:{getattr(node, "lineno", 0)}'


def tuple_item(cfg, node, item, arity=2):
    """The (id, payload) tuple a put hands over: the literal itself, or -- when the message was first
    bound to a local (`msg = (uid, y); q.put(msg)`) -- that local's single reaching tuple definition."""
    from mpsa.flow import reaching_defs

    if isinstance(item, ast.Tuple):
        return item if len(item.elts) == arity else None
    if isinstance(item, ast.Name):
        rd = reaching_defs(cfg, item.id, start=cfg.entry).get(node.id, frozenset())
        if len(rd) == 1:
            d = cfg.nodes[next(iter(rd))]
            if isinstance(d.ast, ast.Assign) and isinstance(d.ast.value, ast.Tuple) and len(d.ast.value.elts) == arity and len(d.ast.targets) == 1 and isinstance(d.ast.targets[0], ast.Name):
                # the tuple's components must not change between the binding and the put
                return d.ast.value
    return None


class Unpack:
    """How a dequeued message `z` is taken apart inside a loop: `a, b = z`, or `a = z[0]; b = z[1]`."""

    def __init__(self, node, names, ids):
        self.node = node  # anchor: the tuple assignment, or the last of the index assignments
        self.ast = node.ast
        self.id = node.id
        self.names = names  # component names by position (None where the target is not a plain name)
        self.ids = ids  # ids of all nodes that bind a component


def find_unpack(cfg, loop_id, zname, pending_none=False):
    """The unpack of message variable `zname` in the loop `loop_id` (the last one in node order), or None."""
    if zname is None:
        return None
    found = None
    byidx = {}
    for n in cfg.nodes:
        if loop_id is not None and loop_id not in n.loops:
            continue
        if pending_none and n.pending is not None:
            continue
        a = n.ast
        if not (isinstance(a, ast.Assign) and len(a.targets) == 1):
            continue
        t, v = a.targets[0], a.value
        if isinstance(t, ast.Tuple) and isinstance(v, ast.Name) and v.id == zname:
            found = Unpack(n, [e.id if isinstance(e, ast.Name) else None for e in t.elts], {n.id})
        elif isinstance(t, ast.Name) and isinstance(v, ast.Subscript) and isinstance(v.value, ast.Name) and v.value.id == zname and isinstance(v.slice, ast.Constant) and isinstance(v.slice.value, int) and v.slice.value >= 0:
            byidx.setdefault(v.slice.value, []).append((n, t.id))
    if found is not None:
        return found
    if byidx and sorted(byidx) == list(range(len(byidx))) and all(len(v) == 1 for v in byidx.values()):
        nodes = [byidx[i][0][0] for i in range(len(byidx))]
        last = max(nodes, key=lambda n: n.id)
        return Unpack(last, [byidx[i][0][1] for i in range(len(byidx))], {n.id for n in nodes})
    return None


def resolve_local(cfg, node, expr, depth=2):
    """`expr` itself, or -- when it is a local name with a single reaching definition `name = value` whose
    operands are not re-bound between that definition and `node` -- that value (so `y = func(v); yield y`
    reads like `yield func(v)`)."""
    from mpsa.flow import reaching_defs

    while depth > 0 and isinstance(expr, ast.Name):
        rd = reaching_defs(cfg, expr.id, start=cfg.entry).get(node.id, frozenset())
        if len(rd) != 1:
            break
        d = cfg.nodes[next(iter(rd))]
        a = d.ast
        if not (d.kind == 'stmt' and isinstance(a, ast.Assign) and len(a.targets) == 1 and isinstance(a.targets[0], ast.Name)):
            break
        stable = True
        for nm in {x.id for x in ast.walk(a.value) if isinstance(x, ast.Name)}:
            r = reaching_defs(cfg, nm, start=cfg.entry)
            if r.get(d.id, frozenset()) != r.get(node.id, frozenset()):
                stable = False
        if not stable:
            break
        expr = a.value
        depth -= 1
    return expr


def implied_by(test, hyps: set[str]) -> bool:
    """Is `test` true whenever every hypothesis (normalised source texts of tests assumed true) holds?
    Syntactic: the test is a hypothesis, an `isinstance` whose class tuple contains a hypothesis's class, an `and`
    of implied operands or an `or` with an implied operand.  Used for "this guard must not be narrower than …"."""
    if norm_text(test) in hyps:
        return True
    if isinstance(test, ast.Call) and dotted(test.func) == 'isinstance' and len(test.args) == 2:
        subj = norm_text(test.args[0])
        classes = ExcLattice.names_of(test.args[1])
        for h in hyps:
            try:
                ht = ast.parse(h, mode='eval').body
            except SyntaxError:
                continue
            if isinstance(ht, ast.Call) and dotted(ht.func) == 'isinstance' and len(ht.args) == 2 and norm_text(ht.args[0]) == subj:
                hc = ExcLattice.names_of(ht.args[1])
                if hc and all(c in classes for c in hc):
                    return True
        return False
    if isinstance(test, ast.BoolOp):
        if isinstance(test.op, ast.And):
            return all(implied_by(v, hyps) for v in test.values)
        return any(implied_by(v, hyps) for v in test.values)
    return False


BENIGN_PREFIXES = ('logger.', 'logging.', 'util.debug', 'util.info', 'util.sub_debug', 'warnings.warn')
BENIGN_CALLS = {'print', 'perf_counter', 'time.perf_counter', 'time.time', 'time.monotonic', 'len', 'isinstance', 'getattr', 'hasattr', 'id', 'repr', 'str', 'int', 'float', 'bool', 'type', 'sorted', 'set', 'list', 'dict', 'tuple', 'min', 'max', 'range', 'enumerate', 'zip', 'threading.current_thread', 'multiprocessing.current_process', 'current_process'}


def benign_call(c: ast.Call) -> bool:
    """logging / clock / builtin introspection: calls a maintenance edit adds freely and that do not fail in practice;
    rules that treat "any call" as fallible exempt them"""
    d = dotted(c.func) or ''
    return d in BENIGN_CALLS or d.startswith(BENIGN_PREFIXES)


import re as _re

_TIMEOUT_PARAM = _re.compile(r'(^|_)timeout$|wait_time|wait_interval')


def check_timeout_passthrough(ck, rid: str, funcs, what='timeout'):
    """A caller-given timeout / wait reaches its use unchanged: it is re-bound only where it was tested `is None`, and
    never replaced through truthiness (`t = t or default`, `t if t else default`): 0 is a legal value ("do not wait",
    "poll", "release at once") that truthiness conflates with "not given"."""
    from mpsa.guard import Guard

    n_ob = 0
    for f in funcs:
        ps = [p for p in f.params() if _TIMEOUT_PARAM.search(p)]
        if not ps:
            continue
        cfg = build_cfg(f, ck.repo, None)
        g = Guard(cfg, cfg.lat)
        for p in ps:
            probs = []
            for n in cfg.nodes:
                if n.kind == 'stmt' and isinstance(n.ast, (ast.Assign, ast.AugAssign)) and any(isinstance(t, ast.Name) and t.id == p for t in (n.ast.targets if isinstance(n.ast, ast.Assign) else [n.ast.target])):
                    S = g.at(n.id)
                    if not S or any(('none', p) not in d for d in S):
                        probs.append(f'L{n.lineno}: `{norm_text(n.ast)[:60]}` can replace a `{p}` the caller gave explicitly (not limited to `{p} is None`)')
            for x in ast.walk(f.node):
                if isinstance(x, ast.BoolOp) and isinstance(x.op, ast.Or) and isinstance(x.values[0], ast.Name) and x.values[0].id == p and len(x.values) == 2 and not isinstance(x.values[1], (ast.Compare, ast.Call, ast.UnaryOp, ast.BoolOp)):
                    probs.append(f'L{x.lineno}: `{norm_text(x)}` replaces an explicit 0 by the default: "do not wait" becomes "wait {norm_text(x.values[1])}"')
                if isinstance(x, ast.IfExp) and isinstance(x.test, ast.Name) and x.test.id == p:
                    probs.append(f'L{x.lineno}: `{norm_text(x)[:60]}` decides by truthiness of `{p}`: an explicit 0 is treated as "not given"')
            for x in ast.walk(f.node):
                if isinstance(x, ast.Call) and (dotted(x.func) or '') in ('time.time', 'datetime.now', 'datetime.datetime.now', 'datetime.utcnow'):
                    probs.append(f'L{x.lineno}: `{norm_text(x)}` measures the wait with the wall clock: a step of the system time stretches or cuts the `{p}` — use a monotonic clock')
            n_ob += 1
            ck.ob(rid, f, (f.node.lineno, f'{f.qualname}({p})'), not probs, '; '.join(sorted(set(probs))) if probs else f'`{p}` reaches its uses as given; a default replaces `None` only')
    return n_ob


def iterates_all_of(it, what: str) -> bool:
    """does a `for … in <it>` visit every element of the container `what` (dotted)?  `what`, `list(what)`, `tuple(what)`,
    `what[:]`, `reversed(what)`, `sorted(what, …)`, `what.copy()`, `enumerate(…of those…)`"""
    if dotted(it) == what:
        return True
    if isinstance(it, ast.Subscript) and dotted(it.value) == what and isinstance(it.slice, ast.Slice) and it.slice.lower is None and it.slice.upper is None and it.slice.step is None:
        return True
    if isinstance(it, ast.Call):
        d = dotted(it.func) or ''
        if d in ('list', 'tuple', 'reversed', 'sorted', 'enumerate', 'iter', 'set') and it.args:
            return iterates_all_of(it.args[0], what)
        if isinstance(it.func, ast.Attribute) and it.func.attr == 'copy' and not it.args:
            return dotted(it.func.value) == what
    return False


def check_std_timeout_handlers(ck, rid: str, funcs):
    """Where a try around a timed standard-library wait (`asyncio.wait_for`, `Future.result(timeout)`) has a handler for
    a timeout, that handler names the class the library raises -- `asyncio.TimeoutError` / `concurrent.futures.TimeoutError`
    / the builtin -- and not only a name that the module has re-bound to its own subclass (`from mpservice._common import
    TimeoutError`: `except TimeoutError:` then catches the library's subclass only, the library's timeout escapes)."""
    n_ob = 0
    for f in funcs:
        mod = f.module
        shadowed = 'TimeoutError' in mod.imports or 'TimeoutError' in mod.classes
        for tr in [n for n in ast.walk(f.node) if isinstance(n, ast.Try)]:
            timed = [c for st in tr.body for c in ast.walk(st) if isinstance(c, ast.Call) and ((dotted(c.func) or '').endswith('wait_for') or (method_of(c)[1] in ('result', 'exception') and (c.args or any(k.arg == 'timeout' for k in c.keywords))))]
            if not timed:
                continue
            hs = [h for h in tr.handlers if h.type is not None and 'TimeoutError' in norm_text(h.type)]
            if not hs:
                continue
            ok = False
            for h in hs:
                for t in (h.type.elts if isinstance(h.type, ast.Tuple) else [h.type]):
                    d = dotted(t) or ''
                    if d in ('asyncio.TimeoutError', 'builtins.TimeoutError', 'concurrent.futures.TimeoutError', 'futures.TimeoutError', 'asyncio.exceptions.TimeoutError'):
                        ok = True
                    if d == 'TimeoutError' and not shadowed:
                        ok = True
                    if d in ('Exception', 'BaseException', 'OSError'):
                        ok = True
            n_ob += 1
            ck.ob(rid, f, hs[0], ok, f'the timeout of `{norm_text(timed[0])[:50]}` is caught by the class the library raises' if ok else f'`except {norm_text(hs[0].type)}` names only `TimeoutError`, which this module has re-bound to mpservice\'s own subclass: the builtin TimeoutError raised by `{norm_text(timed[0])[:40]}` is not caught — the caller gets a bare TimeoutError instead of the documented error (ServerBacklogFull / the "… seconds total" message)')
    return n_ob
