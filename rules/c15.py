"""C15 -- exceptions keep type, args and traceback text across processes (thin: structural clauses)."""

from __future__ import annotations

import ast

from mpsa.cfg import calls_in, header_expr, walk_shallow
from mpsa.flow import fmt_path, path_avoiding, reachable
from mpsa.guard import Guard
from mpsa.loader import dotted, norm_text
from mpsa.match import Scope, is_name, is_none, method_of, walk_deep_func, walk_shallow_func
from mpsa.report import Checker

from .common import REMOTE_EXC, build_cfg, implied_by


def run(ck: Checker):
    ck.rule('C15-1', 'reduce/rebuild agreement: RemoteException.__reduce__ returns (_rebuild_exception, (self.exc, self.tb)); the rebuild function has matching arity, attaches RemoteTraceback(tb) as __cause__ of its first parameter and returns it (AGREE)')
    ck.rule('C15-2', 'text always present: on every non-raising path of RemoteException.__init__ the stored traceback text has been produced (never None); the stored exception is the parameter itself (GUARD)')
    ck.rule('C15-3', 'forwarded text reused: an exception without __traceback__ that is already remote keeps its remote traceback text instead of being re-formatted')
    ck.rule('C15-4', 'storage agreement: RemoteTraceback stores the text in the attribute get_remote_traceback reads; is_remote_exception tests the class _rebuild_exception instantiates (AGREE)')
    ck.rule('C15-5', 'EnsembleError: __reduce__ returns the argument __init__ takes; RemoteException.__init__ re-wraps nested exception members (AGREE)')
    mod = ck.repo.module(REMOTE_EXC)
    re_ = mod.cls('RemoteException')
    # ------------------------------------------------------------------ C15-1
    red = re_.method('__reduce__')
    rets = [n for n in walk_shallow_func(red.node) if isinstance(n, ast.Return)]
    probs = []
    fn = None
    if len(rets) != 1 or not isinstance(rets[0].value, ast.Tuple) or len(rets[0].value.elts) != 2:
        probs.append('__reduce__ does not return a (callable, args) pair')
    else:
        fn = dotted(rets[0].value.elts[0])
        args = rets[0].value.elts[1]
        if not (isinstance(args, ast.Tuple) and [dotted(e) for e in args.elts] == ['self.exc', 'self.tb']):
            probs.append(f'__reduce__ passes `{norm_text(args)}`, not (self.exc, self.tb)')
        if fn is None or not mod.has_func(fn):
            probs.append(f'rebuild callable `{fn}` is not a module-level function')
        else:
            rb = mod.func(fn)
            ps = rb.params()
            if len(ps) != 2:
                probs.append(f'{fn} takes {len(ps)} parameters, __reduce__ supplies 2')
            else:
                cause = [n for n in walk_shallow_func(rb.node) if isinstance(n, ast.Assign) and dotted(n.targets[0]) == f'{ps[0]}.__cause__']
                if not (cause and isinstance(cause[0].value, ast.Call) and dotted(cause[0].value.func) == 'RemoteTraceback' and cause[0].value.args and is_name(cause[0].value.args[0], ps[1])):
                    probs.append(f'{fn} does not set `{ps[0]}.__cause__ = RemoteTraceback({ps[1]})`')
                else:
                    # on every path: an exception that already has a cause (`raise X from Y`, custom __reduce__) must still
                    # come out remote, otherwise its traceback text is lost and it cannot be forwarded again
                    rcfg = build_cfg(rb, ck.repo, None)
                    ck.analysed_func(rb, rcfg)
                    setters = {n.id for n in rcfg.nodes if n.ast in cause}
                    pth = path_avoiding(rcfg, [rcfg.entry], {rcfg.exit_return}, avoid=setters)
                    if pth is not None:
                        probs.append(f'{fn} can return without attaching the RemoteTraceback (the assignment of `__cause__` is conditional): such an exception arrives not remote, without its traceback text')
                r2 = [n for n in walk_shallow_func(rb.node) if isinstance(n, ast.Return)]
                if not (r2 and all(is_name(r.value, ps[0]) for r in r2)):
                    probs.append(f'{fn} does not return the exception it was given')
    ck.ob('C15-1', red, rets[0] if rets else red.node, not probs, '; '.join(probs) if probs else f'pickling yields {fn}(exc, tb) which returns exc with __cause__ = RemoteTraceback(tb)')
    # ------------------------------------------------------------------ C15-2
    init = re_.method('__init__')
    ps = init.params()  # self, exc, tb
    cfg = build_cfg(init, ck.repo, None)
    ck.analysed_func(init, cfg)
    g = Guard(cfg, cfg.lat)
    stores = [n for n in cfg.nodes if isinstance(n.ast, ast.Assign) and dotted(n.ast.targets[0]) == 'self.tb']
    probs = []
    if not stores:
        probs.append('the traceback text is not stored')
    for st in stores:
        v = st.ast.value
        if not isinstance(v, ast.Name):
            probs.append('self.tb is not assigned from the local text')
            continue
        for d in g.at(st.id):
            facts = [x for x in d if x[1] == v.id]
            produced = any(x[0] in ('derived', 'notnone') or (x[0] == 'pos' and x[2] == 'str') for x in facts)
            if ('none', v.id) in d or not produced:
                probs.append(f'a path stores `{v.id}` without having produced the text (knowing only {sorted(facts)}): the exception would cross the process boundary without its traceback')
                break
    exc_store = [n for n in cfg.nodes if isinstance(n.ast, ast.Assign) and dotted(n.ast.targets[0]) == 'self.exc']
    if not (exc_store and all(is_name(n.ast.value, ps[1]) for n in exc_store)):
        probs.append('self.exc is not the exception object that was passed in')
    reb = [n for n in walk_shallow_func(init.node) if isinstance(n, (ast.Assign, ast.AugAssign)) and any(is_name(t, ps[1]) for t in (n.targets if isinstance(n, ast.Assign) else [n.target]))]
    if reb:
        probs.append('the exception parameter is rebound before it is stored')
    ck.ob('C15-2', init, stores[0].ast if stores else init.node, not probs, '; '.join(sorted(set(probs))) if probs else f'on all {len(g.at(stores[0].id))} path condition(s) reaching `self.tb = …` the text is a str given by the caller, formatted from a traceback, or the forwarded remote text; self.exc is the original object')
    # ------------------------------------------------------------------ C15-3
    fwd = [n for n in cfg.nodes if isinstance(n.ast, ast.Assign) and isinstance(n.ast.value, ast.Call) and dotted(n.ast.value.func) == 'get_remote_traceback' and n.ast.value.args and is_name(n.ast.value.args[0], ps[1])]
    def _polar(t_):
        neg_ = False
        while isinstance(t_, ast.UnaryOp) and isinstance(t_.op, ast.Not):
            t_, neg_ = t_.operand, not neg_
        return t_, neg_

    tests = [n for n in cfg.nodes if n.kind == 'test' and isinstance(_polar(n.ast)[0], ast.Call) and dotted(_polar(n.ast)[0].func) == 'is_remote_exception']
    tbt = [n for n in cfg.nodes if n.kind == 'test' and '__traceback__' in norm_text(n.ast)]
    probs = []
    if not fwd or not tests:
        probs.append('the remote traceback of an already-remote exception is not reused')
    else:
        rem_T = 'F' if _polar(tests[0].ast)[1] else 'T'  # the label on which is_remote_exception(exc) holds
        rem_F = 'T' if rem_T == 'F' else 'F'
        # reached exactly on: no own traceback AND is_remote_exception true
        if fwd[0].id not in reachable(cfg, [e.dst for e in cfg.succ[tests[0].id] if e.kind == rem_T], avoid={tests[0].id}):
            probs.append('the reuse is not on the branch where is_remote_exception(exc) holds')
        if tbt:
            tb_in, tb_neg = _polar(tbt[0].ast)
            own = 'T' if isinstance(tb_in, ast.Compare) and isinstance(tb_in.ops[0], ast.IsNot) else 'F'
            if tb_neg:
                own = 'F' if own == 'T' else 'T'
            if fwd[0].id in reachable(cfg, [e.dst for e in cfg.succ[tbt[0].id] if e.kind == own], avoid={tbt[0].id}):
                probs.append('an exception that has its own fresh traceback would get the stale remote text')
            fmt = [n for n in cfg.nodes if isinstance(n.ast, ast.Assign) and 'format_exception' in norm_text(n.ast.value) and n.id in reachable(cfg, [e.dst for e in cfg.succ[tbt[0].id] if e.kind == own], avoid={tbt[0].id})]
            if not fmt:
                probs.append('an exception with its own traceback is not formatted from it')
        # not remote and no traceback: must raise (nothing to report)
        p = path_avoiding(cfg, [e for e in cfg.succ[tests[0].id] if e.kind == rem_F], {s.id for s in stores}, avoid={tests[0].id})
        if p is not None:
            probs.append('an exception with no traceback information at all is accepted silently')
    # the text is formatted with the chain: the remote traceback of the previous hop is the __cause__ of the exception at
    # hand, and explicit causes / contexts are part of "the child's traceback text"
    for c in [n for n in walk_deep_func(init.node) if isinstance(n, ast.Call) and (dotted(n.func) or '').endswith('format_exception')]:
        ch = [k.value for k in c.keywords if k.arg == 'chain']
        # what is formatted is the traceback at hand: `format_exception(type(exc), exc, <tb>)` with <tb> the traceback object
        # the caller passed, or the exception's own `__traceback__` on the branch that found one -- the one-argument form
        # formats `exc.__traceback__` whatever was passed, so a traceback handed over separately (the exception's own having
        # been cleared) is ignored and the remote text has no frames
        tbp = ps[2] if len(ps) > 2 else 'tb'
        if len(c.args) >= 3:
            third = norm_text(c.args[2])
            if third not in (tbp, f'{ps[1]}.__traceback__'):
                probs.append(f'L{c.lineno}: the traceback formatted is `{third}`, neither the `{tbp}` argument nor `{ps[1]}.__traceback__`')
        else:
            # which branch is this call on?  under `isinstance(tb, TracebackType)` the argument must be used
            guarded = [n_ for n_ in walk_deep_func(init.node) if isinstance(n_, ast.If) and 'TracebackType' in norm_text(n_.test) and any(x is c for b_ in n_.body for x in ast.walk(b_))]
            if guarded:
                probs.append(f'L{c.lineno}: `{norm_text(c)[:50]}` formats `{ps[1]}.__traceback__` on the branch where the caller passed a traceback object `{tbp}`: the traceback that was handed over is ignored — when the exception\'s own traceback has been cleared (kept separately by the caller) the remote text has no frames')
        lim = [k.value for k in c.keywords if k.arg == 'limit'] + ([c.args[3]] if len(c.args) > 3 else [])
        if lim and not is_none(lim[0]):
            probs.append(f'L{c.lineno}: the traceback is formatted with limit={norm_text(lim[0])}: a positive limit keeps the OUTERMOST frames — for a traceback deeper than the limit the text silently loses the innermost frames, i.e. the site where the exception was raised')
        if ch and not (isinstance(ch[0], ast.Constant) and ch[0].value is True):
            probs.append(f'L{c.lineno}: the traceback is formatted with chain={norm_text(ch[0])}: the text of the cause chain — including the remote traceback of an earlier hop when the exception was re-raised before being wrapped again — is dropped')
    ck.ob('C15-3', init, fwd[0].ast if fwd else init.node, not probs, '; '.join(probs) if probs else 'own traceback → formatted; no own traceback but remote → the forwarded text is reused verbatim; neither → ValueError')
    # ------------------------------------------------------------------ C15-4
    rt = mod.cls('RemoteTraceback')
    rinit = rt.method('__init__')
    attr = [dotted(n.targets[0]) for n in walk_shallow_func(rinit.node) if isinstance(n, ast.Assign) and is_name(n.value, rinit.params()[1])]
    grt = mod.func('get_remote_traceback')
    read = [n for n in walk_shallow_func(grt.node) if isinstance(n, ast.Return)]
    ire = mod.func('is_remote_exception')
    probs = []
    if not attr:
        probs.append('RemoteTraceback.__init__ does not store its text')
    else:
        a = attr[0].split('.', 1)[1]
        if not (read and norm_text(read[0].value) == f'{grt.params()[0]}.__cause__.{a}'):
            probs.append(f'get_remote_traceback returns `{norm_text(read[0].value) if read else None}`, but the text is stored in `.{a}` of the __cause__')
    if 'RemoteTraceback' not in norm_text(ire.node) or '__cause__' not in norm_text(ire.node):
        probs.append('is_remote_exception does not test `isinstance(e.__cause__, RemoteTraceback)`')
    else:
        # not narrower than that: every BaseException whose __cause__ is a RemoteTraceback is remote (KeyboardInterrupt,
        # SystemExit, CancelledError and other BaseException-only classes travel through RemoteException too)
        ip = ire.params()[0]
        irets = [n for n in walk_shallow_func(ire.node) if isinstance(n, ast.Return)]
        hyps = {f'isinstance({ip}, BaseException)', f'isinstance({ip}.__cause__, RemoteTraceback)'}
        if len(irets) != 1 or not implied_by(irets[0].value, hyps):
            probs.append(f'is_remote_exception is narrower than "a BaseException whose __cause__ is a RemoteTraceback" (`{norm_text(irets[0].value) if irets else None}`): exceptions outside the tested class arrive with their remote traceback but are not recognised as remote — forwarding one of them raises ValueError instead of reusing the text')
    if not any(isinstance(n, ast.ClassDef) for n in [rt.node]) or 'Exception' not in [b.split('.')[-1] for b in rt.bases] and 'BaseException' not in [b.split('.')[-1] for b in rt.bases]:
        probs.append('RemoteTraceback is not an exception class: it cannot be a __cause__')
    ck.ob('C15-4', grt, (grt.node.lineno, 'traceback storage'), not probs, '; '.join(probs) if probs else f'text stored in and read from `__cause__.{attr[0].split(".", 1)[1]}`; remoteness = __cause__ is a RemoteTraceback')
    # ------------------------------------------------------------------ C15-5
    ee = mod.cls('EnsembleError')
    einit, ered = ee.method('__init__'), ee.method('__reduce__')
    probs = []
    sup = [n for n in walk_shallow_func(einit.node) if isinstance(n, ast.Call) and method_of(n)[1] == '__init__' and isinstance(method_of(n)[0], ast.Call)]
    p1 = einit.params()[1]
    if not (sup and len(sup[0].args) == 2 and is_name(sup[0].args[1], p1)):
        probs.append('EnsembleError.__init__ does not keep its `results` argument as args[1]')
    r = [n for n in walk_shallow_func(ered.node) if isinstance(n, ast.Return)]
    if not (r and isinstance(r[0].value, ast.Tuple) and norm_text(r[0].value.elts[0]) in ('type(self)', 'self.__class__') and norm_text(r[0].value.elts[1]) == '(self.args[1],)'):
        probs.append(f'EnsembleError.__reduce__ returns `{norm_text(r[0].value) if r else None}`, not (type(self), (self.args[1],)): a subclass of EnsembleError would come out of the first hop as another class')
    probs += nested_rewrap_problems(ck)[1]
    ck.ob('C15-5', ered, r[0] if r else ered.node, not probs, '; '.join(probs) if probs else 'EnsembleError round-trips through its results dict; nested BaseException members are re-wrapped in RemoteException')

    # a failure keeps its traceback text over SEVERAL hops only if every hop that forwards it wraps it again: an exception
    # that arrived from an upstream process stage is a bare exception object here (its RemoteTraceback is its __cause__)
    from . import c04

    with ck.as_rule('C15-6', 'every hop re-wraps: an exception value that a worker or a compound servlet puts on an output queue is wrapped in RemoteException on every path (the C04-2 obligations) — forwarded bare, it is pickled without its __cause__: the next stage sees a non-remote exception without text, and its own RemoteException(x) raises ValueError', minimum=8):
        c04.check_all_wrapping(ck, 'C04-2')


def nested_rewrap_problems(ck: Checker):
    """(init FuncInfo, problems): RemoteException.__init__ re-wraps every exception member of every EnsembleError."""
    mod = ck.repo.module(REMOTE_EXC)
    init = mod.cls('RemoteException').method('__init__')
    probs = []
    # re-wrapping of nested exceptions in RemoteException.__init__
    wrap = [n for n in walk_deep_func(init.node) if isinstance(n, ast.Assign) and isinstance(n.targets[0], ast.Subscript) and isinstance(n.value, ast.Call) and norm_text(n.value.func) in ('self.__class__', 'RemoteException', 'type(self)')]
    guard = [n for n in walk_deep_func(init.node) if isinstance(n, ast.If) and 'isinstance' in norm_text(n.test) and 'EnsembleError' in norm_text(n.test)]
    if not wrap or not guard:
        probs.append('nested exception members of an EnsembleError are not re-wrapped before pickling (they would lose their tracebacks)')
    else:
        inner = [n for n in ast.walk(guard[0]) if isinstance(n, ast.If) and n is not guard[0] and 'isinstance' in norm_text(n.test)]
        if not inner or 'BaseException' not in norm_text(inner[0].test):
            probs.append('the re-wrapping is not limited to members that are exceptions')
        else:
            # ...and not narrower than that: every EnsembleError, every member that is an exception
            pexc = init.params()[1]
            if not implied_by(guard[0].test, {f'isinstance({pexc}, EnsembleError)'}):
                probs.append(f'the re-wrapping runs only when `{norm_text(guard[0].test)}`: an EnsembleError for which the extra condition fails crosses the next process boundary with bare member exceptions (their remote tracebacks are lost, a further hop raises ValueError)')
            member = norm_text(wrap[0].targets[0])
            hyp = {f'isinstance({member}, BaseException)'}
            # `for i, v in enumerate(z)`: v is z[i]
            for lp in [n for n in ast.walk(guard[0]) if isinstance(n, ast.For) and any(x is wrap[0] for x in ast.walk(n))]:
                if isinstance(lp.iter, ast.Call) and dotted(lp.iter.func) == 'enumerate' and isinstance(lp.target, ast.Tuple) and len(lp.target.elts) == 2 and all(isinstance(e_, ast.Name) for e_ in lp.target.elts) and lp.iter.args:
                    if f'{norm_text(lp.iter.args[0])}[{lp.target.elts[0].id}]' == member and not any(isinstance(x, ast.Name) and x.id == lp.target.elts[1].id and isinstance(x.ctx, ast.Store) for b_ in lp.body for x in ast.walk(b_)):
                        hyp.add(f'isinstance({lp.target.elts[1].id}, BaseException)')
            if not any(implied_by(inner[0].test, {h}) for h in hyp):
                probs.append(f'a member is re-wrapped only when `{norm_text(inner[0].test)}`: a member exception for which the extra condition fails (e.g. one that came out of a pickle and has no live traceback) stays bare and loses its remote traceback at the next hop')
            # ...and the loop visits every slot of the member list: `for i in range(len(z))`, `for i, v in enumerate(z)`,
            # `for i in range(len(exc.args[1]['y']))` -- not a count that is not the length (`n` counts answers received)
            loops = [n for n in ast.walk(guard[0]) if isinstance(n, ast.For) and any(x is wrap[0] for x in ast.walk(n))]
            tgt = wrap[0].targets[0]
            lst = tgt.value  # z in z[i]
            lst_txt = norm_text(lst)
            aliases = {lst_txt}
            for a_ in ast.walk(guard[0]):
                if isinstance(a_, ast.Assign) and len(a_.targets) == 1 and norm_text(a_.targets[0]) == lst_txt:
                    aliases.add(norm_text(a_.value))
            ok_loop = False
            if loops:
                it = loops[0].iter
                if isinstance(it, ast.Call) and dotted(it.func) == 'range' and len(it.args) == 1 and isinstance(it.args[0], ast.Call) and dotted(it.args[0].func) == 'len' and it.args[0].args and norm_text(it.args[0].args[0]) in aliases:
                    ok_loop = True
                elif isinstance(it, ast.Call) and dotted(it.func) == 'enumerate' and it.args and norm_text(it.args[0]) in aliases:
                    ok_loop = True
            if not ok_loop:
                probs.append(f'the re-wrapping loop runs over `{norm_text(loops[0].iter) if loops else None}`, not over every slot of the member list `{lst_txt}`: a member exception outside that range stays bare and loses its remote traceback at the next hop')
    return init, probs
