"""C20 -- child-process log records all reach the parent (structural clauses)."""

from __future__ import annotations

import ast

from mpsa.cfg import CFG, Node, calls_in, header_expr, walk_shallow
from mpsa.flow import count_minmax, fmt_path, path_avoiding, reachable
from mpsa.guard import Guard
from mpsa.loader import dotted, norm_text
from mpsa.match import Scope, is_name, is_none, kwarg, method_of, spawn_sites, walk_deep_func, walk_shallow_func
from mpsa.report import Checker

from .common import CONTEXT, build_cfg, make_fallible

LOGQ = 'self._logger_queue_'


def run(ck: Checker):
    ck.rule('C20-1', 'the end marker of the parent log reader follows the last record: the parent enqueues None only on paths that have observed the child dead (or the child does, after removing its handler) (PRECEDE+WHO)')
    ck.rule('C20-2', 'the queue handler brackets the target: installed before the target runs, removed and the queue closed on every exit; failures are reported before the result is sent (MUSTPASS)', minimum=3)
    ck.rule('C20-3', 'single reader: only the logger thread reads the log queue; exactly one logger thread is started on every path of start(); records are gated only by level; the log queue is unbounded and its reader is not a forced daemon (WHO)', minimum=5)
    cls = ck.repo.cls(CONTEXT, 'SpawnProcess')
    # ------------------------------------------------------------------ C20-1
    n1 = 0
    # parameters of functions that are run as threads are bound through their spawn sites
    from mpsa.match import binding_names

    spawn_bind = {}
    for owner in cls.methods():
        osc = Scope(owner)
        for sp in spawn_sites(owner):
            if sp.target is not None:
                spawn_bind.setdefault(sp.target.key, {}).update(binding_names(sp, osc))
    for f in cls.methods():
        if f.name in ('_finalize',):
            continue  # object finaliser: the process object is going away
        sc = Scope(f, spawn_bind.get(f.key))
        puts = [n for n in walk_shallow_func(f.node) if isinstance(n, ast.Call) and method_of(n)[1] == 'put' and method_of(n)[0] is not None and sc.canon(method_of(n)[0]) == LOGQ and n.args and is_none(n.args[0])]
        if not puts:
            continue

        def extra(node, a):
            return {'EOFError', 'Exception'} if any(method_of(c)[1] == 'recv' for c in calls_in(a)) else set()

        cfg = build_cfg(f, ck.repo, make_fallible(sc, iters=set(), calls=set(), extra=extra))
        ck.analysed_func(f, cfg)
        pn = [n for n in cfg.nodes if header_expr(n) is not None and any(c in puts for c in calls_in(header_expr(n)))]
        # "observed dead" edges: leaving a test of self.exitcode on the not-None side
        dead = {}
        for n in cfg.nodes:
            if n.kind == 'test' and isinstance(n.ast, ast.Compare) and dotted(n.ast.left) == 'self.exitcode' and is_none(n.ast.comparators[0]):
                dead[n.id] = 'F' if isinstance(n.ast.ops[0], ast.Is) else 'T'
        joins = {n.id for n in cfg.nodes if header_expr(n) is not None and any(method_of(c)[1] == 'join' and isinstance(method_of(c)[0], ast.Call) and dotted(method_of(c)[0].func) == 'super' and not c.args and not c.keywords for c in calls_in(header_expr(n)))}
        # an untimed wait on the process sentinel (readable exactly when the child has exited) observes it dead too
        joins |= {n.id for n in cfg.nodes if header_expr(n) is not None and any((dotted(c.func) or '').endswith('connection.wait') and len(c.args) == 1 and not c.keywords and isinstance(c.args[0], (ast.List, ast.Tuple)) and len(c.args[0].elts) == 1 and sc.canon(c.args[0].elts[0]) == 'self.sentinel' for c in calls_in(header_expr(n)))}
        for p_ in pn:
            n1 += 1
            path = path_avoiding(cfg, [cfg.entry], {p_.id}, avoid=joins, edge_ok=lambda e: not (e.src in dead and e.kind == dead[e.src]))
            ck.ob('C20-1', f, p_.ast, path is None, 'the end marker is enqueued only after the child was observed dead: its queue feeder has flushed every record by then' if path is None else 'the parent ends its log reader while the child may still be flushing records: the last records are never handled, and a child with more unflushed log data than the pipe holds cannot exit (join hangs)', path=fmt_path(cfg, path) if path else '')
    ck.need(n1 >= 1, 'no parent-side end-marker put on the log queue found')
    # ------------------------------------------------------------------ C20-2
    f = cls.method('run')
    sc = Scope(f)
    cfg = build_cfg(f, ck.repo, make_fallible(sc, iters=set(), calls={'self._target'}, raises=frozenset({'BaseException'})))
    ck.analysed_func(f, cfg)
    g = Guard(cfg, cfg.lat)
    target = [n for n in cfg.nodes if header_expr(n) is not None and any(dotted(c.func) == 'self._target' for c in calls_in(header_expr(n)))]
    mk = [n for n in cfg.nodes if isinstance(n.ast, ast.Assign) and isinstance(n.ast.value, ast.Call) and (dotted(n.ast.value.func) or '').endswith('QueueHandler')]
    add = [n for n in cfg.nodes if header_expr(n) is not None and any(method_of(c)[1] == 'addHandler' for c in calls_in(header_expr(n)))]
    rem = [n for n in cfg.nodes if header_expr(n) is not None and any(method_of(c)[1] == 'removeHandler' for c in calls_in(header_expr(n)))]
    ck.need(target and mk, f'{f.key}: target call / QueueHandler not found')
    if not add or not rem:
        ck.ob('C20-2', f, mk[0].ast, False, 'the queue handler is created but never installed on (or never removed from) the root logger: no record of the child is forwarded' if not add else 'the queue handler is never removed')
        add = add or mk
        rem = rem or mk
    qh = mk[0].ast.targets[0].id
    probs = []
    p = path_avoiding(cfg, cfg.normal_succ(mk[0].id), {target[0].id}, avoid={a.id for a in add})
    if p is not None:
        probs.append('the target can run before the queue handler is installed: its first records are not forwarded')
    if any(target[0].id in reachable(cfg, [r.id]) for r in rem):
        probs.append('the handler is removed before the target runs')
    # the child produces every record: its root logger is opened fully (DEBUG / NOTSET); which records are handled is the
    # parent's decision at handling time, per logger -- a child level copied from the parent's root level at creation time
    # drops the records of loggers the parent configured more verbosely than its root, and ignores later level changes
    lv = [n for n in walk_deep_func(f.node) if isinstance(n, ast.Call) and method_of(n)[1] == 'setLevel']
    for c_ in lv:
        a_ = c_.args[0] if c_.args else None
        open_ = (dotted(a_) in ('logging.DEBUG', 'logging.NOTSET', 'DEBUG', 'NOTSET')) or (isinstance(a_, ast.Constant) and isinstance(a_.value, int) and a_.value <= 10)
        if not open_:
            probs.append(f'L{c_.lineno}: the child\'s root logger is set to `{norm_text(a_) if a_ is not None else "?"}`, not DEBUG: records below that level are never produced, although the parent\'s per-logger levels (or a level changed after the Process was created) would let them through')
    if not lv:
        probs.append('the child does not open its root logger (setLevel(DEBUG)): only WARNING and above are produced')
    ck.ob('C20-2', f, add[0].ast, not probs, '; '.join(probs) if probs else 'the queue handler is installed on the root logger before the target is called')
    probs = []
    remids = {r.id for r in rem}
    p = g.feasible_path(cfg.normal_succ(add[0].id), {cfg.exit_return, cfg.exit_raise}, avoid=remids)
    if p is not None:
        probs.append('an exit of run() leaves the queue handler installed / the log queue open')
    # the queue is closed after removal (flush + join of the feeder happen at process exit)
    lq = None
    for n in walk_shallow_func(f.node):
        if isinstance(n, ast.Assign) and isinstance(n.value, ast.Call) and method_of(n.value)[1] == 'pop' and n.value.args and isinstance(n.value.args[0], ast.Constant) and n.value.args[0].value == '_logger_queue_':
            lq = n.targets[0].id
    closes = {n.id for n in cfg.nodes if header_expr(n) is not None and any(method_of(c)[1] == 'close' and is_name(method_of(c)[0], lq) for c in calls_in(header_expr(n)))}
    for r in rem:
        if not (closes & reachable(cfg, [r.id])):
            probs.append('the log queue is not closed after the handler was removed')
    # ...and its feeder thread is joined at process exit (the default): cancelling that join lets the child exit with
    # records still buffered in the feeder -- they are lost without any sign
    cj = [n for n in walk_deep_func(f.node) if isinstance(n, ast.Call) and method_of(n)[1] == 'cancel_join_thread']
    if cj:
        probs.append(f'L{cj[0].lineno}: `{norm_text(cj[0])}`: the child no longer waits for its log queue to be flushed when it exits; records still buffered at that moment never reach the parent')
    # records emitted by handle_exception must be queued before the handler goes: removal is in the finally
    if any(r.pending is None for r in rem):
        probs.append('the handler removal is not in the cleanup of the try that runs the target')
    ck.ob('C20-2', f, rem[0].ast, not probs, '; '.join(sorted(set(probs))) if probs else f'every exit after installation removes `{qh}` and closes the queue, in the finally of the try around the target ({len(rem)} cleanup copies)')
    # failures are reported (handle_exception) before the error is sent
    sends_err = [n for n in cfg.nodes if header_expr(n) is not None and any(method_of(c)[1] == 'send' and c.args and isinstance(c.args[0], ast.Call) and (dotted(c.args[0].func) or '').endswith('RemoteException') for c in calls_in(header_expr(n)))]
    he = {n.id for n in cfg.nodes if header_expr(n) is not None and any(dotted(c.func) == 'self.handle_exception' for c in calls_in(header_expr(n)))}
    probs = []
    for sn in sends_err:
        p = path_avoiding(cfg, [cfg.entry], {sn.id}, avoid=he)
        if p is not None:
            probs.append(f'the error sent at L{sn.lineno} is not reported with handle_exception first')
    ck.ob('C20-2', f, (f.node.lineno, 'failure reporting'), not probs and len(sends_err) >= 2, '; '.join(probs) if probs else f'{len(sends_err)} error sends, each preceded by handle_exception (whose output is still forwarded)')
    # ------------------------------------------------------------------ C20-3
    readers = []
    for fn in cls.methods():
        scf = Scope(fn)
        for n in walk_shallow_func(fn.node):
            if isinstance(n, ast.Call) and method_of(n)[1] in ('get', 'get_nowait') and method_of(n)[0] is not None and scf.canon(method_of(n)[0]) == LOGQ:
                readers.append((fn, n))
    # the log queue is unbounded: logging.handlers.QueueHandler enqueues with put_nowait and drops the record on Full
    init = cls.method('__init__')
    qc = [n for n in walk_shallow_func(init.node) if isinstance(n, ast.Assign) and isinstance(n.value, ast.Call) and (dotted(n.value.func) or '').endswith('Queue') and isinstance(n.targets[0], ast.Name) and 'logger' in n.targets[0].id]
    ck.need(qc, f'{init.key}: construction of the log queue not found')
    qcall = qc[0].value
    bound = qcall.args[0] if qcall.args else next((k.value for k in qcall.keywords if k.arg == 'maxsize'), None)
    okq = bound is None or (isinstance(bound, ast.Constant) and isinstance(bound.value, int) and bound.value <= 0)
    ck.ob('C20-3', init, qc[0], okq, 'the log queue is unbounded: the child\'s QueueHandler (put_nowait) never finds it full' if okq else f'the log queue is bounded (`{norm_text(bound)}`): QueueHandler enqueues with put_nowait, so records emitted while the queue is full are silently dropped')
    st = cls.method('start')
    sps = [sp for sp in spawn_sites(st) if sp.target is not None and sp.target.name == '_run_logger']
    if sps:
        dm = kwarg(sps[0].call, 'daemon')
        okd = not (isinstance(dm, ast.Constant) and dm.value is True)
        ck.ob('C20-3', st, (sps[0].call.lineno, 'logger thread daemon flag'), okd, 'the logger thread is not forced to be a daemon: records still queued when the interpreter exits are handled before the thread ends' if okd else 'the logger thread is always a daemon: it is killed at interpreter shutdown with the tail of the child\'s records still unhandled')
    ok = not readers and len(sps) == 1 and not sps[0].in_loop
    bound = None
    if sps:
        bound = {p: dotted(e) for p, e in sps[0].bindings.items()}
        ok = ok and LOGQ in bound.values()
    ck.ob('C20-3', st, sps[0].call if sps else st.node, ok, f'the log queue is read only by the logger thread (bound as {bound}); one logger thread per process object' if ok else f'log queue readers: {[(f.qualname, n.lineno) for f, n in readers]}; logger threads spawned: {len(sps)}')
    scfg = build_cfg(st, ck.repo, None)
    w = lambda n: sum(1 for c in calls_in(header_expr(n)) if method_of(c)[1] == 'start' and dotted(method_of(c)[0]) == 'self._logger_thread_') if header_expr(n) is not None else 0
    res = count_minmax(scfg, scfg.entry, w, back='skip')
    v = res.get(('node', scfg.exit_return))
    ck.ob('C20-3', st, (st.node.lineno, 'logger thread start'), v == (1, 1), 'the logger thread is started exactly once on every path of start()' if v == (1, 1) else f'the logger thread is started {v} times on some path of start()')
    rl = cls.method('_run_logger')
    rcfg = build_cfg(rl, ck.repo, None)
    ck.analysed_func(rl, rcfg)
    handle = [n for n in rcfg.nodes if header_expr(n) is not None and any(method_of(c)[1] == 'handle' for c in calls_in(header_expr(n)))]
    gets = [n for n in rcfg.nodes if isinstance(n.ast, ast.Assign) and isinstance(n.ast.value, ast.Call) and method_of(n.ast.value)[1] == 'get']
    probs = []
    if not handle or not gets:
        probs.append('record handling loop not found')
    else:
        # tests between the get and the handle: exactly the end-marker test and the level gate
        between = reachable(rcfg, [gets[0].id]) & reachable(rcfg, [handle[0].id], forward=False)
        tests = [rcfg.nodes[k] for k in between if rcfg.nodes[k].kind == 'test' and not rcfg.nodes[k].extra.get('loop')]
        other = [t for t in tests if not (isinstance(t.ast, ast.Compare) and ((isinstance(t.ast.ops[0], ast.Is) and is_none(t.ast.comparators[0])) or 'levelno' in norm_text(t.ast)))]
        # a marker the parent itself enqueues (module-level constant put on the log queue by a method of the class) is
        # not a record of the child: skipping it filters nothing
        cmod_ = rl.module
        own_markers = set()
        for n_ in cmod_.tree.body:
            if isinstance(n_, ast.Assign) and isinstance(n_.value, ast.Constant) and isinstance(n_.value.value, str) and isinstance(n_.targets[0], ast.Name):
                nm_ = n_.targets[0].id
                if any(isinstance(c_, ast.Call) and method_of(c_)[1] == 'put' and c_.args and is_name(c_.args[0], nm_) for m_ in cls.methods() for c_ in ast.walk(m_.node)):
                    own_markers.add(nm_)
        other = [t for t in other if not (isinstance(t.ast, ast.Compare) and len(t.ast.ops) == 1 and isinstance(t.ast.ops[0], (ast.Eq, ast.Is)) and isinstance(t.ast.comparators[0], ast.Name) and t.ast.comparators[0].id in own_markers)]
        if other:
            probs.append(f'records are also filtered by `{norm_text(other[0].ast)}`')
        lev = [t for t in tests if 'levelno' in norm_text(t.ast)]
        if lev and not ('getEffectiveLevel' in norm_text(lev[0].ast) and isinstance(lev[0].ast.ops[0], ast.GtE)):
            probs.append(f'level gate is `{norm_text(lev[0].ast)}`, not `levelno >= effective level`')
        # one get per loop iteration, one handle at most
        rec = gets[0].ast.targets[0].id
        hc = [c for c in calls_in(header_expr(handle[0])) if method_of(c)[1] == 'handle'][0]
        if not (hc.args and is_name(hc.args[0], rec)):
            probs.append('the record handled is not the one just dequeued')
        # the level that gates a record is that of the logger the record names, which is also the logger that handles it
        hrecv = method_of(hc)[0]
        hname = hrecv.id if isinstance(hrecv, ast.Name) else None
        defs = [n for n in rcfg.nodes if isinstance(n.ast, ast.Assign) and hname and any(is_name(t, hname) for t in n.ast.targets)]
        if not (hname and len(defs) == 1 and isinstance(defs[0].ast.value, ast.Call) and (dotted(defs[0].ast.value.func) or '').endswith('getLogger') and defs[0].ast.value.args and norm_text(defs[0].ast.value.args[0]) == f'{rec}.name'):
            probs.append(f'the record is not handled by `logging.getLogger({rec}.name)` (the logger it was emitted on)')
        elif lev:
            gl = [c for c in calls_in(lev[0].ast) if method_of(c)[1] == 'getEffectiveLevel']
            if gl and not is_name(method_of(gl[0])[0], hname):
                probs.append(f'the level gate asks `{norm_text(method_of(gl[0])[0])}`, not `{hname}` — the logger the record names: records are let through or dropped by the level of the wrong logger (e.g. the library\'s own module logger)')
    ck.ob('C20-3', rl, (rl.node.lineno, '_run_logger'), not probs, '; '.join(probs) if probs else 'every dequeued record that is not the end marker is handled, gated only by the logger\'s effective level')
    # ------------------------------------------------------------------ C20-4
    ck.rule('C20-4', 'every process the library starts for user code forwards its log records: the worker processes of ProcessServlet are created with mpservice\'s Process (= SpawnProcess), the process pool defaults to MP_SPAWN_CTX, whose Process class is SpawnProcess (AGREE)', minimum=4)
    from .common import FUTURES, MPINIT, SERVLET

    cmod = ck.repo.module(CONTEXT)
    sctx = cmod.cls('SpawnContext')
    pa = [n for n in sctx.node.body if isinstance(n, ast.Assign) and any(is_name(t, 'Process') for t in n.targets)]
    ok = len(pa) == 1 and is_name(pa[0].value, 'SpawnProcess')
    ck.ob('C20-4', f'{cmod.rel}::SpawnContext', pa[0] if pa else (sctx.node.lineno, 'SpawnContext'), ok, 'SpawnContext.Process is SpawnProcess' if ok else 'SpawnContext does not create SpawnProcess objects: processes made through the context (process pools) do not forward their log records')
    ctxs = [n for n in cmod.tree.body if isinstance(n, ast.Assign) and any(is_name(t, 'MP_SPAWN_CTX') for t in n.targets)]
    ok = len(ctxs) == 1 and isinstance(ctxs[0].value, ast.Call) and is_name(ctxs[0].value.func, 'SpawnContext')
    ck.ob('C20-4', f'{cmod.rel}::MP_SPAWN_CTX', ctxs[0] if ctxs else (1, 'MP_SPAWN_CTX'), ok, 'MP_SPAWN_CTX is a SpawnContext' if ok else 'MP_SPAWN_CTX is not an instance of mpservice\'s SpawnContext')
    imod = ck.repo.module(MPINIT)
    al = [n for n in imod.tree.body if isinstance(n, ast.Assign) and any(is_name(t, 'Process') for t in n.targets)]
    ok = len(al) == 1 and is_name(al[0].value, 'SpawnProcess')
    ck.ob('C20-4', f'{imod.rel}::Process', al[0] if al else (1, 'Process'), ok, 'mpservice.multiprocessing.Process is SpawnProcess' if ok else 'mpservice.multiprocessing.Process is not SpawnProcess')
    smod = ck.repo.module(SERVLET)
    imp = smod.imports.get('Process', '')
    st = smod.cls('ProcessServlet').method('start')
    mk = [n for n in walk_shallow_func(st.node) if isinstance(n, ast.Call) and (dotted(n.func) or '').split('.')[-1] in ('Process', 'SpawnProcess')]
    ok = bool(mk) and all(dotted(n.func) in ('Process', 'SpawnProcess') for n in mk) and imp.startswith('mpservice.multiprocessing') or imp.startswith('..multiprocessing')
    ck.ob('C20-4', st, mk[0] if mk else st.node, ok, f'worker processes are `{imp}` objects' if ok else f'ProcessServlet creates its workers with `{dotted(mk[0].func) if mk else "?"}` imported from `{imp or "?"}`: not mpservice\'s Process — their log records (and tracebacks) never reach the parent')
    fmod = ck.repo.module(FUTURES)
    pinit = fmod.cls('ProcessPoolExecutor').method('__init__')
    dfl = [n for n in walk_shallow_func(pinit.node) if isinstance(n, ast.Assign) and any(is_name(t, 'mp_context') for t in n.targets)]
    sup = [n for n in walk_shallow_func(pinit.node) if isinstance(n, ast.Call) and method_of(n)[1] == '__init__' and any(k.arg == 'mp_context' and is_name(k.value, 'mp_context') for k in n.keywords)]
    ok = len(dfl) == 1 and is_name(dfl[0].value, 'MP_SPAWN_CTX') and bool(sup)
    ck.ob('C20-4', pinit, dfl[0] if dfl else pinit.node, ok, 'the process pool defaults to MP_SPAWN_CTX and hands the context on' if ok else 'the process pool does not default to MP_SPAWN_CTX (or does not pass the context on): its workers are standard processes whose log records are lost')
    # ------------------------------------------------------------------ C20-5
    ck.rule('C20-5', 'nothing the helper threads need at the end has to be created at the end: since Python 3.12 no thread can be started during interpreter shutdown, which is when the end marker is due for a child that outlives the main thread — helper threads are started in start() only, and a multiprocessing queue a helper thread puts to (its first put starts the queue\'s feeder thread) has already been put to in start() (WHO+PRECEDE)')
    st = cls.method('start')
    helpers = []
    for m_ in cls.methods():
        for sp in spawn_sites(m_):
            if sp.kind == 'thread' and sp.target is not None and sp.target not in helpers:
                helpers.append(sp.target)
    probs = []
    for h in helpers:
        late = [sp for sp in spawn_sites(h) if sp.kind == 'thread']
        if late:
            probs.append(f'{h.qualname} L{late[0].call.lineno}: a thread is started from inside a helper thread (when the child\'s result arrives / the child ends): for a child that outlives the main thread this happens during interpreter shutdown and fails with RuntimeError — the logger thread never gets its end marker and the parent process never exits')
    start_puts = {dotted(method_of(c_)[0]) for c_ in ast.walk(st.node) if isinstance(c_, ast.Call) and method_of(c_)[1] == 'put' and method_of(c_)[0] is not None}
    for h in helpers:
        for c_ in ast.walk(h.node):
            if isinstance(c_, ast.Call) and method_of(c_)[1] == 'put' and method_of(c_)[0] is not None:
                qd = dotted(method_of(c_)[0])
                if qd and qd.startswith('self.') and 'queue' in qd.lower() and qd not in start_puts:
                    probs.append(f'{h.qualname} L{c_.lineno}: `{norm_text(c_)}` is the parent\'s first put on that multiprocessing queue (start() makes none): it has to start the queue\'s feeder thread, which fails during interpreter shutdown — a child that outlives the main thread leaves the logger thread without its end marker, the parent never exits')
    ck.ob('C20-5', st, (st.node.lineno, 'late creations'), not probs, '; '.join(sorted(set(probs))) if probs else f'{len(helpers)} helper threads, all started in start(); the log queue has had its first put in start()')
