"""C20 -- child-process log records all reach the parent (structural clauses)."""

from __future__ import annotations

import ast

from mpsa.cfg import CFG, Node, calls_in, header_expr, walk_shallow
from mpsa.flow import count_minmax, fmt_path, path_avoiding, reachable
from mpsa.guard import Guard
from mpsa.loader import dotted, norm_text
from mpsa.match import Scope, is_name, is_none, kwarg, method_of, spawn_sites, walk_deep_func, walk_shallow_func
from mpsa.report import Checker

from .common import CONTEXT, build_cfg, make_fallible

LOGQ = 'self._logger_queue_'


def check_flag_reader(ck: Checker, rid: str, rl, flag: str, qname: str):
    """A log reader that stops on a "child has ended" flag instead of an end marker loses nothing only if it stops on
    this evidence: the flag was read *before* a look at the queue, that look found the queue empty, and the value read
    was true.  (The child flushes its records before it exits and the flag is set after the exit: what was in flight is
    in the pipe before the flag reads true.)  Read after the look, a record that arrives between the look and the read
    is never handled; leaving the loop without an empty look drops whatever is queued."""
    ck.need(flag and qname, f'{rl.key}: flag / queue parameter of the log reader not identified')
    sc = Scope(rl)

    def extra(node, a):
        return {'Empty'} if any(method_of(c)[1] in ('get', 'get_nowait') and is_name(method_of(c)[0], qname) for c in calls_in(a)) else set()

    cfg = build_cfg(rl, ck.repo, make_fallible(sc, iters=set(), calls=set(), extra=extra))
    ck.analysed_func(rl, cfg)
    gets = [n for n in cfg.nodes if header_expr(n) is not None and any(method_of(c)[1] in ('get', 'get_nowait') and is_name(method_of(c)[0], qname) for c in calls_in(header_expr(n)))]
    loops = [n for n in cfg.nodes if n.kind == 'test' and n.extra.get('loop') and gets and n.id in gets[0].loops]
    ck.need(gets and loops, f'{rl.key}: reader loop not found')
    loop = loops[-1]
    outside = {k.id for k in cfg.nodes if loop.id not in k.loops and k.id != loop.id and k.id != cfg.exit_raise}
    empty_edges = {(e.src, e.dst) for g_ in gets for e in cfg.succ[g_.id] if e.kind == 'exc' and 'Empty' in (e.data or ())}
    probs = []
    untimed = [g_ for g_ in gets if not any((kwarg(c, 'timeout') is not None or kwarg(c, 'block') is not None or len(c.args) >= 1 or method_of(c)[1] == 'get_nowait') for c in calls_in(header_expr(g_)) if method_of(c)[1] in ('get', 'get_nowait'))]
    if untimed:
        probs.append(f'L{untimed[0].lineno}: the reader waits on the queue without a timeout: it never gets to look at the flag once the child has gone quiet')
    # (1) the loop is left only after a look that found the queue empty
    p = path_avoiding(cfg, [e for e in cfg.succ[loop.id] if e.kind == 'T'], outside, edge_ok=lambda e: (e.src, e.dst) not in empty_edges and not (e.is_exc and loop.id not in cfg.nodes[e.dst].loops))
    if p is not None:
        probs.append(f'the reader can stop (via L{[cfg.nodes[k].lineno for k in p][-2:]}) without a look at the queue that found it empty: records still queued are never handled')
    # (2) the decision to stop rests on a flag value read before that look
    reads = [n for n in cfg.nodes if n.kind == 'stmt' and isinstance(n.ast, ast.Assign) and len(n.ast.targets) == 1 and isinstance(n.ast.targets[0], ast.Name) and isinstance(n.ast.value, ast.Call) and method_of(n.ast.value)[1] == 'is_set' and is_name(method_of(n.ast.value)[0], flag)]
    locals_ = {n.ast.targets[0].id for n in reads}
    exit_tests = []
    for t in cfg.nodes:
        if t.kind == 'test' and loop.id in t.loops and not t.extra.get('loop'):
            for lab in ('T', 'F'):
                es = [e for e in cfg.succ[t.id] if e.kind == lab]
                if es and path_avoiding(cfg, es, outside, avoid={loop.id} | {g_.id for g_ in gets}) is not None:
                    exit_tests.append((t, lab))
    for t, lab in exit_tests:
        direct = [c for c in ast.walk(t.ast) if isinstance(c, ast.Call) and method_of(c)[1] == 'is_set' and is_name(method_of(c)[0], flag)]
        names = {x.id for x in ast.walk(t.ast) if isinstance(x, ast.Name)} & locals_
        if direct:
            probs.append(f'L{t.lineno}: `{norm_text(t.ast)}` reads the flag after the look at the queue: a record that arrives between the empty look and this read (the child\'s last records, flushed just before it exits) is never handled')
        elif names:
            v = sorted(names)[0]
            pos = t.ast
            neg = False
            while isinstance(pos, ast.UnaryOp) and isinstance(pos.op, ast.Not):
                pos, neg = pos.operand, not neg
            if not (isinstance(pos, ast.Name) and ((lab == 'T') != neg)):
                probs.append(f'L{t.lineno}: the reader stops when `{norm_text(t.ast)}` is {lab == "T"}: not "the flag read true"')
            rd = [n for n in reads if n.ast.targets[0].id == v]
            for g_ in gets:
                if path_avoiding(cfg, [e for e in cfg.succ[loop.id] if e.kind == 'T'], {g_.id}, avoid={n.id for n in rd}) is not None:
                    probs.append(f'the flag value `{v}` tested at L{t.lineno} is not read before the look at the queue (L{g_.lineno}) in every pass')
                if any(path_avoiding(cfg, [e for e in cfg.succ[g_.id]], {n.id}, avoid={loop.id}) is not None and path_avoiding(cfg, cfg.normal_succ(n.id), {t.id}, avoid={loop.id}) is not None for n in rd):
                    probs.append(f'the flag value `{v}` is read again between the look at the queue and the test at L{t.lineno}')
        else:
            probs.append(f'L{t.lineno}: the reader stops on `{norm_text(t.ast)}`, which is not the child-ended flag')
    if not exit_tests and p is None:
        probs.append('the reader loop has no way to stop')
    ck.ob(rid, rl, loop.ast if loop.ast is not None else (loop.lineno, 'reader loop'), not probs, '; '.join(sorted(set(probs))) if probs else f'the log reader stops only when `{flag}` had been read true before a look at the queue that found it empty: every record the child flushed before exiting has been handled')


def check_parent_never_puts(ck: Checker, rid: str, cls, spawn_bind=None):
    """When a process exits, multiprocessing first runs the exit finalisers of priority >= 0 and only then joins the
    process's children.  A multiprocessing queue that this process has ever put to owns such a finaliser (registered when
    the first put starts the feeder thread): it closes the queue -- both ends.  So a process that has put anything on the
    log queue of one of its children closes that queue *before* joining the child: the reader thread dies, nobody reads
    the child's records, the child blocks flushing its log at exit, the parent blocks joining it.  (Nested processes:
    a child that starts a grandchild and returns without joining it.)  The log queue is therefore written by the child
    only."""
    writers = []
    for m_ in cls.methods():
        if m_.name in ('run', '_finalize'):
            continue  # the child side; the object finaliser (runs when the helper threads, hence the child, have ended)
        scm = Scope(m_, spawn_bind.get(m_.key) if spawn_bind else None)
        puts = [c_ for c_ in walk_shallow_func(m_.node) if isinstance(c_, ast.Call) and method_of(c_)[1] in ('put', 'put_nowait') and method_of(c_)[0] is not None and scm.canon(method_of(c_)[0]) == LOGQ]
        if not puts:
            continue
        cfg = build_cfg(m_, ck.repo, None)
        dead = {}
        for n in cfg.nodes:
            if n.kind == 'test' and isinstance(n.ast, ast.Compare) and dotted(n.ast.left) == 'self.exitcode' and is_none(n.ast.comparators[0]):
                dead[n.id] = 'F' if isinstance(n.ast.ops[0], ast.Is) else 'T'
        obs = {n.id for n in cfg.nodes if header_expr(n) is not None and any((method_of(c)[1] == 'join' and isinstance(method_of(c)[0], ast.Call) and dotted(method_of(c)[0].func) == 'super' and not c.args and not c.keywords) or ((dotted(c.func) or '').endswith('connection.wait') and len(c.args) == 1 and not c.keywords) for c in calls_in(header_expr(n)))}
        for c_ in puts:
            pn = [n for n in cfg.nodes if header_expr(n) is not None and any(c is c_ for c in calls_in(header_expr(n)))]
            if pn and path_avoiding(cfg, [cfg.entry], {pn[0].id}, avoid=obs, edge_ok=lambda e: not (e.src in dead and e.kind == dead[e.src])) is not None:
                writers.append((m_, c_))
    st = cls.method('start')
    ck.ob(rid, writers[0][0] if writers else st, writers[0][1] if writers else (st.node.lineno, 'parent-side puts on the log queue'), not writers, 'no method that runs in the parent puts anything on the log queue while the child may be alive: the parent owns no exit finaliser that would close the queue under a living child' if not writers else f'{writers[0][0].qualname} L{writers[0][1].lineno}: `{norm_text(writers[0][1])[:60]}` — the parent puts on its child\'s log queue; the first put registers an exit finaliser (priority 10) that closes the queue when this process exits, which happens before it joins its children: a child that is still logging then (a grandchild of a process whose target has returned) can never flush its records and never exits, and neither does this process')


def run(ck: Checker):
    ck.rule('C20-1', 'the parent log reader ends after the last record: its end signal (a None put on the queue, or a child-has-ended flag) is given only on paths that have observed the child dead; a reader that stops on a flag does so only when the flag had been read true before a look at the queue that found it empty (PRECEDE+WHO+MUSTPASS)')
    ck.rule('C20-2', 'the queue handler brackets the target: installed before the target runs, removed and the queue closed on every exit; failures are reported before the result is sent (MUSTPASS)', minimum=3)
    ck.rule('C20-3', 'single reader: only the logger thread reads the log queue; exactly one logger thread is started on every path of start(); records are gated only by level; the log queue is unbounded and its reader is not a forced daemon (WHO)', minimum=5)
    cls = ck.repo.cls(CONTEXT, 'SpawnProcess')
    # ------------------------------------------------------------------ C20-1
    n1 = 0
    # parameters of functions that are run as threads are bound through their spawn sites
    from mpsa.match import binding_names

    spawn_bind = {}
    for owner in cls.methods():
        osc = Scope(owner)
        for sp in spawn_sites(owner):
            if sp.target is not None:
                spawn_bind.setdefault(sp.target.key, {}).update(binding_names(sp, osc))
    # the "child has ended" flag, if the design uses one: an Event made in start() and handed to the logger thread
    st0 = cls.method('start')
    ev_attrs = {dotted(n.targets[0]) for n in walk_shallow_func(st0.node) if isinstance(n, ast.Assign) and len(n.targets) == 1 and isinstance(n.value, ast.Call) and (dotted(n.value.func) or '').split('.')[-1] == 'Event' and dotted(n.targets[0])}
    rl0 = cls.method('_run_logger')
    rl_bind = spawn_bind.get(rl0.key, {})
    flag_attr = next((v for v in (dotted(e) if not isinstance(e, str) else e for e in rl_bind.values()) if v in ev_attrs), None)
    flag_param = next((k for k, e in rl_bind.items() if (dotted(e) if not isinstance(e, str) else e) == flag_attr), None) if flag_attr else None
    for f in cls.methods():
        if f.name in ('_finalize',):
            continue  # object finaliser: the process object is going away
        sc = Scope(f, spawn_bind.get(f.key))
        puts = [n for n in walk_shallow_func(f.node) if isinstance(n, ast.Call) and method_of(n)[1] == 'put' and method_of(n)[0] is not None and sc.canon(method_of(n)[0]) == LOGQ and n.args and is_none(n.args[0])]
        if flag_attr:
            puts += [n for n in walk_shallow_func(f.node) if isinstance(n, ast.Call) and method_of(n)[1] == 'set' and method_of(n)[0] is not None and sc.canon(method_of(n)[0]) == flag_attr]
        if not puts:
            continue

        def extra(node, a):
            return {'EOFError', 'Exception'} if any(method_of(c)[1] == 'recv' for c in calls_in(a)) else set()

        cfg = build_cfg(f, ck.repo, make_fallible(sc, iters=set(), calls=set(), extra=extra))
        ck.analysed_func(f, cfg)
        pn = [n for n in cfg.nodes if header_expr(n) is not None and any(c in puts for c in calls_in(header_expr(n)))]
        # "observed dead" edges: leaving a test of self.exitcode on the not-None side
        dead = {}
        for n in cfg.nodes:
            if n.kind == 'test' and isinstance(n.ast, ast.Compare) and dotted(n.ast.left) == 'self.exitcode' and is_none(n.ast.comparators[0]):
                dead[n.id] = 'F' if isinstance(n.ast.ops[0], ast.Is) else 'T'
        joins = {n.id for n in cfg.nodes if header_expr(n) is not None and any(method_of(c)[1] == 'join' and isinstance(method_of(c)[0], ast.Call) and dotted(method_of(c)[0].func) == 'super' and not c.args and not c.keywords for c in calls_in(header_expr(n)))}
        # an untimed wait on the process sentinel (readable exactly when the child has exited) observes it dead too
        joins |= {n.id for n in cfg.nodes if header_expr(n) is not None and any((dotted(c.func) or '').endswith('connection.wait') and len(c.args) == 1 and not c.keywords and isinstance(c.args[0], (ast.List, ast.Tuple)) and len(c.args[0].elts) == 1 and sc.canon(c.args[0].elts[0]) == 'self.sentinel' for c in calls_in(header_expr(n)))}
        for p_ in pn:
            n1 += 1
            path = path_avoiding(cfg, [cfg.entry], {p_.id}, avoid=joins, edge_ok=lambda e: not (e.src in dead and e.kind == dead[e.src]))
            ck.ob('C20-1', f, p_.ast, path is None, 'the end signal of the log reader is given only after the child was observed dead: its queue feeder has flushed every record by then' if path is None else 'the parent ends its log reader while the child may still be flushing records: the last records are never handled, and a child with more unflushed log data than the pipe holds cannot exit (join hangs)', path=fmt_path(cfg, path) if path else '')
    ck.need(n1 >= 1, 'no parent-side end signal of the log reader (end-marker put / child-ended flag) found')
    # the object finaliser `_finalize` also ends the reader; it is exempt above because it can only run when the process
    # object is collected, which the helper threads prevent while the child lives.  That holds only for a finaliser
    # WITHOUT an exit priority: one with a priority is also run by multiprocessing's exit function -- before the exiting
    # process joins its children -- and then ends the reader of a child (a grandchild of the top process) that is alive
    fin_calls = [c for c in ast.walk(st0.node) if isinstance(c, ast.Call) and (dotted(c.func) or '').endswith('Finalize') and len(c.args) >= 2 and (dotted(c.args[1]) or norm_text(c.args[1])).endswith('_finalize')]
    fin_m = cls.method('_finalize') if cls.has_method('_finalize') else None
    ends_reader = fin_m is not None and any(isinstance(c, ast.Call) and method_of(c)[1] in ('set', 'put') for c in ast.walk(fin_m.node))
    for fc in fin_calls:
        ep = kwarg(fc, 'exitpriority')
        okp = ep is None or is_none(ep) or not ends_reader
        ck.ob('C20-1', st0, fc, okp, 'the object finaliser that can end the log reader has no exit priority: it runs only when the process object is collected' if okp else f'the finaliser that ends the log reader is registered with exitpriority={norm_text(ep)}: multiprocessing runs it when this process exits, before joining its children — the reader of a child that is still alive (a grandchild that was not joined explicitly) is ended, its later records are never read, and once they exceed a pipe buffer it can never exit')
    if flag_attr:
        check_flag_reader(ck, 'C20-1', rl0, flag_param, next((k for k, e in rl_bind.items() if (dotted(e) if not isinstance(e, str) else e) == LOGQ), None))
    # ------------------------------------------------------------------ C20-2
    f = cls.method('run')
    sc = Scope(f)
    cfg = build_cfg(f, ck.repo, make_fallible(sc, iters=set(), calls={'self._target'}, raises=frozenset({'BaseException'})))
    ck.analysed_func(f, cfg)
    g = Guard(cfg, cfg.lat)
    target = [n for n in cfg.nodes if header_expr(n) is not None and any(dotted(c.func) == 'self._target' for c in calls_in(header_expr(n)))]
    def _is_qh_class(k):
        k = k or ''
        if k.split('.')[-1] == 'QueueHandler':
            return True
        c_ = f.module.classes.get(k) if '.' not in k else None
        return c_ is not None and any(b.split('.')[-1] == 'QueueHandler' for b in c_.bases)

    mk = [n for n in cfg.nodes if isinstance(n.ast, ast.Assign) and isinstance(n.ast.value, ast.Call) and _is_qh_class(dotted(n.ast.value.func))]
    if not mk:
        # whatever object is handed to addHandler
        handed = {c.args[0].id for n in cfg.nodes if header_expr(n) is not None for c in calls_in(header_expr(n)) if method_of(c)[1] == 'addHandler' and c.args and isinstance(c.args[0], ast.Name)}
        mk = [n for n in cfg.nodes if isinstance(n.ast, ast.Assign) and isinstance(n.ast.value, ast.Call) and len(n.ast.targets) == 1 and isinstance(n.ast.targets[0], ast.Name) and n.ast.targets[0].id in handed]
    add = [n for n in cfg.nodes if header_expr(n) is not None and any(method_of(c)[1] == 'addHandler' for c in calls_in(header_expr(n)))]
    rem = [n for n in cfg.nodes if header_expr(n) is not None and any(method_of(c)[1] == 'removeHandler' for c in calls_in(header_expr(n)))]
    ck.need(target and mk, f'{f.key}: target call / QueueHandler not found')
    if not add or not rem:
        ck.ob('C20-2', f, mk[0].ast, False, 'the queue handler is created but never installed on (or never removed from) the root logger: no record of the child is forwarded' if not add else 'the queue handler is never removed')
        add = add or mk
        rem = rem or mk
    qh = mk[0].ast.targets[0].id
    probs = []
    # the handler that forwards is the standard QueueHandler, whose prepare() makes every record picklable (message and
    # args merged, exc_info formatted into the text and dropped) -- or a subclass that leaves that machinery alone
    hk = dotted(mk[0].ast.value.func) or ''
    hcls = f.module.classes.get(hk.split('.')[-1]) if '.' not in hk else None
    if hcls is not None:
        over = sorted({m_.name for m_ in hcls.methods()} & {'prepare', 'enqueue', 'emit', 'handle', 'format'})
        if not any(b.split('.')[-1] == 'QueueHandler' for b in hcls.bases):
            probs.append(f'the child installs `{hk}`, which is not a logging.handlers.QueueHandler')
        elif over:
            probs.append(f'the child installs `{hk}`, which overrides {over} of the standard QueueHandler: prepare() is what makes a record picklable (it formats exc_info into the text and merges the args) — records carrying an exception or unpicklable arguments fail in the queue\'s feeder thread and never reach the parent')
    elif hk.split('.')[-1] != 'QueueHandler':
        probs.append(f'the child installs `{hk}`, not the standard QueueHandler')
    p = path_avoiding(cfg, cfg.normal_succ(mk[0].id), {target[0].id}, avoid={a.id for a in add})
    if p is not None:
        probs.append('the target can run before the queue handler is installed: its first records are not forwarded')
    if any(target[0].id in reachable(cfg, [r.id]) for r in rem):
        probs.append('the handler is removed before the target runs')
    # the child produces every record: its root logger is opened fully (DEBUG / NOTSET); which records are handled is the
    # parent's decision at handling time, per logger -- a child level copied from the parent's root level at creation time
    # drops the records of loggers the parent configured more verbosely than its root, and ignores later level changes
    lv = [n for n in walk_deep_func(f.node) if isinstance(n, ast.Call) and method_of(n)[1] == 'setLevel']
    for c_ in lv:
        a_ = c_.args[0] if c_.args else None
        open_ = (dotted(a_) in ('logging.DEBUG', 'logging.NOTSET', 'DEBUG', 'NOTSET')) or (isinstance(a_, ast.Constant) and isinstance(a_.value, int) and a_.value <= 10)
        if not open_:
            probs.append(f'L{c_.lineno}: the child\'s root logger is set to `{norm_text(a_) if a_ is not None else "?"}`, not DEBUG: records below that level are never produced, although the parent\'s per-logger levels (or a level changed after the Process was created) would let them through')
    if not lv:
        probs.append('the child does not open its root logger (setLevel(DEBUG)): only WARNING and above are produced')
    ck.ob('C20-2', f, add[0].ast, not probs, '; '.join(probs) if probs else 'the queue handler is installed on the root logger before the target is called')
    probs = []
    remids = {r.id for r in rem}
    p = g.feasible_path(cfg.normal_succ(add[0].id), {cfg.exit_return, cfg.exit_raise}, avoid=remids)
    if p is not None:
        probs.append('an exit of run() leaves the queue handler installed / the log queue open')
    # the queue is closed after removal (flush + join of the feeder happen at process exit)
    lq = None
    for n in walk_shallow_func(f.node):
        if isinstance(n, ast.Assign) and isinstance(n.value, ast.Call) and method_of(n.value)[1] == 'pop' and n.value.args and isinstance(n.value.args[0], ast.Constant) and n.value.args[0].value == '_logger_queue_':
            lq = n.targets[0].id
    closes = {n.id for n in cfg.nodes if header_expr(n) is not None and any(method_of(c)[1] == 'close' and is_name(method_of(c)[0], lq) for c in calls_in(header_expr(n)))}
    for r in rem:
        if not (closes & reachable(cfg, [r.id])):
            probs.append('the log queue is not closed after the handler was removed')
    # ...and its feeder thread is joined at process exit (the default): cancelling that join lets the child exit with
    # records still buffered in the feeder -- they are lost without any sign
    cj = [n for n in walk_deep_func(f.node) if isinstance(n, ast.Call) and method_of(n)[1] == 'cancel_join_thread']
    if cj:
        probs.append(f'L{cj[0].lineno}: `{norm_text(cj[0])}`: the child no longer waits for its log queue to be flushed when it exits; records still buffered at that moment never reach the parent')
    # records emitted by handle_exception must be queued before the handler goes: removal is in the finally
    if any(r.pending is None for r in rem):
        probs.append('the handler removal is not in the cleanup of the try that runs the target')
    ck.ob('C20-2', f, rem[0].ast, not probs, '; '.join(sorted(set(probs))) if probs else f'every exit after installation removes `{qh}` and closes the queue, in the finally of the try around the target ({len(rem)} cleanup copies)')
    # failures are reported (handle_exception) before the error is sent
    sends_err = [n for n in cfg.nodes if header_expr(n) is not None and any(method_of(c)[1] == 'send' and c.args and isinstance(c.args[0], ast.Call) and (dotted(c.args[0].func) or '').endswith('RemoteException') for c in calls_in(header_expr(n)))]
    he = {n.id for n in cfg.nodes if header_expr(n) is not None and any(dotted(c.func) == 'self.handle_exception' for c in calls_in(header_expr(n)))}
    probs = []
    for sn in sends_err:
        p = path_avoiding(cfg, [cfg.entry], {sn.id}, avoid=he)
        if p is not None:
            probs.append(f'the error sent at L{sn.lineno} is not reported with handle_exception first')
    ck.ob('C20-2', f, (f.node.lineno, 'failure reporting'), not probs and len(sends_err) >= 2, '; '.join(probs) if probs else f'{len(sends_err)} error sends, each preceded by handle_exception (whose output is still forwarded)')
    # ------------------------------------------------------------------ C20-3
    readers = []
    for fn in cls.methods():
        scf = Scope(fn)
        for n in walk_shallow_func(fn.node):
            if isinstance(n, ast.Call) and method_of(n)[1] in ('get', 'get_nowait') and method_of(n)[0] is not None and scf.canon(method_of(n)[0]) == LOGQ:
                readers.append((fn, n))
    # the log queue is unbounded: logging.handlers.QueueHandler enqueues with put_nowait and drops the record on Full
    init = cls.method('__init__')
    qc = [n for n in walk_shallow_func(init.node) if isinstance(n, ast.Assign) and isinstance(n.value, ast.Call) and (dotted(n.value.func) or '').endswith('Queue') and isinstance(n.targets[0], ast.Name) and 'logger' in n.targets[0].id]
    ck.need(qc, f'{init.key}: construction of the log queue not found')
    qcall = qc[0].value
    bound = qcall.args[0] if qcall.args else next((k.value for k in qcall.keywords if k.arg == 'maxsize'), None)
    okq = bound is None or (isinstance(bound, ast.Constant) and isinstance(bound.value, int) and bound.value <= 0)
    ck.ob('C20-3', init, qc[0], okq, 'the log queue is unbounded: the child\'s QueueHandler (put_nowait) never finds it full' if okq else f'the log queue is bounded (`{norm_text(bound)}`): QueueHandler enqueues with put_nowait, so records emitted while the queue is full are silently dropped')
    st = cls.method('start')
    sps = [sp for sp in spawn_sites(st) if sp.target is not None and sp.target.name == '_run_logger']
    if sps:
        dm = kwarg(sps[0].call, 'daemon')
        if dm is None:
            # `t = Thread(...)` followed by `t.daemon = <flag>`
            holder = next((a_ for a_ in walk_shallow_func(st.node) if isinstance(a_, ast.Assign) and a_.value is sps[0].call and len(a_.targets) == 1), None)
            if holder is not None:
                tgt = ast.dump(holder.targets[0]).replace('Store()', 'Load()')
                later = [a_ for a_ in walk_shallow_func(st.node) if isinstance(a_, ast.Assign) and len(a_.targets) == 1 and isinstance(a_.targets[0], ast.Attribute) and a_.targets[0].attr == 'daemon' and ast.dump(a_.targets[0].value) == tgt]
                if later:
                    dm = later[0].value
        okd = not (isinstance(dm, ast.Constant) and dm.value is True)
        ck.ob('C20-3', st, (sps[0].call.lineno, 'logger thread daemon flag'), okd, 'the logger thread is not forced to be a daemon: records still queued when the interpreter exits are handled before the thread ends' if okd else 'the logger thread is always a daemon: it is killed at interpreter shutdown with the tail of the child\'s records still unhandled')
        # for a process that is not a daemon the flag must come out as False -- not None (absent / `x or None`), which
        # makes the thread inherit the flag of whatever thread called start(): decided by evaluating the expression
        from mpsa.absval import UNKNOWN, eval_expr
        import copy as _copy

        if okd:
            e_ = _copy.deepcopy(dm) if dm is not None else ast.Constant(None)
            for c_ in [x for x in ast.walk(e_) if isinstance(x, ast.Call) and dotted(x.func) == 'getattr' and len(x.args) >= 2 and is_name(x.args[0], 'self') and isinstance(x.args[1], ast.Constant) and x.args[1].value == 'daemon']:
                c_.func, c_.args, c_.keywords = ast.Name(id='bool', ctx=ast.Load()), [ast.Attribute(value=ast.Name(id='self', ctx=ast.Load()), attr='daemon', ctx=ast.Load())], []
            v_ = eval_expr(e_, {'self.daemon': False})
            okn = v_ is False or v_ is UNKNOWN
            ck.ob('C20-3', st, (sps[0].call.lineno, 'logger thread daemon flag of a non-daemon process'), okn, 'for a process that is not a daemon the logger thread is explicitly not a daemon' if okn else f'`daemon={norm_text(dm) if dm is not None else None}` gives {v_!r} for a process that is not a daemon: the logger thread inherits the flag of the thread that calls start() — started from a daemon thread it is killed at interpreter exit with the child\'s records unhandled')
    ok = not readers and len(sps) == 1 and not sps[0].in_loop
    bound = None
    if sps:
        bound = {p: dotted(e) for p, e in sps[0].bindings.items()}
        ok = ok and LOGQ in bound.values()
    ck.ob('C20-3', st, sps[0].call if sps else st.node, ok, f'the log queue is read only by the logger thread (bound as {bound}); one logger thread per process object' if ok else f'log queue readers: {[(f.qualname, n.lineno) for f, n in readers]}; logger threads spawned: {len(sps)}')
    scfg = build_cfg(st, ck.repo, None)
    w = lambda n: sum(1 for c in calls_in(header_expr(n)) if method_of(c)[1] == 'start' and dotted(method_of(c)[0]) == 'self._logger_thread_') if header_expr(n) is not None else 0
    res = count_minmax(scfg, scfg.entry, w, back='skip')
    v = res.get(('node', scfg.exit_return))
    ck.ob('C20-3', st, (st.node.lineno, 'logger thread start'), v == (1, 1), 'the logger thread is started exactly once on every path of start()' if v == (1, 1) else f'the logger thread is started {v} times on some path of start()')
    rl = cls.method('_run_logger')
    rcfg = build_cfg(rl, ck.repo, None)
    ck.analysed_func(rl, rcfg)
    handle = [n for n in rcfg.nodes if header_expr(n) is not None and any(method_of(c)[1] == 'handle' for c in calls_in(header_expr(n)))]
    gets = [n for n in rcfg.nodes if isinstance(n.ast, ast.Assign) and isinstance(n.ast.value, ast.Call) and method_of(n.ast.value)[1] == 'get']
    probs = []
    if not handle or not gets:
        probs.append('record handling loop not found')
    else:
        # tests between the get and the handle: exactly the end-marker test and the level gate
        same_pass = lambda e: not e.is_exc and (e.src, e.dst) not in rcfg.back_edges
        between = reachable(rcfg, [gets[0].id], edge_ok=same_pass) & reachable(rcfg, [handle[0].id], forward=False, edge_ok=same_pass)
        tests = [rcfg.nodes[k] for k in between if rcfg.nodes[k].kind == 'test' and not rcfg.nodes[k].extra.get('loop')]
        other = [t for t in tests if not (isinstance(t.ast, ast.Compare) and ((isinstance(t.ast.ops[0], ast.Is) and is_none(t.ast.comparators[0])) or 'levelno' in norm_text(t.ast)))]
        # a marker the parent itself enqueues (module-level constant put on the log queue by a method of the class) is
        # not a record of the child: skipping it filters nothing
        cmod_ = rl.module
        own_markers = set()
        for n_ in cmod_.tree.body:
            if isinstance(n_, ast.Assign) and isinstance(n_.value, ast.Constant) and isinstance(n_.value.value, str) and isinstance(n_.targets[0], ast.Name):
                nm_ = n_.targets[0].id
                if any(isinstance(c_, ast.Call) and method_of(c_)[1] == 'put' and c_.args and is_name(c_.args[0], nm_) for m_ in cls.methods() for c_ in ast.walk(m_.node)):
                    own_markers.add(nm_)
        other = [t for t in other if not (isinstance(t.ast, ast.Compare) and len(t.ast.ops) == 1 and isinstance(t.ast.ops[0], (ast.Eq, ast.Is)) and isinstance(t.ast.comparators[0], ast.Name) and t.ast.comparators[0].id in own_markers)]
        if other:
            probs.append(f'records are also filtered by `{norm_text(other[0].ast)}`')
        lev = [t for t in tests if 'levelno' in norm_text(t.ast)]
        def _gate_ok(c_):
            # `record.levelno >= logger.getEffectiveLevel()` or mirrored `logger.getEffectiveLevel() <= record.levelno`
            if not (isinstance(c_, ast.Compare) and len(c_.ops) == 1):
                return False
            l_, r_, o_ = norm_text(c_.left), norm_text(c_.comparators[0]), c_.ops[0]
            return ('levelno' in l_ and 'getEffectiveLevel' in r_ and isinstance(o_, ast.GtE)) or ('getEffectiveLevel' in l_ and 'levelno' in r_ and isinstance(o_, ast.LtE))

        if lev and not _gate_ok(lev[0].ast):
            probs.append(f'level gate is `{norm_text(lev[0].ast)}`, not `levelno >= effective level`')
        # one get per loop iteration, one handle at most
        rec = gets[0].ast.targets[0].id
        hc = [c for c in calls_in(header_expr(handle[0])) if method_of(c)[1] == 'handle'][0]
        if not (hc.args and is_name(hc.args[0], rec)):
            probs.append('the record handled is not the one just dequeued')
        # the level that gates a record is that of the logger the record names, which is also the logger that handles it
        hrecv = method_of(hc)[0]
        hname = hrecv.id if isinstance(hrecv, ast.Name) else None
        defs = [n for n in rcfg.nodes if isinstance(n.ast, ast.Assign) and hname and any(is_name(t, hname) for t in n.ast.targets)]
        if not (hname and len(defs) == 1 and isinstance(defs[0].ast.value, ast.Call) and (dotted(defs[0].ast.value.func) or '').endswith('getLogger') and defs[0].ast.value.args and norm_text(defs[0].ast.value.args[0]) == f'{rec}.name'):
            probs.append(f'the record is not handled by `logging.getLogger({rec}.name)` (the logger it was emitted on)')
        elif lev:
            gl = [c for c in calls_in(lev[0].ast) if method_of(c)[1] == 'getEffectiveLevel']
            if gl and not is_name(method_of(gl[0])[0], hname):
                probs.append(f'the level gate asks `{norm_text(method_of(gl[0])[0])}`, not `{hname}` — the logger the record names: records are let through or dropped by the level of the wrong logger (e.g. the library\'s own module logger)')
    ck.ob('C20-3', rl, (rl.node.lineno, '_run_logger'), not probs, '; '.join(probs) if probs else 'every dequeued record that is not the end marker is handled, gated only by the logger\'s effective level')
    # ------------------------------------------------------------------ C20-4
    ck.rule('C20-4', 'every process the library starts for user code forwards its log records: the worker processes of ProcessServlet are created with mpservice\'s Process (= SpawnProcess), the process pool defaults to MP_SPAWN_CTX, whose Process class is SpawnProcess (AGREE)', minimum=4)
    from .common import FUTURES, MPINIT, SERVLET

    cmod = ck.repo.module(CONTEXT)
    sctx = cmod.cls('SpawnContext')
    pa = [n for n in sctx.node.body if isinstance(n, ast.Assign) and any(is_name(t, 'Process') for t in n.targets)]
    ok = len(pa) == 1 and is_name(pa[0].value, 'SpawnProcess')
    ck.ob('C20-4', f'{cmod.rel}::SpawnContext', pa[0] if pa else (sctx.node.lineno, 'SpawnContext'), ok, 'SpawnContext.Process is SpawnProcess' if ok else 'SpawnContext does not create SpawnProcess objects: processes made through the context (process pools) do not forward their log records')
    ctxs = [n for n in cmod.tree.body if isinstance(n, ast.Assign) and any(is_name(t, 'MP_SPAWN_CTX') for t in n.targets)]
    ok = len(ctxs) == 1 and isinstance(ctxs[0].value, ast.Call) and is_name(ctxs[0].value.func, 'SpawnContext')
    ck.ob('C20-4', f'{cmod.rel}::MP_SPAWN_CTX', ctxs[0] if ctxs else (1, 'MP_SPAWN_CTX'), ok, 'MP_SPAWN_CTX is a SpawnContext' if ok else 'MP_SPAWN_CTX is not an instance of mpservice\'s SpawnContext')
    imod = ck.repo.module(MPINIT)
    al = [n for n in imod.tree.body if isinstance(n, ast.Assign) and any(is_name(t, 'Process') for t in n.targets)]
    ok = len(al) == 1 and is_name(al[0].value, 'SpawnProcess')
    ck.ob('C20-4', f'{imod.rel}::Process', al[0] if al else (1, 'Process'), ok, 'mpservice.multiprocessing.Process is SpawnProcess' if ok else 'mpservice.multiprocessing.Process is not SpawnProcess')
    smod = ck.repo.module(SERVLET)
    imp = smod.imports.get('Process', '')
    st = smod.cls('ProcessServlet').method('start')
    mk = [n for n in walk_shallow_func(st.node) if isinstance(n, ast.Call) and (dotted(n.func) or '').split('.')[-1] in ('Process', 'SpawnProcess')]
    ok = bool(mk) and all(dotted(n.func) in ('Process', 'SpawnProcess') for n in mk) and imp.startswith('mpservice.multiprocessing') or imp.startswith('..multiprocessing')
    ck.ob('C20-4', st, mk[0] if mk else st.node, ok, f'worker processes are `{imp}` objects' if ok else f'ProcessServlet creates its workers with `{dotted(mk[0].func) if mk else "?"}` imported from `{imp or "?"}`: not mpservice\'s Process — their log records (and tracebacks) never reach the parent')
    fmod = ck.repo.module(FUTURES)
    pinit = fmod.cls('ProcessPoolExecutor').method('__init__')
    dfl = [n for n in walk_shallow_func(pinit.node) if isinstance(n, ast.Assign) and any(is_name(t, 'mp_context') for t in n.targets)]
    sup = [n for n in walk_shallow_func(pinit.node) if isinstance(n, ast.Call) and method_of(n)[1] == '__init__' and any(k.arg == 'mp_context' and is_name(k.value, 'mp_context') for k in n.keywords)]
    ok = len(dfl) == 1 and is_name(dfl[0].value, 'MP_SPAWN_CTX') and bool(sup)
    ck.ob('C20-4', pinit, dfl[0] if dfl else pinit.node, ok, 'the process pool defaults to MP_SPAWN_CTX and hands the context on' if ok else 'the process pool does not default to MP_SPAWN_CTX (or does not pass the context on): its workers are standard processes whose log records are lost')
    # ------------------------------------------------------------------ C20-5
    ck.rule('C20-5', 'nothing the helper threads need at the end has to be created at the end: since Python 3.12 no thread can be started during interpreter shutdown, which is when the end marker is due for a child that outlives the main thread — helper threads are started in start() only, and a multiprocessing queue a helper thread puts to (its first put starts the queue\'s feeder thread) has already been put to in start() (WHO+PRECEDE)')
    st = cls.method('start')
    helpers = []
    for m_ in cls.methods():
        for sp in spawn_sites(m_):
            if sp.kind == 'thread' and sp.target is not None and sp.target not in helpers:
                helpers.append(sp.target)
    probs = []
    for h in helpers:
        late = [sp for sp in spawn_sites(h) if sp.kind == 'thread']
        if late:
            probs.append(f'{h.qualname} L{late[0].call.lineno}: a thread is started from inside a helper thread (when the child\'s result arrives / the child ends): for a child that outlives the main thread this happens during interpreter shutdown and fails with RuntimeError — the logger thread never gets its end marker and the parent process never exits')
    start_puts = {dotted(method_of(c_)[0]) for c_ in ast.walk(st.node) if isinstance(c_, ast.Call) and method_of(c_)[1] == 'put' and method_of(c_)[0] is not None}
    for h in helpers:
        for c_ in ast.walk(h.node):
            if isinstance(c_, ast.Call) and method_of(c_)[1] == 'put' and method_of(c_)[0] is not None:
                qd = dotted(method_of(c_)[0])
                if qd and qd.startswith('self.') and 'queue' in qd.lower() and qd not in start_puts:
                    probs.append(f'{h.qualname} L{c_.lineno}: `{norm_text(c_)}` is the parent\'s first put on that multiprocessing queue (start() makes none): it has to start the queue\'s feeder thread, which fails during interpreter shutdown — a child that outlives the main thread leaves the logger thread without its end marker, the parent never exits')
    ck.rule('C20-8', 'a process pool or any library that asks the package\'s context for "the spawn context" gets the package\'s own context back — and with it the Process class that forwards log records: SpawnContext.get_context returns self for None / "spawn" (the inherited method hands out the standard library\'s spawn context, whose processes forward nothing)')
    sctx = ck.repo.cls(CONTEXT, 'SpawnContext')
    gc8 = next((m for m in sctx.methods() if m.name == 'get_context'), None)
    if gc8 is None:
        ck.ob('C20-8', sctx.methods()[0] if sctx.methods() else cls.method('start'), sctx.node, False, 'SpawnContext does not override get_context: `ctx.get_context("spawn")` (what concurrent.futures and other libraries do with a context) returns the standard spawn context — child processes created through it do not forward their log records')
    else:
        rets8 = [r for r in ast.walk(gc8.node) if isinstance(r, ast.Return) and is_name(r.value, 'self')]
        tests8 = [t for t in ast.walk(gc8.node) if isinstance(t, (ast.If, ast.IfExp)) and ('spawn' in norm_text(t.test) or 'None' in norm_text(t.test))]
        ok8 = bool(rets8) and (bool(tests8) or len([r for r in ast.walk(gc8.node) if isinstance(r, ast.Return)]) == 1)
        ck.ob('C20-8', gc8, rets8[0] if rets8 else gc8.node, ok8, 'get_context() / get_context("spawn") return the package\'s own context' if ok8 else 'get_context does not return self for None / "spawn"')
    ck.rule('C20-7', 'the forwarding handler stays installed until the child has nothing left to say: from the point where run() removes the handler (or closes its end of the log queue) no path leads to the target, to handle_exception — which users override and which logs — or to the delivery of the outcome (pickling it runs user code): records emitted there would be dropped')
    check_forwarding_until_end(ck, 'C20-7', cls)
    ck.rule('C20-6', 'while the child may be alive the log queue is written by the child only: a put by the parent registers an exit finaliser that closes the queue when the parent process exits, before it joins children that are still logging (nested processes hang) (WHO)')
    check_parent_never_puts(ck, 'C20-6', cls, spawn_bind)
    ck.ob('C20-5', st, (st.node.lineno, 'late creations'), not probs, '; '.join(sorted(set(probs))) if probs else f'{len(helpers)} helper threads, all started in start(); no helper thread makes a first put on a multiprocessing queue')


def check_forwarding_until_end(ck: Checker, rid: str, cls):
    f = next(m for m in cls.methods() if m.name == 'run')
    sc = Scope(f)
    cfg = build_cfg(f, ck.repo, make_fallible(sc, iters=set(), calls={'self._target', 'self.handle_exception'}))
    ck.analysed_func(f, cfg)
    ends = []
    for n in cfg.nodes:
        a = header_expr(n)
        for c in (calls_in(a) if a is not None else []):
            if method_of(c)[1] == 'removeHandler':
                ends.append(n)
    if not ends:
        ck.ob(rid, f, f.node, True, 'run() never removes the forwarding handler: it stays for the life of the child')
        return
    probs = []
    for en in ends:
        after = reachable(cfg, [e.dst for e in cfg.succ[en.id]], edge_ok=lambda ed: True)
        for k in sorted(after):
            n = cfg.nodes[k]
            if n.id == en.id:
                continue
            a = header_expr(n)
            for c in (calls_in(a) if a is not None else []):
                d = dotted(c.func) or ''
                r, me = method_of(c)
                if d in ('self._target', 'self.handle_exception') or (me == 'send' and r is not None) or d == 'logging.exception' or d.startswith('logger.'):
                    probs.append(f'L{n.lineno}: `{norm_text(c)[:50]}` can run after the forwarding handler was removed at L{en.lineno}: what it logs never reaches the parent')
    ck.ob(rid, f, ends[0].ast, not probs, '; '.join(sorted(set(probs))[:3]) if probs else f'{len(ends)} removal site(s) of the forwarding handler; nothing that can log runs after them')
