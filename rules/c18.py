"""C18 -- socket and pipe transports deliver intact and to the right request (structural clauses)."""

from __future__ import annotations

import ast

from mpsa.cfg import CFG, Node, calls_in, header_expr, walk_shallow
from mpsa.flow import fmt_path, path_avoiding, reachable
from mpsa.loader import FuncInfo, dotted, norm_text
from mpsa.match import Scope, is_name, is_none, kwarg, method_of, spawn_sites, unwrap_await, walk_deep_func, walk_shallow_func
from mpsa.report import Checker

from . import fifo
from .common import PIPE, SOCKET, build_cfg, make_fallible
from .fresh import fresh_chain


def run(ck: Checker):
    ck.rule('C18-1', 'framing: the writer emits `id SP len SP encoder LF` + payload with len = len() of the very bytes written next; the reader reads to LF, unpacks the same three fields in the same order and reads the payload with readexactly(int(len)) — the payload is never delimiter-scanned (AGREE)')
    ck.rule('C18-2', 'codec tables: encode and decode handle the same encoder names with inverse operations (AGREE)')
    ck.rule('C18-3', 'id routing: the id written with a response is the id read with the request that created the awaited task; the client resolves the future popped with the id parsed from this response; key types agree (FRESH)', minimum=4)
    ck.rule('C18-4', 'no suspension point between the completed send of a request and the recording of its future (both tasks share one event loop)')
    ck.rule('C18-5', 'one writer task per connection (WHO)', minimum=2)
    ck.rule('C18-6', 'per-request errors: a handler exception becomes RemoteException(e) for that request and the responder loop goes on')
    ck.rule('C18-7', 'ordered stream: SocketClient.stream pairs every element with the future obtained for it in the same iteration, through a FIFO with one producer and one consumer (FRESH+WHO)', minimum=3)
    ck.rule('C18-8', 'pipe wiring: the server reads the path the client writes and vice versa; all I/O goes through multiprocessing Connection objects (AGREE)', minimum=2)
    mod = ck.repo.module(SOCKET)
    # ------------------------------------------------------------------ C18-1
    w, r = mod.func('write_record'), mod.func('read_record')
    probs = []
    writes = sorted([n for n in walk_shallow_func(w.node) if isinstance(n, ast.Call) and method_of(n)[1] == 'write'], key=lambda c: (c.lineno, c.col_offset))
    hdr = None
    payload = None
    # what is written, in order: each write argument is taken apart at `+` and local names bound exactly once are
    # resolved, so that `h = f'…'; w.write(h.encode())` and `w.write(f'…'.encode() + data_bytes)` read like the two writes
    once = {}
    for n in walk_shallow_func(w.node):
        if isinstance(n, ast.Assign) and len(n.targets) == 1 and isinstance(n.targets[0], ast.Name):
            once.setdefault(n.targets[0].id, []).append(n.value)

    def res(e):
        seen = 0
        while isinstance(e, ast.Name) and len(once.get(e.id, [])) == 1 and seen < 4 and not (isinstance(once[e.id][0], ast.Call) and dotted(once[e.id][0].func) == 'encode'):
            e = once[e.id][0]
            seen += 1
        return e

    def parts_of(e):
        e = res(e)
        if isinstance(e, ast.BinOp) and isinstance(e.op, ast.Add):
            return parts_of(e.left) + parts_of(e.right)
        return [e]

    seq = [p_ for c in writes for p_ in (parts_of(c.args[0]) if c.args else [None])]
    kinds = []
    for a in seq:
        if isinstance(a, ast.Call) and method_of(a)[1] == 'encode' and isinstance(res(method_of(a)[0]), ast.JoinedStr):
            hdr = res(method_of(a)[0])
            kinds.append('hdr')
        elif isinstance(a, ast.Name):
            payload = a.id
            kinds.append('payload')
        else:
            kinds.append('?')
    if kinds != ['hdr', 'payload']:
        probs.append('write_record does not write exactly a formatted header and then the payload bytes' + (' (the payload is written before the header)' if kinds == ['payload', 'hdr'] else ''))
    else:
        parts = []
        for v in hdr.values:
            if isinstance(v, ast.Constant):
                parts.append(('lit', v.value))
            elif isinstance(v, ast.FormattedValue):
                parts.append(('val', v.value))
        shape = [p[0] for p in parts]
        lits = [p[1] for p in parts if p[0] == 'lit']
        vals = [p[1] for p in parts if p[0] == 'val']
        if shape != ['val', 'lit', 'val', 'lit', 'val', 'lit'] or lits != [' ', ' ', '\n']:
            probs.append(f'header is not `<id> <len> <encoder>\\n` (shape {shape}, separators {lits!r})')
        else:
            params = w.params()
            if not is_name(vals[0], params[1]):
                probs.append('the first header field is not the request id')
            if not (isinstance(vals[1], ast.Call) and dotted(vals[1].func) == 'len' and vals[1].args and is_name(vals[1].args[0], payload)):
                probs.append(f'the length field is `{norm_text(vals[1])}`, not len() of the bytes object `{payload}` that is written next')
            if not (isinstance(vals[2], ast.Name) and vals[2].id == 'encoder'):
                probs.append('the third header field is not the encoder name')
        # the payload written is the encoded data
        enc = [n for n in walk_shallow_func(w.node) if isinstance(n, ast.Assign) and is_name(n.targets[0], payload) and isinstance(n.value, ast.Call) and dotted(n.value.func) == 'encode']
        if not enc:
            probs.append('the payload bytes are not produced by encode(data, encoder)')
    # reader
    ru = [n for n in walk_deep_func(r.node) if isinstance(n, ast.Call) and method_of(n)[1] in ('readuntil', 'readline')]
    rx = [n for n in walk_deep_func(r.node) if isinstance(n, ast.Call) and method_of(n)[1] in ('readexactly', 'read')]
    if len(ru) != 1 or not (ru[0].args and isinstance(ru[0].args[0], ast.Constant) and ru[0].args[0].value == b'\n') and method_of(ru[0])[1] != 'readline':
        probs.append('the header is not read up to the first LF')
    if len(rx) != 1 or method_of(rx[0])[1] != 'readexactly':
        probs.append('the payload is not read with readexactly (a short read would split a record; a delimiter scan would break on payload bytes)')
    unp = [n for n in walk_shallow_func(r.node) if isinstance(n, ast.Assign) and isinstance(n.targets[0], ast.Tuple) and len(n.targets[0].elts) == 3]
    if not unp:
        probs.append('the header is not unpacked into three fields')
    else:
        names = [e.id for e in unp[0].targets[0].elts]
        v = unp[0].value
        if not (isinstance(v, ast.Call) and method_of(v)[1] == 'split' and not v.args):
            probs.append('the header is not split on whitespace')
        if rx and not (rx[0].args and isinstance(rx[0].args[0], ast.Call) and dotted(rx[0].args[0].func) == 'int' and is_name(rx[0].args[0].args[0], names[1])):
            probs.append(f'the payload length read is not int(<second header field `{names[1]}`>)')
        ret = [n for n in walk_shallow_func(r.node) if isinstance(n, ast.Return)]
        if not (ret and isinstance(ret[0].value, ast.Tuple) and is_name(ret[0].value.elts[0], names[0]) and isinstance(ret[0].value.elts[1], ast.Call) and dotted(ret[0].value.elts[1].func) == 'decode' and is_name(ret[0].value.elts[1].args[1], names[2])):
            probs.append('read_record does not return (first field, decode(payload, third field))')
    # the poll timeout may only cover the read that STARTS a record: callers treat TimeoutError as "no record yet"
    # and read a header again, so a timeout after the header was consumed would parse payload bytes as a header
    reads = [n for n in walk_deep_func(r.node) if isinstance(n, ast.Call) and method_of(n)[1] in ('readuntil', 'readline', 'readexactly', 'read')]
    wf = [n for n in walk_deep_func(r.node) if isinstance(n, ast.Call) and (dotted(n.func) or '').endswith('wait_for')]
    for wcall in wf:
        inner = [x for x in ast.walk(wcall) if x in reads]
        if any(method_of(x)[1] in ('readexactly', 'read') for x in inner) or (reads and inner and inner[0] is not min(reads, key=lambda c: (c.lineno, c.col_offset))):
            probs.append('a timeout can expire after the header of a record has been consumed (it wraps the payload read): the caller then reads the payload bytes as a header and the connection loses framing for every request in flight')
    ck.ob('C18-1', w, (w.node.lineno, 'write_record/read_record'), not probs, '; '.join(probs) if probs else 'header `<id> <len(bytes)> <encoder>\\n` + the same bytes; reader: to LF, split into the same three fields, readexactly(int(len)), decode with the transmitted encoder')
    # ------------------------------------------------------------------ C18-2
    enc, dec = mod.func('encode'), mod.func('decode')

    def canon(d):
        head, _, rest = (d or '').partition('.')
        full = mod.imports.get(head)
        return (full + ('.' + rest if rest else '')) if full else (d or '')

    UTF8 = {'utf8', 'utf-8', 'utf_8', 'utf', 'u8'}

    def codec(e, data):
        """(family, direction) of a return expression over the payload parameter"""
        if is_name(e, data):
            return ('raw', '=')
        if isinstance(e, ast.Call) and e.args and is_name(e.args[0], data) and not e.keywords:
            d = canon(dotted(e.func))
            for fam in ('pickle', 'json', 'orjson', 'marshal'):
                if d == f'{fam}.dumps':
                    return (fam, 'enc')
                if d == f'{fam}.loads':
                    return (fam, 'dec')
        if isinstance(e, ast.Call) and isinstance(e.func, ast.Attribute) and is_name(e.func.value, data) and e.func.attr in ('encode', 'decode') and len(e.args) <= 1 and not e.keywords:
            name = e.args[0].value.lower() if e.args and isinstance(e.args[0], ast.Constant) and isinstance(e.args[0].value, str) else ('utf8' if not e.args else None)
            if name is not None:
                return ('text:' + ('utf8' if name in UTF8 else name), 'enc' if e.func.attr == 'encode' else 'dec')
        return ('?' + norm_text(e), '?')

    def table(f):
        out = {}
        ps = f.params()
        data, sel = (ps[0], ps[1]) if len(ps) >= 2 else ('data', 'encoder')
        for n in walk_shallow_func(f.node):
            if isinstance(n, ast.If) and isinstance(n.test, ast.Compare) and is_name(n.test.left, sel) and isinstance(n.test.ops[0], ast.Eq) and isinstance(n.test.comparators[0], ast.Constant):
                rets = [b for b in n.body if isinstance(b, ast.Return)]
                if rets:
                    out[n.test.comparators[0].value] = (codec(rets[0].value, data), norm_text(rets[0].value))
        # fall-through return
        last = [n for n in f.node.body if isinstance(n, ast.Return)]
        if last:
            out['<else>'] = (codec(last[-1].value, data), norm_text(last[-1].value))
        return out

    te, td = table(enc), table(dec)
    probs = []
    if set(te) != set(td):
        probs.append(f'encode handles {sorted(te)} but decode handles {sorted(td)}')
    for k in te:
        if k in td:
            (fe, de), (fd, dd) = te[k][0], td[k][0]
            if not (fe == fd and (de, dd) in (('enc', 'dec'), ('=', '='))):
                probs.append(f'for encoder {k!r}: `{te[k][1]}` is not undone by `{td[k][1]}`')
    ck.ob('C18-2', enc, (enc.node.lineno, 'encode/decode'), not probs, '; '.join(probs) if probs else f'encoders {sorted(k for k in te if k != "<else>")} + raw bytes, each decoded by the inverse operation')
    # ------------------------------------------------------------------ C18-3 server side
    for qual, what in (('SocketServer._handle_connection._keep_receiving', 'request → task'), ('SocketServer._handle_connection._keep_responding', 'task → response')):
        f = mod.func(qual)
        sc = Scope(f)
        cfg = build_cfg(f, ck.repo, None)
        ck.analysed_func(f, cfg)
        n3 = 0
        for n in cfg.nodes:
            a = header_expr(n)
            if a is None or not n.loops:
                continue
            for c in calls_in(a):
                r_, me = method_of(c)
                names = None
                if me == 'put' and c.args and isinstance(c.args[0], ast.Tuple):
                    names = sorted({x.id for e in c.args[0].elts for x in walk_shallow(e) if isinstance(x, ast.Name)})
                    what2 = f'`{norm_text(c.args[0])}` queued'
                elif dotted(c.func) == 'write_record':
                    names = sorted({x.id for e in c.args[1:3] for x in walk_shallow(e) if isinstance(x, ast.Name)})
                    what2 = f'response `{norm_text(c.args[1])}, {norm_text(c.args[2])}` written'
                if names is None:
                    continue
                n3 += 1
                probs = []
                for nm in names:
                    probs += fresh_chain(cfg, n, nm, sources=('read_record', 'asyncio.wait_for', 'self.app.handle_request', 'asyncio.create_task', 'loop.create_future'), params=set(f.params()))
                ck.ob('C18-3', f, c, not probs, '; '.join(sorted(set(probs))) if probs else f'{what}: {what2} with id and payload both obtained in this iteration')
        ck.need(n3 >= 1, f'{f.key}: no routed message found')
    # the task queued with an id is created from the data read with that id
    f = mod.func('SocketServer._handle_connection._keep_receiving')
    tasks = [n for n in walk_shallow_func(f.node) if isinstance(n, ast.Assign) and isinstance(n.value, ast.Call) and (dotted(n.value.func) or '').endswith('create_task')]
    hr = [n for n in walk_shallow_func(f.node) if isinstance(n, ast.Assign) and isinstance(n.value, ast.Call) and (dotted(n.value.func) or '').endswith('handle_request')]
    ok = bool(tasks) and bool(hr) and is_name(tasks[0].value.args[0], hr[0].targets[0].id) and all(isinstance(a, ast.Name) for a in hr[0].value.args)
    if tasks and not ok and tasks[0].value.args and isinstance(tasks[0].value.args[0], ast.Call) and (dotted(tasks[0].value.args[0].func) or '').endswith('handle_request'):
        # the coroutine is created in place: create_task(handle_request(path, data))
        ok = all(isinstance(a, ast.Name) for a in tasks[0].value.args[0].args)
    ck.ob('C18-3', f, tasks[0] if tasks else f.node, ok, 'the task is created from handle_request(path, data) of the record just read' if ok else 'the queued task is not built from the record just read')
    # client side
    f = mod.func('SocketClient._open_connections._keep_receiving')
    cfg = build_cfg(f, ck.repo, None)
    ck.analysed_func(f, cfg)
    pops = [n for n in cfg.nodes if isinstance(n.ast, ast.Assign) and isinstance(n.ast.value, ast.Call) and method_of(n.ast.value)[1] == 'pop']
    ck.need(pops, f'{f.key}: no pop of the active-request table')
    fut = pops[0].ast.targets[0].id
    key = pops[0].ast.value.args[0]
    probs = fresh_chain(cfg, pops[0], key.id, sources=('read_record',), params=set()) if isinstance(key, ast.Name) else ['the table is not popped with a local id']
    res = [n for n in cfg.nodes if header_expr(n) is not None and any(method_of(c)[1] in ('set_result', 'set_exception') for c in calls_in(header_expr(n)))]
    for n in res:
        c = [c for c in calls_in(header_expr(n)) if method_of(c)[1] in ('set_result', 'set_exception')][0]
        if not is_name(method_of(c)[0], fut):
            probs.append(f'L{n.lineno}: resolves `{norm_text(method_of(c)[0])}`, not the future popped for this response')
        for nm in {x.id for x in walk_shallow(c.args[0]) if isinstance(x, ast.Name)}:
            probs += fresh_chain(cfg, n, nm, sources=('read_record',), params=set())
    # key types: id(fut) (int) on send, int(req_id) on receive
    snd = mod.func('SocketClient._open_connections._keep_sending')
    mk = [n for n in walk_shallow_func(snd.node) if isinstance(n, ast.Assign) and is_name(n.targets[0], 'req_id')]
    conv = [n for n in walk_shallow_func(f.node) if isinstance(n, ast.Assign) and isinstance(n.value, ast.Call) and dotted(n.value.func) == 'int']
    if not (mk and isinstance(mk[0].value, ast.Call) and dotted(mk[0].value.func) in ('id', 'next')):
        probs.append('the request id is not an int minted per request')
    if not conv:
        probs.append('the id parsed from the response header (a str) is not converted back to int before the lookup')
    ck.ob('C18-3', f, pops[0].ast, not probs and len(res) >= 2, '; '.join(sorted(set(probs))) if probs else f'`{fut} = active.pop(<id of this response>)`, resolved with this response\'s payload; int key on both sides')
    # ------------------------------------------------------------------ C18-4
    cfg = build_cfg(snd, ck.repo, None)
    ck.analysed_func(snd, cfg)
    wr = [n for n in cfg.nodes if header_expr(n) is not None and any(dotted(c.func) == 'write_record' for c in calls_in(header_expr(n)))]
    st = [n for n in cfg.nodes if isinstance(n.ast, ast.Assign) and isinstance(n.ast.targets[0], ast.Subscript) and Scope(snd).canon(n.ast.targets[0].value) == 'self._active_requests']
    ck.need(wr and st, f'{snd.key}: send / record not found')
    probs = []
    # nodes strictly between the send and the store
    between = (reachable(cfg, [e.dst for e in cfg.normal_succ(wr[0].id)], avoid={wr[0].id, st[0].id}) & reachable(cfg, [st[0].id], forward=False, avoid={wr[0].id})) - {st[0].id, wr[0].id}
    if st[0].id in reachable(cfg, [e.dst for e in cfg.normal_succ(wr[0].id)], avoid={wr[0].id}):
        susp = [cfg.nodes[k] for k in between if header_expr(cfg.nodes[k]) is not None and any(isinstance(x, (ast.Await, ast.Yield, ast.YieldFrom)) for x in walk_shallow(header_expr(cfg.nodes[k])))]
        if susp:
            probs.append(f'a suspension point (L{susp[0].lineno}) lies between the completed send and `active[req_id] = fut`: the receiving task can run in between, get the response and find no entry (KeyError kills the receiver)')
        # the store uses the id that was sent and the future that was dequeued
        sent_id = [c for c in calls_in(header_expr(wr[0])) if dotted(c.func) == 'write_record'][0].args[1]
        if not (is_name(st[0].ast.targets[0].slice, getattr(sent_id, 'id', None))):
            probs.append('the future is recorded under a different id than the one sent')
    else:
        # store before send is fine as well
        if wr[0].id not in reachable(cfg, [st[0].id]):
            probs.append('send and record are not on one path')
    ck.ob('C18-4', snd, st[0].ast, not probs, '; '.join(probs) if probs else 'no await between the completed send and the recording of the future under the id that was sent')
    # ------------------------------------------------------------------ C18-5
    for outer_q, writer_fn in (('SocketServer._handle_connection', '_keep_responding'), ('SocketClient._open_connections._open_connection', '_keep_sending')):
        outer = mod.func(outer_q)
        users = []
        scope_funcs = [g for g in mod.functions.values() if g.qualname.startswith(outer.qualname.rsplit('.', 1)[0] if outer_q.endswith('_open_connection') else outer.qualname)]
        for g in scope_funcs:
            for n in walk_shallow_func(g.node):
                if isinstance(n, ast.Call) and dotted(n.func) == 'write_record':
                    users.append(g)
        sps = [sp for sp in spawn_sites(outer) if sp.target is not None and sp.target.name == writer_fn]
        ok = users and all(u.name == writer_fn for u in users) and len(sps) == 1 and not sps[0].in_loop
        ck.ob('C18-5', outer, sps[0].call if sps else outer.node, ok, f'only `{writer_fn}` writes records on the connection and exactly one such task is created per connection' if ok else f'writers of the connection: {sorted({u.qualname for u in users})}; `{writer_fn}` tasks created: {len(sps)}')
    # ------------------------------------------------------------------ C18-6
    f = mod.func('SocketServer._handle_connection._keep_responding')
    sc = Scope(f)

    def extra(node, a):
        return {'Exception'} if any(isinstance(x, ast.Await) and isinstance(x.value, ast.Name) for x in walk_shallow(a)) else set()

    cfg = build_cfg(f, ck.repo, make_fallible(sc, iters=set(), calls=set(), extra=extra))
    aw = [n for n in cfg.nodes if isinstance(n.ast, ast.Assign) and isinstance(n.ast.value, ast.Await) and isinstance(n.ast.value.value, ast.Name)]
    ck.need(aw, f'{f.key}: awaited task not found')
    probs = []
    for e in cfg.succ[aw[0].id]:
        if e.kind == 'exc':
            d = cfg.nodes[e.dst]
            if d.kind != 'except' or not d.ast.name or not aw[0].loops or aw[0].loops[0] not in d.loops:
                probs.append('an exception of the handler leaves the responder loop: every later response on this connection is lost')
            else:
                wraps = [k for k in cfg.nodes if isinstance(k.ast, ast.Assign) and isinstance(k.ast.value, ast.Call) and (dotted(k.ast.value.func) or '').endswith('RemoteException') and k.ast.value.args and is_name(k.ast.value.args[0], d.ast.name) and is_name(k.ast.targets[0], aw[0].ast.targets[0].id)]
                if not wraps:
                    probs.append('the caught exception is not turned into RemoteException(e) as this request\'s response')
    # the dispatch (route lookup, argument binding) must run inside the request's task, not in the receive loop:
    # handle_request has to be a coroutine function (calling it cannot raise) or the call must be contained
    hrf = mod.func('SocketApplication.handle_request')
    krf = mod.func('SocketServer._handle_connection._keep_receiving')
    hcalls = [n for n in walk_shallow_func(krf.node) if isinstance(n, ast.Call) and (dotted(n.func) or '').endswith('handle_request')]
    if not hcalls:
        probs.append('the receive loop does not dispatch through app.handle_request')
    elif not hrf.is_async:
        contained = any(isinstance(t_, ast.Try) and any(x is hcalls[0] for b in t_.body for x in ast.walk(b)) and any(h.type is None or 'Exception' in norm_text(h.type) for h in t_.handlers) for t_ in walk_shallow_func(krf.node))
        if not contained:
            probs.append('handle_request is a plain function called in the receive loop: a dispatch error (unknown route, wrong arity) is raised there instead of inside the request\'s task — the connection is dropped, the offending request never gets its exception and the other requests in flight lose their responses')
    ck.ob('C18-6', f, aw[0].ast, not probs, '; '.join(probs) if probs else 'dispatch runs inside the request\'s task; a failing handler yields RemoteException(e) as the response of that request; the loop goes on')
    # ------------------------------------------------------------------ C18-7
    outer = mod.func('SocketClient.stream')
    m = fifo.discover(ck.repo, outer, func_name='self._enqueue', in_name='data')
    m.func_param = 'en'
    m.pre_param = None
    m.in_param = 'data'
    m.elem_index = 1
    fifo.check_pair_freshness(ck, 'C18-7', m)
    fifo.check_spsc(ck, 'C18-7', m)
    fifo.check_fifo_class(ck, 'C18-7', m)
    # consumer unpack order agrees with the producer tuple
    prod_t = [n for n in walk_shallow_func(m.feeder.node) if isinstance(n, ast.Tuple) and len(n.elts) == 3 and isinstance(n.ctx, ast.Load)]
    cons_t = [n for n in walk_shallow_func(outer.node) if isinstance(n, ast.Assign) and isinstance(n.targets[0], ast.Tuple) and len(n.targets[0].elts) == 3]
    ok = bool(prod_t) and bool(cons_t)
    if ok:
        pn = [norm_text(e) for e in prod_t[0].elts]
        cn = [e.id for e in cons_t[0].targets[0].elts]
        res_calls = [n for n in walk_shallow_func(outer.node) if isinstance(n, ast.Call) and method_of(n)[1] == 'result']
        ok = len(pn) == len(cn) and bool(res_calls) and is_name(method_of(res_calls[0])[0], cn[1])
    ck.ob('C18-7', outer, cons_t[0] if cons_t else outer.node, ok, f'consumer unpacks {cn} in the producer\'s order {pn} and waits on the future component' if ok else 'consumer unpack does not agree with the producer tuple / does not wait on the future component')
    # ------------------------------------------------------------------ C18-14
    ck.rule('C18-14', 'a response goes back on the connection its request came in on: the queue that hands a connection\'s requests to the task that writes responses is created by that connection\'s handler (one per connection), never shared through the server object — each connection has its own responder writing to its own socket, so a shared queue lets a responder pick up another connection\'s request (ORIGIN)', minimum=1)
    hc = mod.func('SocketServer._handle_connection')
    kr = mod.func('SocketServer._handle_connection._keep_receiving')
    kp = mod.func('SocketServer._handle_connection._keep_responding')
    putq = {method_of(c)[0].id for c in ast.walk(kr.node) if isinstance(c, ast.Call) and method_of(c)[1] in ('put', 'put_nowait') and isinstance(method_of(c)[0], ast.Name)}
    getq = {method_of(c)[0].id for c in ast.walk(kp.node) if isinstance(c, ast.Call) and method_of(c)[1] in ('get', 'get_nowait') and isinstance(method_of(c)[0], ast.Name)}
    shared = sorted(putq & getq)
    ck.need(shared, f'{hc.key}: the queue between the receiving and the responding task is not a local name')
    qn = shared[0]
    defs_ = [n for n in walk_shallow_func(hc.node) if isinstance(n, ast.Assign) and any(is_name(t, qn) for t in n.targets)]
    okq = len(defs_) == 1 and isinstance(defs_[0].value, ast.Call) and (dotted(defs_[0].value.func) or '').split('.')[-1] in ('Queue', 'SimpleQueue', 'LifoQueue', 'SingleLane')
    ck.ob('C18-14', hc, defs_[0] if defs_ else hc.node, okq, f'`{qn}` is created by the handler of each connection' if okq else f'`{qn}` is `{norm_text(defs_[0].value)[:50] if defs_ else "not bound in the handler"}`, not a queue made by this connection\'s handler: with two connections the responder of one can dequeue the other\'s request and write the response to the wrong socket — the requester never gets its answer and the other client\'s receiver fails on the unknown id')
    # ------------------------------------------------------------------ C18-17
    ck.rule('C18-17', 'a payload of any size reaches the other side however slowly it reads: write_record waits for `drain()` as long as it takes — back-pressure (the peer has `backlog` requests in progress and has stopped reading) is not a failure; a clock on the drain raises in the sender task, which dies with the request unregistered')
    wr = mod.func('write_record')
    drains = [a_ for a_ in ast.walk(wr.node) if isinstance(a_, ast.Call) and method_of(a_)[1] == 'drain']
    direct = [a_ for a_ in ast.walk(wr.node) if isinstance(a_, ast.Await) and isinstance(a_.value, ast.Call) and method_of(a_.value)[1] == 'drain']
    clocks = [a_ for a_ in ast.walk(wr.node) if (isinstance(a_, ast.Call) and (dotted(a_.func) or '').split('.')[-1] in ('wait_for', 'timeout', 'timeout_at', 'wait'))]
    ok17 = bool(drains) and len(direct) == len(drains) and not clocks
    ck.ob('C18-17', wr, drains[0] if drains else wr.node, ok17, 'the record is flushed with a plain `await writer.drain()`' if ok17 else (f'`{norm_text(clocks[0])[:60]}` puts a clock on the flush of the record: a large request written while the peer is busy raises TimeoutError in the sender task — the request is never registered, its caller never gets an answer' if clocks else 'the record is not flushed with `await writer.drain()`'))
    # ------------------------------------------------------------------ C18-15
    ck.rule('C18-15', 'every request read from a connection gets its response, also the ones queued behind a shutdown request: the responding task of a connection leaves its loop (normally) only from the handler of the timed get that found the request queue idle — not through the loop test, not elsewhere')
    probs15 = []
    loops15 = [w for w in walk_shallow_func(kp.node) if isinstance(w, ast.While) and any(isinstance(c, ast.Call) and method_of(c)[1] in ('get', 'get_nowait') and is_name(method_of(c)[0], qn) for c in ast.walk(w))]
    ck.need(loops15, f'{kp.key}: responding loop not found')
    lp15 = loops15[0]
    if not (isinstance(lp15.test, ast.Constant) and lp15.test.value in (True, 1)):
        probs15.append(f'L{lp15.lineno}: the loop is left through its test `{norm_text(lp15.test)}`, whatever the request queue still holds: requests queued behind the one being answered never get a response')
    idle_handlers = []
    for tr in [t for t in ast.walk(lp15) if isinstance(t, ast.Try)]:
        if any(isinstance(c, ast.Call) and method_of(c)[1] in ('get', 'get_nowait') and is_name(method_of(c)[0], qn) for b in tr.body for c in ast.walk(b)):
            idle_handlers += [h for h in tr.handlers if h.type is not None and any((dotted(e) or '').split('.')[-1] in ('TimeoutError', 'QueueEmpty', 'Empty') for e in (h.type.elts if isinstance(h.type, ast.Tuple) else [h.type]))]
    inside = {id(x) for h in idle_handlers for x in ast.walk(h)}
    for x in ast.walk(lp15):
        if isinstance(x, (ast.Return, ast.Break)) and id(x) not in inside:
            # a break of an inner loop is not an exit of this one
            inner = [w for w in ast.walk(lp15) if isinstance(w, (ast.While, ast.For, ast.AsyncFor)) and w is not lp15 and any(y is x for y in ast.walk(w))]
            if isinstance(x, ast.Break) and inner:
                continue
            probs15.append(f'L{x.lineno}: `{norm_text(x)}` leaves the responding loop outside the handler of the idle request queue')
    ck.ob('C18-15', kp, lp15, not probs15, '; '.join(probs15) if probs15 else f'the responding loop is left only from the handler of the timed get on `{qn}` ({len(idle_handlers)} handler(s))')
    # ------------------------------------------------------------------ C18-16
    ck.rule('C18-16', 'a response that arrives in time is delivered: the clock of `response_timeout` starts when the request has been handed to a connection — the time stamp queued with the future is taken after the enqueue call of the same iteration, so that waiting for room in the client\'s pending-requests queue (back-pressure) does not count against the response')
    enq = mod.func('SocketClient.stream._enqueue')
    cfg16 = build_cfg(enq, ck.repo, make_fallible(Scope(enq), iters=set(), calls=set()))
    ck.analysed_func(enq, cfg16)
    from mpsa.flow import reaching_defs as _rd16

    sc16 = Scope(enq)
    calls16 = [n for n in cfg16.nodes if isinstance(n.ast, ast.Assign) and isinstance(n.ast.value, ast.Call) and (sc16.canon(n.ast.value.func) or dotted(n.ast.value.func) or '').endswith('_enqueue') and n.loops]
    puts16 = []
    for n in cfg16.nodes:
        a = header_expr(n)
        for c in (calls_in(a) if a is not None else []):
            tup = next((x for x in list(c.args) if isinstance(x, ast.Tuple) and len(x.elts) == 3), None)
            if tup is not None and n.loops and isinstance(tup.elts[2], ast.Name):
                puts16.append((n, tup.elts[2].id))
    ck.need(calls16 and puts16, f'{enq.key}: enqueue call / (x, future, time stamp) hand-over not found')
    probs16 = []
    loop16 = cfg16.nodes[calls16[0].loops[-1]] if calls16[0].loops else None
    for pn, tv in puts16:
        for di in _rd16(cfg16, tv, start=cfg16.entry).get(pn.id, frozenset()):
            dn = cfg16.nodes[di]
            # is the time stamp taken on a path of this iteration that has not passed the enqueue call yet?
            pth = path_avoiding(cfg16, [e for e in cfg16.succ[loop16.id] if e.kind == 'iter'] if loop16 is not None else [cfg16.entry], {di}, avoid={c_.id for c_ in calls16})
            if pth is not None:
                probs16.append(f'L{dn.lineno}: `{norm_text(dn.ast)[:40]}` is taken before the request is enqueued (L{calls16[0].lineno}): the wait for room in the pending-requests queue counts against `response_timeout`, and a response that arrives promptly is reported as TimeoutError')
    ck.ob('C18-16', enq, puts16[0][0].ast, not probs16, '; '.join(sorted(set(probs16))) if probs16 else 'the time stamp handed over with the future is taken after the enqueue call of the iteration')
    # ------------------------------------------------------------------ C18-13
    ck.rule('C18-13', 'a response that has arrived is delivered whatever the clock says: in the consumer of SocketClient.stream and in SocketClient.request a timeout is raised only by the wait on the future itself (`fut.result(timeout=…)`, which returns a result that is already there even for a timeout <= 0), never by comparing the clock (EXITS)', minimum=1)
    for qn in ('SocketClient.stream', 'SocketClient.request'):
        g = mod.func(qn)
        bad = []
        for n in walk_shallow_func(g.node):
            if isinstance(n, ast.Raise) and n.exc is not None:
                t = n.exc.func if isinstance(n.exc, ast.Call) else n.exc
                if (dotted(t) or '').split('.')[-1] in ('TimeoutError', 'Timeout', 'CancelledError'):
                    bad.append(n)
        waits = [n for n in walk_shallow_func(g.node) if isinstance(n, ast.Call) and method_of(n)[1] == 'result' and (kwarg(n, 'timeout') is not None or n.args)]
        if not waits and qn.endswith('request'):
            continue
        ck.ob('C18-13', g, bad[0] if bad else (waits[0] if waits else g.node), bool(waits) and not bad, f'the only source of a response timeout in {g.name} is `{norm_text(waits[0])[:60]}`' if waits and not bad else (f'L{bad[0].lineno}: `{norm_text(bad[0])[:60]}` raises a timeout by the clock alone: a response that arrived in time but is collected late (a consumer lagging behind the enqueuer by more than response_timeout) is replaced by TimeoutError' if bad else f'{g.name} does not wait on the future with the response timeout'))
    # ------------------------------------------------------------------ C18-12
    ck.rule('C18-12', 'the codec named by the caller is the codec used: write_record does not re-bind its `encoder` parameter (a choice by the type of the payload breaks values that are not exactly that type: str with lone surrogates, str / bytes subclasses); encode() and the header are fed by that one name (AGREE)', minimum=1)
    wr = mod.func('write_record')
    enc_p = [p_ for p_ in wr.params() if p_ == 'encoder']
    probs = []
    if not enc_p:
        probs.append('write_record has no `encoder` parameter')
    else:
        from mpsa.flow import assigned_names as _an

        reb = [n for n in walk_shallow_func(wr.node) if isinstance(n, (ast.Assign, ast.AugAssign, ast.AnnAssign, ast.NamedExpr)) and any(isinstance(x, ast.Name) and x.id == 'encoder' and isinstance(x.ctx, ast.Store) for x in ast.walk(n))]
        if reb:
            probs.append(f'L{reb[0].lineno}: `{norm_text(reb[0])[:50]}` re-binds the codec chosen by the caller')
        enc_calls = [n for n in walk_shallow_func(wr.node) if isinstance(n, ast.Call) and dotted(n.func) == 'encode']
        if not (enc_calls and len(enc_calls[0].args) >= 2 and is_name(enc_calls[0].args[1], 'encoder')):
            probs.append('the payload is not encoded with the `encoder` parameter')
        hdr = [n for n in walk_shallow_func(wr.node) if isinstance(n, ast.JoinedStr) and any(isinstance(v, ast.FormattedValue) and is_name(v.value, 'encoder') for v in n.values)]
        if not hdr:
            probs.append('the record header does not announce the `encoder` parameter')
    ck.ob('C18-12', wr, wr.node, not probs, '; '.join(probs) if probs else 'payload encoded with, and header announcing, the caller\'s `encoder`, which is never re-bound')
    # ------------------------------------------------------------------ C18-11
    # the client's pending-request queue and the stream hand-off are SingleLane objects, fed by any number of requester threads
    from . import c01, c09
    from .common import QUEUES

    with ck.as_rule('C18-11', 'the queues under the socket client cannot lose an element or a wake-up with any number of requester threads: the SingleLane obligations (C01-4 incl. one unconditional notify per operation, C09-6)', minimum=3):
        c01.check_singlelane(ck, 'C01-4')
        c09.check_wait_discipline(ck, 'C09-6', modules=(QUEUES,), minimum=2)
    # ------------------------------------------------------------------ C18-10
    ck.rule('C18-10', 'connection / enqueue / response timeouts of the socket client and the poll timeout of read_record reach their uses as given: re-bound only under `is None`, never replaced through truthiness (GUARD)', minimum=4)
    from .common import check_timeout_passthrough

    check_timeout_passthrough(ck, 'C18-10', [f_ for f_ in mod.functions.values() if f_.qualname in ('read_record', 'open_tcp_connection', 'open_unix_connection', 'SocketClient.__init__', 'SocketClient._enqueue', 'SocketClient.request', 'SocketClient.stream')])
    # ------------------------------------------------------------------ C18-9
    ck.rule('C18-9', 'request ids stay unique while in flight: the client uses the address of the future as id, which is unique only as long as the in-flight table pins the future — the table entry is therefore removed only by the receiver when the response arrives (WHO)')
    cl = mod.cls('SocketClient')
    id_sites = [n for f_ in mod.functions.values() if f_.qualname.startswith('SocketClient.') for n in walk_shallow_func(f_.node) if isinstance(n, ast.Assign) and isinstance(n.value, ast.Call) and dotted(n.value.func) == 'id']
    dels = []
    for f_ in mod.functions.values():
        if not f_.qualname.startswith('SocketClient.'):
            continue
        fsc = Scope(f_)
        for n in walk_shallow_func(f_.node):
            if isinstance(n, ast.Call) and method_of(n)[1] in ('pop', 'popitem', 'clear') and method_of(n)[0] is not None and (fsc.canon(method_of(n)[0]) or '') == 'self._active_requests':
                dels.append((f_, n))
            if isinstance(n, ast.Delete) and any(isinstance(t, ast.Subscript) and (fsc.canon(t.value) or '') == 'self._active_requests' for t in n.targets):
                dels.append((f_, n))
    outside = [(f_, n) for f_, n in dels if not f_.qualname.endswith('._keep_receiving')]
    ok = bool(dels) and not outside
    if id_sites or outside or not dels:
        ck.ob('C18-9', cl.method('_open_connections'), (cl.node.lineno, 'in-flight table'), ok, 'entries of the in-flight table are removed only by the receiving task, on arrival of the response: the address used as request id cannot be reused while a response may still come' if ok else ('no removal from the in-flight table found' if not dels else 'the in-flight table is also emptied in ' + ', '.join(f'{f_.qualname} L{n.lineno}' for f_, n in outside) + ': the future of an abandoned request can be freed and its address — the request id — reused by a later request, which then receives the late response of the abandoned one (and loses its own)'))
    # ------------------------------------------------------------------ C18-8
    pm = ck.repo.module(PIPE)

    def suffixes(cname):
        init = pm.cls(cname).method('__init__')
        call = [n for n in walk_shallow_func(init.node) if isinstance(n, ast.Call) and method_of(n)[1] == '__init__']
        if not call or len(call[0].args) != 2:
            return None
        out = []
        for a in call[0].args:
            if isinstance(a, ast.BinOp) and isinstance(a.op, ast.Add) and is_name(a.left, 'path') and isinstance(a.right, ast.Constant):
                out.append(a.right.value)
            else:
                return None
        return out

    s_, c_ = suffixes('Server'), suffixes('Client')
    ok = s_ is not None and c_ is not None and s_[0] == c_[1] and s_[1] == c_[0] and s_[0] != s_[1]
    ck.ob('C18-8', pm.cls('Server').method('__init__'), (pm.cls('Server').node.lineno, 'pipe paths'), ok, f'server reads `{s_[0]}` / writes `{s_[1]}`; client reads `{c_[0]}` / writes `{c_[1]}`' if ok else f'server (read, write) = {s_}, client (read, write) = {c_}: the two ends are not cross-wired')
    base = pm.cls('_Pipe')
    init = base.method('__init__')
    params = init.params()
    probs = []
    st = {dotted(n.targets[0]): n.value for n in walk_shallow_func(init.node) if isinstance(n, ast.Assign)}
    if not ('self._rpath' in st and params[1] in norm_text(st['self._rpath']) and 'self._wpath' in st and params[2] in norm_text(st['self._wpath'])):
        probs.append('read/write paths are not stored from the (rpath, wpath) parameters in that order')
    opens = [n for n in walk_deep_func(base.node) if isinstance(n, ast.Call) and dotted(n.func) == 'os.open']
    for o in opens:
        # Connection.send/recv assume a blocking descriptor: on a non-blocking FIFO a record larger than the free pipe
        # buffer is written partly and then fails (BlockingIOError), which loses the object and garbles what follows
        flags = {dotted(x) for a_ in o.args[1:] + [k.value for k in o.keywords] for x in ast.walk(a_) if isinstance(x, ast.Attribute)}
        nb = sorted(f_ for f_ in flags if f_ and f_.split('.')[-1] in ('O_NONBLOCK', 'O_NDELAY'))
        if nb:
            probs.append(f'L{o.lineno}: the pipe is opened with {nb[0]}: a send that gets ahead of the reader by more than the pipe buffer writes part of a record and raises — the object is lost and the stream behind it is garbled')
    conns = [n for n in walk_deep_func(base.node) if isinstance(n, ast.Call) and (dotted(n.func) or '').endswith('connection.Connection')]
    wconn = [c for c in conns if any(k.arg == 'readable' and isinstance(k.value, ast.Constant) and k.value.value is False for k in c.keywords)]
    rconn = [c for c in conns if any(k.arg == 'writable' and isinstance(k.value, ast.Constant) and k.value.value is False for k in c.keywords)]
    if len(conns) != 2 or len(wconn) != 1 or len(rconn) != 1:
        probs.append('the two ends are not wrapped in one write-only and one read-only Connection')
    # the writer opens wpath, the reader opens rpath
    wfun = [g for g in base.methods() if any(c in [x for x in walk_shallow_func(g.node)] for c in wconn)]
    rfun = [g for g in base.methods() if any(c in [x for x in walk_shallow_func(g.node)] for c in rconn)]
    def opened(g):
        return [norm_text(o.args[0]) for o in walk_shallow_func(g.node) if isinstance(o, ast.Call) and dotted(o.func) == 'os.open']
    if wfun and opened(wfun[0]) != ['self._wpath']:
        probs.append(f'the write-only Connection is opened on {opened(wfun[0])}')
    if rfun and opened(rfun[0]) != ['self._rpath']:
        probs.append(f'the read-only Connection is opened on {opened(rfun[0])}')
    for meth, conn in (('send', 'self._writer'), ('send_bytes', 'self._writer'), ('recv', 'self._get_reader()'), ('recv_bytes', 'self._get_reader()')):
        g = base.method(meth)
        gsc = Scope(g)
        calls = [n for n in walk_shallow_func(g.node) if isinstance(n, ast.Call) and method_of(n)[1] == meth]
        recv_txt = (gsc.canon(method_of(calls[0])[0]) or norm_text(method_of(calls[0])[0])) if calls else None
        if isinstance(method_of(calls[0])[0], ast.Name) and calls and method_of(calls[0])[0].id in gsc.assign_counts:
            # a local bound once from a call (`r = self._get_reader()`): resolve through its definition
            d_ = [k for k in walk_shallow_func(g.node) if isinstance(k, ast.Assign) and is_name(k.targets[0], method_of(calls[0])[0].id)]
            if len(d_) == 1 and dotted(d_[0].value) is None:
                recv_txt = norm_text(d_[0].value)
        if not calls or recv_txt != conn:
            probs.append(f'{meth} does not delegate to {conn}.{meth}')
        else:
            # ... with the caller's arguments as they are: every parameter is handed on as itself (positionally in its
            # own position, or under its own keyword); a re-computed argument (a slice made from offset and size) changes
            # what is sent
            ps_ = [a.arg for a in g.node.args.args[1:] + g.node.args.kwonlyargs]
            c0 = calls[0]
            passed = {}
            for i_, a_ in enumerate(c0.args):
                if i_ < len(ps_):
                    passed[ps_[i_]] = a_
            for k_ in c0.keywords:
                if k_.arg:
                    passed[k_.arg] = k_.value
            bad_ = [p_ for p_ in ps_ if not (p_ in passed and is_name(passed[p_], p_))]
            if bad_:
                probs.append(f'{meth} does not hand its parameter(s) {bad_} on unchanged (`{norm_text(c0)[:60]}`): what arrives is not what was sent')
    ck.ob('C18-8', init, (base.node.lineno, '_Pipe'), not probs, '; '.join(probs) if probs else 'write-only Connection on wpath, read-only Connection on rpath; send*/recv* delegate to them unchanged')
