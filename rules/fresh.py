"""FRESH closure: "every value flowing into this name at this point was obtained in the current
iteration of the loop that produces it" -- no stale id / future / payload from an earlier
iteration on any path.

fresh_chain(cfg, node, name) walks backwards through the reaching definitions inside the
iteration (back edges of the producing loop cut) until it reaches *origins*:
a queue `get`, a loop target, a call of a tabled source helper, a constant.
"""

from __future__ import annotations

import ast
import builtins

from mpsa.cfg import CFG, Node, calls_in, header_expr, walk_shallow
from mpsa.flow import assigned_names, definitely_assigned, path_avoiding, reaching_defs
from mpsa.loader import dotted, norm_text
from mpsa.match import method_of, unwrap_await

BUILTINS = set(dir(builtins))


def _assigners(cfg: CFG, name: str):
    return [n for n in cfg.nodes if name in assigned_names(n)]


def _value_names(v, containers: set | None = None):
    """Local data names a value expression depends on (not callee names, not attributes of self).
    Names that occur only as the subscripted object of a lookup (`table[key]`) are also put into `containers`."""
    out = set()
    if v is None:
        return out
    sub_only: dict[str, bool] = {}

    def rec(e, callee=False):
        if isinstance(e, ast.Name):
            if not callee and e.id not in BUILTINS and e.id != 'self':
                out.add(e.id)
                sub_only[e.id] = False
            return
        if isinstance(e, ast.Subscript) and isinstance(e.value, ast.Name) and not callee:
            nm = e.value.id
            if nm not in BUILTINS and nm != 'self':
                out.add(nm)
                sub_only.setdefault(nm, True)
            rec(e.slice)
            return
        if isinstance(e, ast.Attribute):
            # attribute chains rooted at a local: depends on the local (e.g. `y.exc`); rooted at self: state
            root = e
            while isinstance(root, ast.Attribute):
                root = root.value
            if isinstance(root, ast.Name) and root.id != 'self' and not callee:
                out.add(root.id)
            elif not isinstance(root, ast.Name):
                rec(root)
            return
        if isinstance(e, ast.Call):
            rec(e.func, callee=True)
            for a in e.args:
                rec(a)
            for k in e.keywords:
                rec(k.value)
            return
        if isinstance(e, (ast.ListComp, ast.SetComp, ast.GeneratorExp, ast.DictComp)):
            bound = set()
            for g in e.generators:
                rec(g.iter)
                for t in ast.walk(g.target):
                    if isinstance(t, ast.Name):
                        bound.add(t.id)
            inner = set()
            for sub in ([e.elt] if not isinstance(e, ast.DictComp) else [e.key, e.value]):
                inner |= _value_names(sub)
            out.update(inner - bound)
            return
        if isinstance(e, ast.Lambda):
            return
        for c in ast.iter_child_nodes(e):
            rec(c)

    rec(v)
    if containers is not None:
        containers.update(k for k, only in sub_only.items() if only)
    return out


def is_get_call(v) -> bool:
    v = unwrap_await(v)
    if isinstance(v, ast.Call):
        r, me = method_of(v)
        if me in ('get', 'get_nowait', 'recv', 'popleft') and r is not None:
            return True
    return False


def fresh_chain(cfg: CFG, node: Node, name: str, *, sources=(), params=(), _seen=None, _depth=0):
    """Return a list of problems (empty = fresh).  `sources`: callee names (dotted) whose result is an
    origin (e.g. 'self._get_input_batch').  `params`: names that are legitimately function-scoped
    (parameters / constants), not per-iteration data."""
    _seen = _seen if _seen is not None else set()
    key = (node.id, name)
    if key in _seen or _depth > 12:
        return []
    _seen.add(key)
    if name in params or name in BUILTINS:
        return []
    assigners = _assigners(cfg, name)
    if not assigners:
        return []  # closure / global / parameter: not iteration data
    if not node.loops:
        return []  # not in a loop: nothing can be stale
    # innermost enclosing loop that (re)assigns the name
    L = None
    for h in reversed(node.loops):
        if any(h in a.loops or a.id == h for a in assigners):
            L = h
            break
    if L is None:
        # assigned only outside every enclosing loop
        outside = [a for a in assigners]
        return [f'`{name}` used at L{node.lineno} is assigned only outside the loop (L{outside[0].lineno}): the same value serves every iteration']
    Ln = cfg.nodes[L]
    probs = []
    if Ln.kind == 'for' and name in assigned_names(Ln):
        # loop target: fresh; its source is the iterable, evaluated at the header
        for dep in _value_names(Ln.ast.iter):
            probs += fresh_chain(cfg, Ln, dep, sources=sources, params=params, _seen=_seen, _depth=_depth + 1) if Ln.loops else []
        # the iterable is evaluated once before the loop: check at the header w.r.t. outer loops
        return probs
    # Staleness = a cyclic path  use -> (back edge of L) -> use  on which the name is never
    # (completely) re-assigned.  seg2: loop head -> use without assignment; seg1: use -> loop head
    # without assignment.  Both must exist for a value to serve two iterations.  (A value fetched
    # at the *end* of an iteration for the next one -- the greedy-read idiom -- has seg2 but no seg1.)
    aids = {a.id for a in assigners}

    def edge_ok(e):
        return not (e.src in aids and e.kind != 'exc')

    body_edges = [e for e in cfg.succ[L] if e.kind in ('T', 'iter')]
    seg2 = path_avoiding(cfg, body_edges, {node.id}, edge_ok=edge_ok) if node.id != L else None
    if seg2 is not None:
        seg1 = path_avoiding(cfg, list(cfg.succ[node.id]), {L}, edge_ok=edge_ok)
        if seg1 is not None:
            from mpsa.flow import fmt_path

            return [
                f'`{name}` used at L{node.lineno} is not re-assigned on every path around the loop at L{Ln.lineno}: '
                f'a value from an earlier iteration can be used again ({fmt_path(cfg, [node.id] + seg1)} → {fmt_path(cfg, seg2)})'
            ]
        # loop-carried but re-assigned after every use (fetched at the end of an iteration for the next one):
        # acceptable only if what is carried over is itself an origin (a fresh `get`), not a value computed
        # from other names -- a computed value that survives the back edge is a stale value in disguise
        rd_all = reaching_defs(cfg, name, start=cfg.entry).get(node.id, frozenset())
        body = {k.id for k in cfg.nodes if L in k.loops}
        for d in rd_all:
            if d not in body:
                continue
            dn = cfg.nodes[d]
            # does this def reach the use only around the back edge?  (defs earlier in the same iteration do not)
            if path_avoiding(cfg, cfg.normal_succ(d), {node.id}, avoid={L}, edge_ok=edge_ok) is not None and d != node.id:
                continue
            v = getattr(dn.ast, 'value', None)
            u = unwrap_await(v) if v is not None else None
            if v is None or is_get_call(v) or (isinstance(u, ast.Call) and dotted(u.func) in sources):
                continue
            return [f'`{name}` used at L{node.lineno} can still hold the value computed at L{dn.lineno} in the previous iteration (`{norm_text(dn.ast)[:50]}`): a value derived from an earlier request survives into this one']
    da0 = definitely_assigned(cfg, start=cfg.entry)
    if node.id in da0 and name not in da0[node.id] and name not in assigned_names(node):
        return [f'`{name}` used at L{node.lineno} may be unbound on the first iteration']
    rd = reaching_defs(cfg, name, start=cfg.entry).get(node.id, frozenset())
    for d in rd:
        dn = cfg.nodes[d]
        if dn.kind == 'except':
            continue  # the caught exception of this iteration
        if dn.kind == 'for':
            for dep in _value_names(dn.ast.iter):
                probs += fresh_chain(cfg, dn, dep, sources=sources, params=params, _seen=_seen, _depth=_depth + 1)
            continue
        if dn.kind == 'with_enter':
            continue
        st = dn.ast
        v = getattr(st, 'value', None)
        if v is None:
            continue
        if is_get_call(v):
            continue
        u = unwrap_await(v)
        if isinstance(u, ast.Call) and (dotted(u.func) in sources):
            continue
        conts: set = set()
        for dep in _value_names(v, conts):
            if dep == name and isinstance(st, ast.AugAssign):
                continue
            if dep in conts and _loop_invariant(cfg, dn, dep):
                continue  # `table[key]` with a table bound once outside the loop: a lookup, the data dependency is the key
            probs += fresh_chain(cfg, dn, dep, sources=sources, params=params, _seen=_seen, _depth=_depth + 1)
    return probs


def _loop_invariant(cfg: CFG, node: Node, name: str) -> bool:
    """`name` is assigned, but in none of the loops enclosing `node`"""
    assigners = _assigners(cfg, name)
    return bool(assigners) and not any(h in a.loops or a.id == h for a in assigners for h in node.loops)
