"""C14 -- proxy calls behave like direct calls on the hosted object (thin: structural clauses)."""

from __future__ import annotations

import ast
import importlib.util

from mpsa.cfg import calls_in, header_expr, walk_shallow
from mpsa.flow import fmt_path, path_avoiding, reachable
from mpsa.guard import Guard
from mpsa.loader import dotted, norm_text
from mpsa.match import Scope, is_name, is_none, kwarg, method_of, walk_deep_func, walk_shallow_func
from mpsa.report import Checker

from .common import SERVERPROC, build_cfg, make_fallible


def _kinds_in(func_node):
    """'#KIND' string constants appearing as first element of a tuple in a function"""
    out = set()
    for n in ast.walk(func_node):
        if isinstance(n, ast.Tuple) and n.elts and isinstance(n.elts[0], ast.Constant) and isinstance(n.elts[0].value, str) and n.elts[0].value.startswith('#'):
            out.add(n.elts[0].value)
    return out



def check_closed_conn_uncached(ck: Checker, rid: str):
    """Typestate of the per-thread connection cache: a connection that is closed is taken out of the cache in the same
    step.  `_callmethod` uses whatever `tls.connection` holds and only connects when the attribute is missing: a closed
    connection left in the cache makes the next proxy of that server in this thread fail with OSError('handle is
    closed') although the hosted object is alive."""
    mod = ck.repo.module(SERVERPROC)
    n_sites = 0
    for f in mod.functions.values():
        if f.cls is None or f.cls.name != 'BaseProxy':
            continue
        # aliases of the cached connection: conn = tls.connection / getattr(tls, 'connection', ...)
        alias = {}
        for n in walk_shallow_func(f.node):
            if isinstance(n, ast.Assign) and len(n.targets) == 1 and isinstance(n.targets[0], ast.Name):
                v = n.value
                if isinstance(v, ast.Attribute) and v.attr == 'connection':
                    alias[n.targets[0].id] = dotted(v)
                elif isinstance(v, ast.Call) and dotted(v.func) == 'getattr' and len(v.args) >= 2 and isinstance(v.args[1], ast.Constant) and v.args[1].value == 'connection' and dotted(v.args[0]):
                    alias[n.targets[0].id] = dotted(v.args[0]) + '.connection'
        cfg = None
        for n in walk_shallow_func(f.node):
            if isinstance(n, ast.Call) and method_of(n)[1] == 'close' and method_of(n)[0] is not None:
                r = method_of(n)[0]
                cached = dotted(r) if (isinstance(r, ast.Attribute) and r.attr == 'connection') else alias.get(r.id) if isinstance(r, ast.Name) else None
                if not cached or not (cached.split('.')[0] in ('tls', 'self') and '_tls' in cached or cached.startswith('tls.')):
                    continue
                n_sites += 1
                if cfg is None:
                    cfg = build_cfg(f, ck.repo, None)
                    ck.analysed_func(f, cfg)
                close_nodes = [k for k in cfg.nodes if header_expr(k) is not None and any(c is n for c in calls_in(header_expr(k)))]
                removes = {k.id for k in cfg.nodes if (isinstance(k.ast, ast.Delete) and any(dotted(t) == cached for t in k.ast.targets)) or (isinstance(k.ast, ast.Assign) and any(dotted(t) == cached for t in k.ast.targets)) or (header_expr(k) is not None and any(dotted(c.func) == 'delattr' and len(c.args) == 2 and dotted(c.args[0]) == cached.rsplit('.', 1)[0] and isinstance(c.args[1], ast.Constant) and c.args[1].value == 'connection' for c in calls_in(header_expr(k))))}
                p = path_avoiding(cfg, [e for k in close_nodes for e in cfg.normal_succ(k.id)], {cfg.exit_return}, avoid=removes) if close_nodes else None
                if p is not None and path_avoiding(cfg, [cfg.entry], {k.id for k in close_nodes}, avoid=removes) is None:
                    p = None  # taken out of the cache before it is closed
                ck.ob(rid, f, n, bool(close_nodes) and p is None, f'`{norm_text(n)}` is followed on every path by the removal of `{cached}` from the cache' if close_nodes and p is None else f'`{norm_text(n)}` closes the cached connection `{cached}` but a path leaves {f.name} with the closed connection still cached: the next proxy call of this thread to the same server uses it and fails with OSError(\'handle is closed\') although the hosted object is alive', path=fmt_path(cfg, p) if p else '')
    ck.need(n_sites >= 1, 'BaseProxy: no close of the cached per-thread connection found')


def check_proxy_decision(ck: Checker, rid: str):
    """Whether a method returns a live proxy or a copy is decided by the method table (`method_to_typeid`) alone, never
    by the value the method happened to return: an empty list / dict / 0 returned by a mapped method is still hosted,
    otherwise the caller mutates a detached copy and later calls (container no longer empty) return a real proxy that
    disagrees with it."""
    f = ck.repo.func(SERVERPROC, 'Server._callmethod')
    cfg = build_cfg(f, ck.repo, None)
    ck.analysed_func(f, cfg)
    creates = [k for k in cfg.nodes if header_expr(k) is not None and any(dotted(c.func) == 'self.create' for c in calls_in(header_expr(k)))]
    ck.need(creates, f'{f.key}: no self.create(...) call')
    cr = creates[0]
    call = [c for c in calls_in(header_expr(cr)) if dotted(c.func) == 'self.create'][0]
    resv = call.args[2].id if len(call.args) >= 3 and isinstance(call.args[2], ast.Name) else None
    ck.need(resv, f'{f.key}: the hosted value passed to self.create is not a plain name')
    # values derived from the result
    tainted = {resv}
    changed = True
    while changed:
        changed = False
        for n in walk_shallow_func(f.node):
            if isinstance(n, ast.Assign) and any(isinstance(x, ast.Name) and x.id in tainted for x in ast.walk(n.value)):
                for t in n.targets:
                    if isinstance(t, ast.Name) and t.id not in tainted:
                        tainted.add(t.id)
                        changed = True
    # tests that decide between the create and a plain return: create reachable on one label only
    probs = []
    n_tests = 0
    for t in cfg.nodes:
        if t.kind != 'test':
            continue
        reach = {lab: cr.id in reachable(cfg, [e.dst for e in cfg.succ[t.id] if e.kind == lab]) or any(e.dst == cr.id for e in cfg.succ[t.id] if e.kind == lab) for lab in ('T', 'F')}
        if reach['T'] == reach['F']:
            continue
        n_tests += 1
        used = {x.id for x in ast.walk(t.ast) if isinstance(x, ast.Name)} & tainted
        if used:
            probs.append(f'L{t.lineno}: `{norm_text(t.ast)}` lets the returned value (`{sorted(used)[0]}`) decide whether a proxy is created: a mapped method that returns an empty container / 0 / None hands out a detached copy instead of a live proxy')
    ck.ob(rid, f, cr.ast, not probs and n_tests >= 1, '; '.join(probs) if probs else f'the proxy / copy decision before `{norm_text(call)[:50]}` depends on the method table only ({n_tests} test(s))')


def _stdlib_convert_to_error_kinds():
    spec = importlib.util.find_spec('multiprocessing.managers')
    src = open(spec.origin).read()
    tree = ast.parse(src)
    for n in ast.walk(tree):
        if isinstance(n, ast.FunctionDef) and n.name == 'convert_to_error':
            kinds = set()
            for c in ast.walk(n):
                if isinstance(c, ast.Constant) and isinstance(c.value, str) and c.value.startswith('#'):
                    kinds.add(c.value)
            return kinds, spec.origin
    return set(), spec.origin


def run(ck: Checker):
    ck.rule('C14-1', 'message kinds: every kind the server side can produce is understood by the proxy side or by the standard convert_to_error (AGREE)')
    ck.rule('C14-2', 'containment: the hosted method is invoked inside try/except Exception producing (\'#ERROR\', wrapped e) and returning normally; no exception from the dispatch leaves the serve loop (the connection stays usable) (EXITS)', minimum=2)
    ck.rule('C14-3', 'method tables: every method name given to add_proxy_methods exists on the referent type the proxy class is registered with; the generated method forwards its name, args and kwargs (AGREE)', minimum=5)
    ck.rule('C14-4', 'one protocol: on the in-server shortcut (no pickling) the RemoteException wrapper is turned into the original exception before it reaches `raise convert_to_error(...)` (GUARD)')
    mod = ck.repo.module(SERVERPROC)
    srv = mod.cls('Server')
    bp = mod.cls('BaseProxy')
    # ------------------------------------------------------------------ C14-1
    produced = _kinds_in(srv.method('_callmethod').node) | _kinds_in(srv.method('serve_client').node)
    pc = bp.method('_callmethod')
    consumed = {n.comparators[0].value for n in ast.walk(pc.node) if isinstance(n, ast.Compare) and is_name(n.left, 'kind') and isinstance(n.comparators[0], ast.Constant)}
    std, origin = _stdlib_convert_to_error_kinds()
    falls_to_convert = any(isinstance(n, ast.Raise) and isinstance(n.exc, ast.Call) and dotted(n.exc.func) == 'convert_to_error' for n in ast.walk(pc.node))
    missing = sorted(k for k in produced if k not in consumed and not (falls_to_convert and k in std))
    ck.ob('C14-1', pc, (pc.node.lineno, 'message kinds'), not missing and len(produced) >= 4, f'produced {sorted(produced)}; proxy handles {sorted(consumed)}, convert_to_error ({origin.split("/")[-1]}) handles {sorted(std)}' if not missing else f'the server can answer with kind(s) {missing} that neither the proxy nor convert_to_error understands')
    # ------------------------------------------------------------------ C14-2
    f = srv.method('_callmethod')
    sc = Scope(f)

    def extra(node, a):
        R = set()
        for c in calls_in(a):
            if isinstance(c.func, ast.Name) and c.func.id in ('function', 'fallback_func'):
                R.add('Exception')
        return R

    cfg = build_cfg(f, ck.repo, make_fallible(sc, iters=set(), calls=set(), extra=extra))
    ck.analysed_func(f, cfg)
    inv = [n for n in cfg.nodes if header_expr(n) is not None and any(isinstance(c.func, ast.Name) and c.func.id == 'function' for c in calls_in(header_expr(n)))]
    ck.need(inv, f'{f.key}: invocation of the hosted method not found')
    probs = []
    for e in cfg.succ[inv[0].id]:
        if e.kind == 'exc':
            d = cfg.nodes[e.dst]
            if d.kind != 'except' or not d.ast.name:
                probs.append('an exception raised by the hosted method leaves _callmethod: the caller gets a transport-level traceback (or the serving thread dies) instead of the method\'s exception')
            else:
                rets = [k for k in cfg.nodes if isinstance(k.ast, (ast.Return, ast.Assign)) and k.id in reachable(cfg, [d.id]) and "'#ERROR'" in norm_text(k.ast)]
                if not rets:
                    probs.append("the handler does not produce an ('#ERROR', …) message")
                else:
                    t = [x for x in ast.walk(rets[0].ast) if isinstance(x, ast.Tuple) and x.elts and isinstance(x.elts[0], ast.Constant) and x.elts[0].value == '#ERROR'][0]
                    pl = t.elts[1]
                    if not (isinstance(pl, ast.Call) and pl.args and is_name(pl.args[0], d.ast.name) and ((dotted(pl.func) or '').endswith('_wrap_user_exc') or (dotted(pl.func) or '').endswith('RemoteException'))):
                        probs.append(f"the error payload is `{norm_text(pl)}`, not the caught exception wrapped for transport (its traceback would be lost)")
    if cfg.exit_raise in reachable(cfg, [inv[0].id]):
        probs.append('an exception can leave _callmethod after the method was invoked')
    ck.ob('C14-2', f, inv[0].ast, not probs, '; '.join(probs) if probs else "an Exception raised by the hosted method becomes ('#ERROR', RemoteException(e)) and _callmethod returns normally")
    # the wrapper really is RemoteException
    wu = srv.method('_wrap_user_exc')
    r = [n for n in walk_shallow_func(wu.node) if isinstance(n, ast.Return)]
    okw = bool(r) and isinstance(r[0].value, ast.Call) and dotted(r[0].value.func) == 'RemoteException' and is_name(r[0].value.args[0], wu.params()[1])
    f = srv.method('serve_client')
    sc = Scope(f)

    def extra2(node, a):
        R = set()
        for c in calls_in(a):
            d = dotted(c.func)
            if d == 'self._callmethod':
                R.add('Exception')
            if d == 'recv':
                R |= {'EOFError', 'Exception'}
        return R

    cfg = build_cfg(f, ck.repo, make_fallible(sc, iters=set(), calls=set(), extra=extra2))
    ck.analysed_func(f, cfg)
    cm = [n for n in cfg.nodes if header_expr(n) is not None and any(dotted(c.func) == 'self._callmethod' for c in calls_in(header_expr(n)))]
    ck.need(cm, f'{f.key}: dispatch call not found')
    probs = [] if okw else ['_wrap_user_exc does not wrap the exception in RemoteException']
    loop = cm[0].loops[0] if cm[0].loops else None
    for e in cfg.succ[cm[0].id]:
        if e.kind == 'exc':
            d = cfg.nodes[e.dst]
            if d.kind != 'except' or loop is None or loop not in d.loops:
                probs.append('an exception from the dispatch ends the serve loop: the connection is lost for this client')
            else:
                # stays in loop and sends a message
                sends = [k for k in cfg.nodes if loop in k.loops and header_expr(k) is not None and any(isinstance(c.func, ast.Name) and c.func.id == 'send' for c in calls_in(header_expr(k)))]
                if not any(s_.id in reachable(cfg, [d.id], avoid={loop}) for s_ in sends):
                    probs.append('after a failed dispatch nothing is sent back: the caller waits for ever')
    ck.ob('C14-2', f, cm[0].ast, not probs, '; '.join(probs) if probs else 'a failing dispatch is answered with a #TRACEBACK message and the serve loop goes on; only EOF / a failed send end it')
    # ------------------------------------------------------------------ C14-9
    ck.rule('C14-9', 'the type registry of a running server only grows: `managed()` and the Server methods never delete an entry (server threads look entries up without a lock between `managed()` and `Server.create`; an entry deleted "after its single use" disappears under a concurrent managed() of the same type) (WHO)')
    dels = []
    for g in mod.functions.values():
        for n in walk_deep_func(g.node) if g.parent is None or g.cls is not None else []:
            if isinstance(n, ast.Delete) and any(isinstance(t, ast.Subscript) and (dotted(t.value) or '').endswith('.registry') for t in n.targets):
                dels.append((g, n))
            if isinstance(n, ast.Call) and method_of(n)[1] in ('pop', 'popitem', 'clear') and method_of(n)[0] is not None and (dotted(method_of(n)[0]) or '').endswith('.registry'):
                dels.append((g, n))
    dels = [(g, n) for g, n in dels if g.name != 'unregister']
    mg = mod.func('managed')
    ck.ob('C14-9', mg, (mg.node.lineno, 'registry deletions'), not dels, 'no function removes entries from the registry of a running server' if not dels else f'{dels[0][0].qualname} L{dels[0][1].lineno}: `{norm_text(dels[0][1])[:60]}` removes a registry entry while other server threads may be between their lookup and `Server.create`: their managed() fails with a spurious KeyError and the client gets no proxy')
    # ------------------------------------------------------------------ C14-8
    # "an exception raised by the method is raised in the caller with the same type and arguments and carries the
    # server-side traceback": the carrier is RemoteException; its obligations (C15) are decided here as well
    from . import c15

    with ck.as_rule('C14-8', 'exception transport: the RemoteException obligations C15-1..5, on which "carries the server-side traceback" rests', minimum=5):
        c15.run(ck)
    # ------------------------------------------------------------------ C14-15
    ck.rule('C14-15', 'a proxy offers the public methods of ITS hosted object: a cache of generated proxy types is keyed by the exposed method names as well as by the type id — two hosted objects that share a type id (a registered factory that returns different classes) but differ in their methods must not share a proxy type')
    ap = mod.func('AutoProxy')
    probs15, n15 = [], 0
    for fn15 in [ap] + [f_ for q_, f_ in mod.functions.items() if q_.startswith('AutoProxy.')]:
        ps15 = {a.arg for a in fn15.node.args.args + fn15.node.args.kwonlyargs}
        if 'exposed' not in ps15:
            continue
        # locals derived from `exposed`
        derived = {'exposed'}
        for st in ast.walk(fn15.node):
            if isinstance(st, ast.Assign) and any(isinstance(x, ast.Name) and x.id in derived for x in ast.walk(st.value)):
                derived |= {t.id for t in st.targets if isinstance(t, ast.Name)}
        for sub in ast.walk(fn15.node):
            if isinstance(sub, ast.Subscript) and isinstance(sub.value, ast.Name) and 'cache' in sub.value.id.lower():
                n15 += 1
                if not any(isinstance(x, ast.Name) and x.id in derived for x in ast.walk(sub.slice)):
                    probs15.append(f'L{sub.lineno}: `{norm_text(sub)[:50]}` — the cache of generated proxy types is keyed without the exposed methods: the second object of a type id gets the methods of the first one seen in this process')
    ck.ob('C14-15', ap, (ap.node.lineno, 'proxy type cache'), not probs15, '; '.join(sorted(set(probs15))[:2]) if probs15 else (f'{n15} use(s) of the proxy type cache, each keyed by the exposed methods' if n15 else 'generated proxy types are not cached'))
    # ------------------------------------------------------------------ C14-16
    ck.rule('C14-16', 'a call that fails leaves the connection usable, whatever fails: in the serving loop the receipt of the request is covered by the handler that answers #TRACEBACK — arguments that cannot be un-pickled in the server are that call\'s failure, not the end of the serving thread')
    sv16 = mod.func('Server.serve_client')
    recvs16 = [c for c in ast.walk(sv16.node) if isinstance(c, ast.Call) and ((isinstance(c.func, ast.Name) and c.func.id == 'recv') or (isinstance(c.func, ast.Attribute) and c.func.attr == 'recv')) and not c.args]
    ck.need(recvs16, f'{sv16.key}: receipt of the request not found')
    covers16 = set()
    for tr in [t for t in ast.walk(sv16.node) if isinstance(t, ast.Try)]:
        if any(x is recvs16[0] for b in tr.body for x in ast.walk(b)):
            for h in tr.handlers:
                if h.type is None:
                    covers16.add('BaseException')
                for e in (h.type.elts if isinstance(h.type, ast.Tuple) else ([h.type] if h.type is not None else [])):
                    covers16.add((dotted(e) or '?').split('.')[-1])
    ok16 = bool({'Exception', 'BaseException'} & covers16)
    ck.ob('C14-16', sv16, recvs16[0], ok16, f'the receipt of the request is covered by handlers for {sorted(covers16)}' if ok16 else f'`{norm_text(recvs16[0])}` is covered only by handlers for {sorted(covers16) or "nothing"}: a request whose arguments cannot be un-pickled ends the serving thread and closes the connection — every later call of that client thread fails with BrokenPipeError')
    # ------------------------------------------------------------------ C14-17
    ck.rule('C14-17', 'a proxy offers the public callables of the hosted OBJECT: Server.create computes the exposed names from the object it has just made, not from its type (callables set on the instance — a strategy function, a bound-method alias — are public methods of that object)')
    cr17 = mod.func('Server.create')
    pm17 = [c for c in ast.walk(cr17.node) if isinstance(c, ast.Call) and (dotted(c.func) or '').split('.')[-1] == 'public_methods']
    ck.need(pm17, f'{cr17.key}: public_methods call not found')
    bad17 = [c for c in pm17 if not (c.args and isinstance(c.args[0], ast.Name))]
    ck.ob('C14-17', cr17, pm17[0], not bad17, 'the exposed names are the public callables of the object itself' if not bad17 else f'`{norm_text(bad17[0])}`: the exposed names are computed from something other than the hosted object (its type has no instance-level callables)')
    # ------------------------------------------------------------------ C14-14
    ck.rule('C14-14', 'the exception of the hosted method is what the caller gets: after the handler has built the #ERROR message nothing else is decided for this call — no later step reads the (unassigned) result or replaces the message (a mapped method that raises would surface as a library UnboundLocalError) (EXITS)', minimum=1)
    cmf = ck.repo.func(SERVERPROC, 'Server._callmethod')

    def _extra14(node, a):
        return {'Exception'} if any(is_name(c.func, 'function') for c in calls_in(a)) else set()

    cfg14 = build_cfg(cmf, ck.repo, make_fallible(Scope(cmf), iters=set(), calls=set(), extra=_extra14))
    calls14 = [n for n in cfg14.nodes if isinstance(n.ast, ast.Assign) and isinstance(n.ast.value, ast.Call) and is_name(n.ast.value.func, 'function')]
    ck.need(calls14, f'{cmf.key}: call of the hosted method not found')
    resv = calls14[0].ast.targets[0].id if isinstance(calls14[0].ast.targets[0], ast.Name) else None
    probs14 = []
    for e in cfg14.succ[calls14[0].id]:
        if e.kind != 'exc':
            continue
        h = cfg14.nodes[e.dst]
        if h.kind != 'except':
            continue
        after = reachable(cfg14, [h.id], edge_ok=lambda ed: not ed.is_exc)
        msgdefs = [k for k in after if isinstance(cfg14.nodes[k].ast, ast.Assign) and any(is_name(t, 'msg') for t in cfg14.nodes[k].ast.targets)]
        first = [k for k in msgdefs if '#ERROR' in norm_text(cfg14.nodes[k].ast)] + [k for k in after if isinstance(cfg14.nodes[k].ast, ast.Return) and cfg14.nodes[k].ast.value is not None and '#ERROR' in norm_text(cfg14.nodes[k].ast.value)]
        for k in after:
            nk = cfg14.nodes[k]
            a = header_expr(nk)
            if a is None or k == h.id:
                continue
            if resv and any(isinstance(x, ast.Name) and x.id == resv and isinstance(x.ctx, ast.Load) for x in ast.walk(a)):
                probs14.append(f'L{nk.lineno}: `{norm_text(a)[:50]}` reads `{resv}` on the path on which the hosted method raised (it was never assigned): the caller gets the library\'s UnboundLocalError as a RemoteError instead of the method\'s own exception')
            if k in msgdefs and k not in first:
                probs14.append(f'L{nk.lineno}: the #ERROR message is replaced by `{norm_text(nk.ast)[:40]}` after the hosted method raised')
        if not first:
            probs14.append('the handler of the hosted call does not build an #ERROR message')
    ck.ob('C14-14', cmf, calls14[0].ast, not probs14, '; '.join(sorted(set(probs14))) if probs14 else 'after the hosted method raised, the #ERROR message is returned as built; the result variable is read on the success path only')
    # ------------------------------------------------------------------ C14-13
    ck.rule('C14-13', 'the exception carries the traceback of *this* server\'s frames: Server._wrap_user_exc wraps with RemoteException(<the exception>) alone, so that the text is formatted from the live traceback of the hosted method — a forwarded text (of a nested remote call that failed) would drop the frames of the method the caller invoked (AGREE)', minimum=1)
    wf = ck.repo.func(SERVERPROC, 'Server._wrap_user_exc')
    wp = wf.params()[1] if len(wf.params()) > 1 else None
    rets = [n for n in walk_shallow_func(wf.node) if isinstance(n, ast.Return)]
    badr = [r for r in rets if not (isinstance(r.value, ast.Call) and (dotted(r.value.func) or '').endswith('RemoteException') and len(r.value.args) == 1 and not r.value.keywords and is_name(r.value.args[0], wp or ''))]
    ck.ob('C14-13', wf, badr[0] if badr else (rets[0] if rets else wf.node), bool(rets) and not badr, f'every return is RemoteException({wp}): the text is formatted where the hosted method failed' if rets and not badr else f'L{badr[0].lineno if badr else wf.node.lineno}: `{norm_text(badr[0].value)[:70] if badr else "no return"}` does not wrap the exception with a traceback formatted at this site: a hosted method that fails because a nested remote call failed reaches the caller without its own server-side frames')
    # ------------------------------------------------------------------ C14-12
    # "state changes are visible through every proxy of that object": a proxy whose object was destroyed under it (a
    # decrement too many, a transit reference not taken) answers RemoteError / KeyError instead -- the reference-count
    # obligations of C13 are decided here as well
    from . import c13

    with ck.as_rule('C14-12', 'a proxy refers to a hosted object that is still there: the reference-count obligations C13-1..7 (construct +1 with a finaliser, pickle +1 in transit, rebuild adopts it, server bookkeeping, lookups by token.address, connection cache)', minimum=10):
        c13.run(ck)
    # ------------------------------------------------------------------ C14-10 / C14-11
    ck.rule('C14-10', 'a usable proxy stays usable: a cached per-thread connection that is closed is removed from the cache on every path (typestate closed => not cached; MUSTPASS)', minimum=1)
    check_closed_conn_uncached(ck, 'C14-10')
    ck.rule('C14-11', 'proxy or copy is decided by the method table alone: no test between the call of the hosted method and Server.create depends on the returned value (DATAFLOW)', minimum=1)
    check_proxy_decision(ck, 'C14-11')
    # ------------------------------------------------------------------ C14-7
    ck.rule('C14-7', "the in-process shortcut is taken only for proxies of this very server: every function that receives a token obtains the server with get_server(<token>.address), and get_server returns the running server only when the addresses agree (AGREE)", minimum=2)
    check_shortcut_address(ck, 'C14-7')
    # ------------------------------------------------------------------ C14-6
    ck.rule('C14-6', 'a value wrapped by managed() a second time stays reachable through its earlier proxies: Server.create initialises the count entry only if absent, before the proxy is built (same obligation as C13-4, decided here for "state is visible through every proxy")', minimum=1)
    from .c13 import check_create_bookkeeping

    check_create_bookkeeping(ck, 'C14-6')
    # ------------------------------------------------------------------ C14-5
    ck.rule('C14-5', "unserialisable replies: a failure to send the reply (pickling can raise TypeError, AttributeError, PicklingError, ...: any Exception) is answered with an ('#UNSERIALIZABLE', …) message inside the serve loop; only a failure of that second send ends the connection (EXITS)")

    def extra3(node, a):
        R = set()
        for c in calls_in(a):
            if isinstance(c.func, ast.Name) and c.func.id == 'send':
                R.add('Exception')
        return R

    cfg = build_cfg(f, ck.repo, make_fallible(sc, iters=set(), calls=set(), extra=extra3))
    sends = [k for k in cfg.nodes if k.pending is None and header_expr(k) is not None and any(isinstance(c.func, ast.Name) and c.func.id == 'send' for c in calls_in(header_expr(k)))]
    first = [k for k in sends if '#UNSERIALIZABLE' not in norm_text(k.ast)]
    second = {k.id for k in sends if '#UNSERIALIZABLE' in norm_text(k.ast)}
    ck.need(first, f'{f.key}: the send of the reply was not found')
    probs = []
    if not second:
        probs.append("no ('#UNSERIALIZABLE', …) reply is ever sent")
    for k in first:
        excs = [e for e in cfg.succ[k.id] if e.kind == 'exc']
        if not excs:
            probs.append('the send of the reply is not modelled as fallible')
        for e in excs:
            # every way the first send can fail must lead to the second send before anything else ends the iteration
            pth = path_avoiding(cfg, [e], {cfg.exit_return, cfg.exit_raise} | ({k.loops[0]} if k.loops else set()), avoid=second)
            if pth is not None:
                caught = sorted(e.data) if e.data else []
                probs.append(f"a reply that fails to serialise with {'/'.join(caught) or 'an exception'} is not answered with '#UNSERIALIZABLE': the handler around `send(msg)` is narrower than Exception, the failure reaches the outer handler, which closes the connection — every later call from that client fails")
                break
    ck.ob('C14-5', f, first[0].ast, not probs, '; '.join(sorted(set(probs))) if probs else "any Exception raised while sending the reply is answered with ('#UNSERIALIZABLE', traceback); the connection stays usable")
    # ------------------------------------------------------------------ C14-3
    reg = {}
    for n in mod.tree.body:
        for c in ast.walk(n):
            if isinstance(c, ast.Call) and dotted(c.func) == 'ServerProcess.register':
                pt = kwarg(c, 'proxytype')
                cb = kwarg(c, 'callable')
                if pt is not None and cb is not None and dotted(pt) and not is_none(cb):
                    reg.setdefault(dotted(pt), set()).add(dotted(cb))
    import builtins
    from multiprocessing import managers as _m  # stdlib only: the referent classes Namespace / Value / Array

    def referent(name):
        if hasattr(builtins, name):
            return getattr(builtins, name)
        return getattr(_m, name, None)

    n3 = 0
    for c in mod.classes.values():
        decs = [d for d in c.node.decorator_list if isinstance(d, ast.Call) and dotted(d.func) == 'add_proxy_methods']
        if not decs:
            continue
        names = [a.value for d in decs for a in d.args if isinstance(a, ast.Constant)]
        refs = sorted(reg.get(c.name, ()))
        probs = []
        if not refs:
            probs.append('the proxy class is not registered with a referent type')
        for rn in refs:
            obj = referent(rn)
            if obj is None:
                probs.append(f'referent `{rn}` unknown')
                continue
            if rn == 'Array':
                # multiprocessing.managers.Array() returns array.array
                import array as _array

                obj = _array.array
            miss = [nm for nm in names if not hasattr(obj, nm)]
            if miss:
                probs.append(f'`{rn}` has no method(s) {miss}: calling them through the proxy raises AttributeError on the server')
        n3 += 1
        ck.ob('C14-3', f'{mod.rel}::{c.qualname}', (c.node.lineno, f'{c.name} methods'), not probs, '; '.join(probs) if probs else f'{len(names)} forwarded method(s), all present on {refs}')
    apm = mod.func('add_proxy_methods.decorator')
    tmpl = [n for n in ast.walk(apm.node) if isinstance(n, ast.Constant) and isinstance(n.value, str) and '_callmethod' in n.value]
    ok = bool(tmpl) and 'self._callmethod(%r, args, kwargs)' in tmpl[0].value and 'def %s(self, /, *args, **kwargs)' in tmpl[0].value
    fmt = [n for n in ast.walk(apm.node) if isinstance(n, ast.BinOp) and isinstance(n.op, ast.Mod) and isinstance(n.right, ast.Tuple)]
    ok = ok and bool(fmt) and [norm_text(e) for e in fmt[0].right.elts] == ['meth', 'meth']
    ck.ob('C14-3', apm, (apm.node.lineno, 'generated method template'), ok, 'the generated method is `def <name>(self, /, *args, **kwargs): return self._callmethod(<name>, args, kwargs)`' if ok else 'the generated proxy method does not forward its own name with args and kwargs')
    # explicit forwarding methods (IteratorProxy, ValueProxy, NamespaceProxy, ListProxy.__iadd__ ...)
    for c in mod.classes.values():
        if 'BaseProxy' not in [b.split('.')[-1] for b in c.bases]:
            continue
        probs = []
        nfw = 0
        for g in c.methods():
            for n in walk_shallow_func(g.node):
                if isinstance(n, ast.Call) and ((dotted(n.func) or '').endswith('_callmethod') or dotted(n.func) == 'callmethod') and n.args and isinstance(n.args[0], ast.Constant):
                    nfw += 1
                    target = n.args[0].value
                    expect = {'__iadd__': 'extend', 'get': 'get', 'set': 'set', '__getattr__': '__getattribute__', 'name': '_name'}.get(g.name, g.name)
                    if target != expect:
                        probs.append(f'{c.name}.{g.name} forwards to `{target}` instead of `{expect}`')
        if nfw:
            n3 += 1
            ck.ob('C14-3', f'{mod.rel}::{c.qualname}', (c.node.lineno, f'{c.name} explicit forwards'), not probs, '; '.join(probs) if probs else f'{nfw} explicit forwarding call(s), each to the method of the same meaning')
    ck.need(n3 >= 4, 'proxy method tables not found')
    # ------------------------------------------------------------------ C14-4
    f = bp.method('_callmethod')
    cfg = build_cfg(f, ck.repo, None)
    ck.analysed_func(f, cfg)
    g = Guard(cfg, cfg.lat)
    short = [n for n in cfg.nodes if isinstance(n.ast, ast.Assign) and isinstance(n.ast.value, ast.Call) and (dotted(n.ast.value.func) or '').endswith('server._callmethod')]
    rz = [n for n in cfg.nodes if isinstance(n.ast, ast.Raise) and isinstance(n.ast.exc, ast.Call) and dotted(n.ast.exc.func) == 'convert_to_error']
    ck.need(short and rz, f'{f.key}: in-server shortcut / raise convert_to_error not found')
    tgt = short[0].ast.targets[0]
    res = tgt.elts[1].id if isinstance(tgt, ast.Tuple) and len(tgt.elts) == 2 else None
    probs = []
    if res is None:
        probs.append('the shortcut result is not unpacked as (kind, result)')
    else:
        tests = {n.id for n in cfg.nodes if n.kind == 'test' and isinstance(n.ast, ast.Call) and dotted(n.ast.func) == 'isinstance' and is_name(n.ast.args[0], res) and 'RemoteException' in norm_text(n.ast.args[1])}
        p = path_avoiding(cfg, cfg.normal_succ(short[0].id), {rz[0].id}, avoid=tests)
        if p is not None:
            probs.append('on the in-server shortcut the error payload reaches `raise convert_to_error(kind, result)` as the RemoteException wrapper (nothing unpickled it): the caller gets `TypeError: exceptions must derive from BaseException` instead of the method\'s exception')
        for t in tests:
            conv = [k for k in cfg.nodes if isinstance(k.ast, ast.Assign) and is_name(k.ast.targets[0], res) and k.id in reachable(cfg, [e.dst for e in cfg.succ[t] if e.kind == 'T'], avoid={rz[0].id})]
            p2 = path_avoiding(cfg, [e for e in cfg.succ[t] if e.kind == 'T'], {rz[0].id}, avoid={k.id for k in conv})
            if p2 is not None:
                probs.append('the wrapper is recognised but not converted back to the original exception')
            for k in conv:
                v = k.ast.value
                if not (isinstance(v, ast.Call) and (dotted(v.func) or '').endswith('_rebuild_exception')):
                    probs.append(f'the wrapper is converted with `{norm_text(v)[:50]}`, not with the rebuild helper pickling would use: the server-side traceback text is not attached to the exception the caller gets')
                elif isinstance(v, ast.Call) and [norm_text(a) for a in v.args] != [f'{res}.exc', f'{res}.tb']:
                    probs.append(f'the rebuild helper is called with {[norm_text(a) for a in v.args]}, not ({res}.exc, {res}.tb): type/args or the server-side traceback text would be lost')
    ck.ob('C14-4', f, rz[0].ast, not probs, '; '.join(sorted(set(probs))) if probs else 'both branches deliver the same payload kinds: the shortcut rebuilds the original exception (with its traceback text) exactly as unpickling does on the wire branch')


def check_shortcut_address(ck: Checker, rid: str):
    """get_server compares addresses; every function that has a token looks the server up by that token's address."""
    mod = ck.repo.module(SERVERPROC)
    gs = mod.func('get_server')
    gp = gs.params()
    probs = []
    cmp_ = [n for n in ast.walk(gs.node) if isinstance(n, ast.Compare) and len(n.ops) == 1 and isinstance(n.ops[0], ast.Eq) and {norm_text(n.left), norm_text(n.comparators[0])} == {'server.address', gp[0] if gp else ''}]
    if not gp or not cmp_:
        probs.append('get_server does not compare the running server\'s address with the requested one')
    ck.ob(rid, gs, (gs.node.lineno, 'get_server'), not probs, '; '.join(probs) if probs else 'returns the running server for a matching address (or when no address is given: "any server in this process")')
    for g in mod.functions.values():
        ps = g.params()
        if 'token' not in ps:
            continue
        for c in [n for n in walk_shallow_func(g.node) if isinstance(n, ast.Call) and dotted(n.func) == 'get_server']:
            ok = bool(c.args) and norm_text(c.args[0]) == 'token.address' or any(k.arg == (gp[0] if gp else 'address') and norm_text(k.value) == 'token.address' for k in c.keywords)
            ck.ob(rid, g, c, ok, 'the server is looked up by the address of the token at hand' if ok else f'`{norm_text(c)}` ignores the token\'s address: inside a server process a proxy that belongs to ANOTHER manager takes the in-process shortcut against this server\'s tables (KeyError / the wrong object) — passing such a proxy to a hosted method or storing it in a hosted container fails')
