"""Size bound of an assembled batch, decided by a small relational abstract interpretation.

The batch size B is a run-time parameter (only B >= 1 is known), so the length L of the batch under construction cannot
be bounded by a number.  What the code does with L is finite, though: it creates the batch with k literal elements,
appends one element at a time, and compares L (or a counter kept in step with it) with B.  The analysis tracks, per CFG
node, the set of possible values of

        ( rel(L, B) in {'<', '==', '>'},   n - L  in {-2..2, None} )           n = the counter, if the code keeps one

and interprets creation, append, `n += 1` and every comparison `len(batch) <op> B` / `n <op> B` (either orientation, under
`not`) on the T/F edges.  Obligations: every append starts from '<' (after it L <= B) and every hand-over (yield /
return of the batch) happens in '<' or '=='.  The form of the loop (`while n < B`, `while True: ... if len(b) == B: break`,
`for _ in range(B - 1)` is not interpreted and would be reported) does not matter."""

from __future__ import annotations

import ast

from mpsa.cfg import CFG, calls_in, header_expr
from mpsa.loader import dotted, norm_text
from mpsa.match import Scope, is_name, method_of

LT, EQ, GT = '<', '==', '>'


def _shift(rel):
    """L := L + 1"""
    return {LT: {LT, EQ}, EQ: {GT}, GT: {GT}}[rel]


def _flip(op):
    return {ast.Lt: ast.Gt, ast.Gt: ast.Lt, ast.LtE: ast.GtE, ast.GtE: ast.LtE, ast.Eq: ast.Eq, ast.NotEq: ast.NotEq}.get(op)


_SAT = {ast.Lt: {LT}, ast.LtE: {LT, EQ}, ast.Eq: {EQ}, ast.NotEq: {LT, GT}, ast.GtE: {EQ, GT}, ast.Gt: {GT}}


def analyse(cfg: CFG, sc: Scope, size_attr: str, lst: str, counter: str | None):
    """returns (problems, facts) -- problems: list of (node, text)"""
    size_names = {size_attr}
    for n in cfg.nodes:
        a = n.ast
        if isinstance(a, ast.Assign) and len(a.targets) == 1 and isinstance(a.targets[0], ast.Name) and sc.canon(a.value) == size_attr:
            size_names.add(a.targets[0].id)

    def is_size(e):
        return (dotted(e) or '') in size_names or sc.canon(e) == size_attr

    def subject(e):
        """'L' for len(lst), 'N' for the counter"""
        if isinstance(e, ast.Call) and dotted(e.func) == 'len' and e.args and is_name(e.args[0], lst):
            return 'L'
        if counter and is_name(e, counter):
            return 'N'
        return None

    def test_fact(t):
        """(subject, set of rels that make the test TRUE) or None; handles `not`"""
        neg = False
        while isinstance(t, ast.UnaryOp) and isinstance(t.op, ast.Not):
            t, neg = t.operand, not neg
        if not (isinstance(t, ast.Compare) and len(t.ops) == 1):
            return None
        l, r, op = t.left, t.comparators[0], type(t.ops[0])
        if subject(l) and is_size(r):
            subj = subject(l)
        elif subject(r) and is_size(l):
            subj, op = subject(r), _flip(op)
        else:
            return None
        if op not in _SAT:
            return None
        sat = set(_SAT[op])
        return subj, ({LT, EQ, GT} - sat) if neg else sat

    def creates(a):
        if isinstance(a, ast.Assign) and len(a.targets) == 1 and is_name(a.targets[0], lst) and isinstance(a.value, (ast.List, ast.Tuple)) and not any(isinstance(e, ast.Starred) for e in a.value.elts):
            return len(a.value.elts)
        return None

    def n_appends(n):
        a = header_expr(n)
        if a is None:
            return 0
        return sum(1 for c in calls_in(a) if method_of(c)[1] == 'append' and is_name(method_of(c)[0], lst))

    def other_growth(n):
        a = header_expr(n)
        if a is None:
            return False
        for c in calls_in(a):
            r, me = method_of(c)
            if me in ('extend', 'insert', '__iadd__') and is_name(r, lst):
                return True
        return isinstance(n.ast, ast.AugAssign) and is_name(n.ast.target, lst)

    def counter_set(a):
        if counter and isinstance(a, ast.Assign) and len(a.targets) == 1 and is_name(a.targets[0], counter):
            return a.value.value if isinstance(a.value, ast.Constant) and isinstance(a.value.value, int) else 'unknown'
        return None

    def counter_inc(a):
        if counter and isinstance(a, ast.AugAssign) and is_name(a.target, counter) and isinstance(a.op, ast.Add) and isinstance(a.value, ast.Constant) and isinstance(a.value.value, int):
            return a.value.value
        return None

    problems = []
    # state at node entry: set of (rel or None (no batch yet), k_exact or None, off or None)
    #   k_exact: the exact length while it is still a known small number (needed to relate the counter's start value)
    state: dict[int, set] = {cfg.entry: {(None, None, None, None)}}
    work = [cfg.entry]
    seen_problem = set()

    def clamp(o):
        return o if o is not None and -2 <= o <= 2 else None

    def step(n, st):
        """effect of executing node n normally: returns new state tuple set (may be several)"""
        rel, k, off, nv = st  # nv: exact value of the counter while it is a known small number
        a = n.ast
        if n.kind == 'stmt':
            c = creates(a)
            if c is not None:
                rels = {LT} if c == 0 else ({LT, EQ} if c == 1 else {LT, EQ, GT})
                return {(r_, c, clamp(nv - c) if nv is not None else None, nv) for r_ in rels}
            cs = counter_set(a)
            if cs is not None:
                nv2 = cs if cs != 'unknown' else None
                return {(rel, k, clamp(nv2 - k) if (nv2 is not None and k is not None) else None, nv2)}
            ci = counter_inc(a)
            if ci is not None:
                return {(rel, k, clamp(off + ci) if off is not None else None, (nv + ci) if nv is not None and nv < 4 else None)}
            na = n_appends(n)
            if na and rel is not None:
                if other_growth(n):
                    return {(GT, None, None, nv)}
                res = {(rel, k, off, nv)}
                for _ in range(na):
                    nxt = set()
                    for r_, k_, o_, v_ in res:
                        if r_ != LT and (n.id, 'append') not in seen_problem:
                            seen_problem.add((n.id, 'append'))
                            problems.append((n, f'`{norm_text(a)[:50]}` can run when the batch already holds `{size_attr}` items (the path to it does not establish len({lst}) < {size_attr}): the batch grows beyond the configured size' + (' — with a size of 1 the first element already fills the batch' if k_ == 1 else '')))
                        for r2 in _shift(r_):
                            nxt.add((r2, (k_ + 1) if k_ is not None and k_ < 3 else None, clamp(o_ - 1) if o_ is not None else None, v_))
                    res = nxt
                return res
            if other_growth(n) and rel is not None:
                problems.append((n, f'`{norm_text(a)[:50]}` grows the batch by an unknown number of items'))
                return {(GT, None, None, nv)}
        return {(rel, k, off, nv)}

    def refine(st, fact, label):
        rel, k, off, nv = st
        if fact is None or rel is None:
            return {st}
        subj, sat = fact
        allowed = sat if label == 'T' else ({LT, EQ, GT} - sat)
        if subj == 'N':
            if off != 0:
                return {st}  # counter not known to be in step: no information about the batch
        return {st} if rel in allowed else set()

    iters = 0
    while work and iters < 20000:
        iters += 1
        nid = work.pop()
        n = cfg.nodes[nid]
        for st in list(state.get(nid, ())):
            fact = test_fact(n.ast) if n.kind == 'test' and isinstance(n.ast, ast.expr) else None
            outs = step(n, st) if n.kind != 'test' else {st}
            for e in cfg.succ[nid]:
                if e.kind == 'exc' or getattr(e, 'is_exc', False):
                    new = {st}  # the statement raised: its effect did not happen
                elif n.kind == 'test' and e.kind in ('T', 'F'):
                    new = set()
                    for o in outs:
                        new |= refine(o, fact, e.kind)
                else:
                    new = outs
                cur = state.setdefault(e.dst, set())
                add = new - cur
                if add:
                    cur |= add
                    work.append(e.dst)
    # hand-over points: yield <lst> / return <lst> / put(<lst>)
    n_hand = 0
    for n in cfg.nodes:
        a = n.ast
        v = None
        if isinstance(a, ast.Expr) and isinstance(a.value, ast.Yield):
            v = a.value.value
        elif isinstance(a, ast.Return):
            v = a.value
        if v is not None and is_name(v, lst):
            n_hand += 1
            bad = [s for s in state.get(n.id, ()) if s[0] == GT]
            if bad:
                problems.append((n, f'`{norm_text(a)[:40]}` can hand over a batch longer than `{size_attr}`'))
    return problems, {'hand_overs': n_hand, 'iterations': iters, 'size_names': sorted(size_names)}
