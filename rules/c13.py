"""C13 -- hosted objects live exactly as long as some proxy refers to them (structural clauses).

EFFECT analysis: +1 / -1 events on the server-side reference count, each +1 needing an owner
(a registered finaliser that performs the matching -1).
"""

from __future__ import annotations

import ast

from mpsa.cfg import CFG, Node, calls_in, header_expr, walk_shallow
from mpsa.flow import count_minmax, fmt_path, path_avoiding, reachable
from mpsa.loader import dotted, norm_text
from mpsa.match import Scope, is_name, is_none, kwarg, method_of, walk_deep_func, walk_shallow_func
from mpsa.report import Checker

from .common import SERVERPROC, build_cfg, make_fallible


def _inc(n: Node, which='incref'):
    """number of reference-count events of kind `which` performed by node n"""
    a = header_expr(n)
    if a is None:
        return 0
    w = 0
    for c in calls_in(a):
        r, me = method_of(c)
        d = dotted(c.func) or ''
        if me == which and r is not None and dotted(r) in ('server', 'self._server', 'obj._server'):
            w += 1
        elif d.endswith('_dispatch') and c.args and isinstance(c.args[0], ast.Constant) and c.args[0].value == which:
            w += 1
        elif d == 'dispatch' and len(c.args) >= 3 and isinstance(c.args[2], ast.Constant) and c.args[2].value == which:
            w += 1
    return w


def run(ck: Checker):
    ck.rule('C13-1', 'construct = +1 with an owner: _incref increments exactly once on both branches and registers a finaliser bound to _decref with the same token; _decref decrements exactly once on both branches (EFFECT)', minimum=2)
    ck.rule('C13-2', 'pickle = +1 in transit: every path of BaseProxy.__reduce__ increments exactly once before returning; every __reduce__ override goes through super().__reduce__() on every path', minimum=2)
    ck.rule('C13-3', 'rebuild adopts the transit reference: the rebuilt proxy is constructor-incremented (hence owns a finaliser) and compensated by exactly one decrement, on every path, independent of process state; picklers never ask for incref=False', minimum=2)
    ck.rule('C13-4', 'server bookkeeping: create() initialises the count entry before the proxy constructor runs; managed() creates through server.create; decref reaches the standard decrement', minimum=3)
    ck.rule('C13-5', 'shared memory: MemoryBlock registers a finaliser over the same SharedMemory object whose callback closes and unlinks it')
    ck.rule('C13-6', 'references die with their process: the proxy finaliser is registered with an exit priority (only those run at process exit)')
    mod = ck.repo.module(SERVERPROC)
    bp = mod.cls('BaseProxy')
    # ------------------------------------------------------------------ C13-1
    def extra(node, a):
        # the remote increment / decrement is a connection plus a request: either can fail (server gone, EMFILE, ...)
        return {'Exception'} if any((dotted(c.func) or '') in ('dispatch', '_Client', 'self._Client', 'self._dispatch') for c in calls_in(a)) else set()

    f = bp.method('_incref')
    # a failed increment must not be swallowed: the proxy would exist (and later give back) a reference it never took
    cfg = build_cfg(f, ck.repo, make_fallible(Scope(f), iters=set(), calls=set(), extra=extra))
    ck.analysed_func(f, cfg)
    res = count_minmax(cfg, cfg.entry, _inc, back='skip')
    fin = [n for n in walk_shallow_func(f.node) if isinstance(n, ast.Call) and (dotted(n.func) or '').endswith('Finalize')]
    probs = []
    v = res.get(('node', cfg.exit_return))
    if v != (1, 1):
        probs.append(f'a path through _incref increments the count {v} times')
    if len(fin) != 1:
        probs.append(f'{len(fin)} finalisers registered')
    else:
        fc = fin[0]
        cb = fc.args[1] if len(fc.args) > 1 else None
        if not (cb is not None and (dotted(cb) or norm_text(cb)).endswith('_decref')):
            probs.append(f'the finaliser callback is `{norm_text(cb) if cb is not None else None}`, not _decref')
        args = kwarg(fc, 'args')
        if not (isinstance(args, ast.Tuple) and args.elts and dotted(args.elts[0]) == 'self._token'):
            probs.append('the finaliser is not bound to this proxy\'s token')
        if not (fc.args and is_name(fc.args[0], 'self')):
            probs.append('the finaliser is not attached to the proxy object itself')
        fn = [n for n in cfg.nodes if header_expr(n) is not None and any(c is fc for c in calls_in(header_expr(n)))]
        if fn and path_avoiding(cfg, [cfg.entry], {cfg.exit_return}, avoid={fn[0].id}) is not None:
            probs.append('a path through _incref registers no finaliser: that reference is never given back')
        # the finaliser gives back what was taken: it is registered only after the increment has succeeded -- registered
        # first, a failing increment (connection refused, EMFILE) leaves a finaliser that later decrements a reference
        # this proxy never took, i.e. somebody else's (the object is destroyed under a live proxy)
        incs_ = {n.id for n in cfg.nodes if _inc(n)}
        if fn and incs_ and path_avoiding(cfg, [cfg.entry], {fn[0].id}, avoid=incs_) is not None:
            probs.append(f'the finaliser is registered (L{fn[0].lineno}) before the increment has succeeded: when the increment fails, the half-built proxy still gives back a reference — one it never took')
        # C13-6
        ep = kwarg(fc, 'exitpriority')
        ok6 = ep is not None and isinstance(ep, ast.Constant) and isinstance(ep.value, int) and not isinstance(ep.value, bool)
        ck.ob('C13-6', f, fc, ok6, f'finaliser registered with exitpriority={ep.value}: it runs when the owning process exits' if ok6 else 'the proxy finaliser has no exit priority: multiprocessing runs only prioritised finalisers at process exit, so a proxy still alive when its process ends never gives its reference back (hosted object leaks)')
    ck.ob('C13-1', f, (f.node.lineno, '_incref'), not probs, '; '.join(probs) if probs else '+1 on both branches (in-server / remote) and one finaliser → _decref(self._token, …)')
    f = bp.method('_decref')

    cfg = build_cfg(f, ck.repo, make_fallible(Scope(f), iters=set(), calls=set(), extra=extra))
    ck.analysed_func(f, cfg)
    res = count_minmax(cfg, cfg.entry, lambda n: _inc(n, 'decref'), back='skip')
    probs = []
    for term, (lo, hi) in res.items():
        if hi > 1:
            probs.append(f'a path decrements {hi} times')
        if term == ('node', cfg.exit_raise):
            probs.append('an exception can leave the finaliser')
    # a path with zero decrements is allowed only via the handled failure of the remote dispatch
    plain = build_cfg(f, ck.repo, None)
    r2 = count_minmax(plain, plain.entry, lambda n: _inc(n, 'decref'), back='skip')
    if r2.get(('node', plain.exit_return)) != (1, 1):
        probs.append(f'barring connection failures a path decrements {r2.get(("node", plain.exit_return))} times')
    ck.ob('C13-1', f, (f.node.lineno, '_decref'), not probs, '; '.join(probs) if probs else '−1 exactly once on both branches; a failed remote decref is contained')
    # ------------------------------------------------------------------ C13-2
    f = bp.method('__reduce__')
    # with the remote increment modelled as fallible: a failure leaves by the exception (pickling fails, counts stay
    # exact); a handler that lets __reduce__ return sends out a pickle that holds no reference
    cfg = build_cfg(f, ck.repo, make_fallible(Scope(f), iters=set(), calls=set(), extra=extra))
    ck.analysed_func(f, cfg)
    res = count_minmax(cfg, cfg.entry, _inc, back='skip')
    v = res.get(('node', cfg.exit_return))
    rets = [n for n in cfg.nodes if isinstance(n.ast, ast.Return)]
    incs = {n.id for n in cfg.nodes if _inc(n)}
    late = [r for r in rets if path_avoiding(cfg, [cfg.entry], {r.id}, avoid=incs) is not None]
    ok = v == (1, 1) and not late
    rb = all(isinstance(r.ast.value, ast.Tuple) and dotted(r.ast.value.elts[0]) == 'RebuildProxy' for r in rets)
    ck.ob('C13-2', f, (f.node.lineno, 'BaseProxy.__reduce__'), ok and rb, f'every path increments exactly once before one of the {len(rets)} returns of (RebuildProxy, …)' if ok and rb else f'a path through __reduce__ increments {v} times (a failed remote increment that is swallowed counts as none) / returns before incrementing / does not rebuild with RebuildProxy: the pickle in transit is not counted')
    for c in mod.classes.values():
        if c is bp or not c.has_method('__reduce__'):
            continue
        # proxy subclasses only
        bases = [b.split('.')[-1] for b in c.bases]
        if 'BaseProxy' not in bases:
            continue
        g = c.method('__reduce__')
        gcfg = build_cfg(g, ck.repo, None)
        sup = {n.id for n in gcfg.nodes if header_expr(n) is not None and any(method_of(cc)[1] == '__reduce__' and isinstance(method_of(cc)[0], ast.Call) and dotted(method_of(cc)[0].func) == 'super' for cc in calls_in(header_expr(n)))}
        p = path_avoiding(gcfg, [gcfg.entry], {gcfg.exit_return}, avoid=sup)
        ck.ob('C13-2', g, (g.node.lineno, f'{c.name}.__reduce__'), p is None and bool(sup), 'goes through super().__reduce__() on every path' if p is None and sup else 'an override of __reduce__ can return without super().__reduce__(): the pickle in transit is not counted')
    # ------------------------------------------------------------------ C13-3
    f = mod.func('RebuildProxy')
    sc = Scope(f)
    cfg = build_cfg(f, ck.repo, None)
    ck.analysed_func(f, cfg)
    probs = []
    ctor = [n for n in cfg.nodes if isinstance(n.ast, ast.Assign) and isinstance(n.ast.value, ast.Call) and is_name(n.ast.value.func, f.params()[0])]
    ck.need(ctor, f'{f.key}: constructor call not found')
    cc = ctor[0].ast.value
    inc_arg = kwarg(cc, 'incref')
    if inc_arg is None:
        # handed over inside the kwds mapping: `kwds['incref'] = incref; func(token, serializer, **kwds)`
        star = [dotted(k.value) for k in cc.keywords if k.arg is None]
        for n in walk_shallow_func(f.node):
            if isinstance(n, ast.Assign) and len(n.targets) == 1 and isinstance(n.targets[0], ast.Subscript) and dotted(n.targets[0].value) in star and isinstance(n.targets[0].slice, ast.Constant) and n.targets[0].slice.value == 'incref' and n.lineno < cc.lineno:
                inc_arg = n.value
    if inc_arg is None:
        pass  # constructor default is incref=True
    elif isinstance(inc_arg, ast.Constant):
        if inc_arg.value is not True:
            probs.append('the proxy is rebuilt with incref=False: it registers no finaliser, so the transit reference has no owner')
    elif isinstance(inc_arg, ast.Name):
        defs = [n for n in walk_shallow_func(f.node) if isinstance(n, ast.Assign) and is_name(n.targets[0], inc_arg.id)]
        for d in defs:
            v = d.value
            okdef = isinstance(v, ast.Call) and method_of(v)[1] == 'pop' and len(v.args) == 2 and isinstance(v.args[1], ast.Constant) and v.args[1].value is True
            if not okdef:
                bad = sorted({x for x in (dotted(y) for y in ast.walk(v) if isinstance(y, (ast.Name, ast.Attribute))) if x and ('current_process' in x or 'inheriting' in x)})
                probs.append(f'whether the rebuilt proxy takes (and owns) a reference depends on `{norm_text(v)[:70]}`' + (' — i.e. on process state: while a child unpickles its arguments the proxy is built without finaliser and the +1 taken by __reduce__ is never released' if bad or 'inheriting' in norm_text(v) else ''))
    # compensation: exactly one decrement on the path where the constructor incremented
    tests = [n for n in cfg.nodes if n.kind == 'test' and isinstance(n.ast, ast.Name) and inc_arg is not None and isinstance(inc_arg, ast.Name) and n.ast.id == inc_arg.id]
    dec = lambda n: _inc(n, 'decref')
    if tests:
        res = count_minmax(cfg, tests[0].id, dec, start_edges=lambda e: e.kind == 'T', back='skip')
        if res.get(('node', cfg.exit_return)) != (1, 1):
            probs.append(f'on the path where the constructor incremented, the transit reference is compensated {res.get(("node", cfg.exit_return))} times (must be exactly once)')
        resF = count_minmax(cfg, tests[0].id, dec, start_edges=lambda e: e.kind == 'F', back='skip')
        if resF.get(('node', cfg.exit_return), (0, 0)) != (0, 0):
            probs.append('a decrement happens although the constructor did not increment')
    else:
        res = count_minmax(cfg, ctor[0].id, dec, back='skip')
        if res.get(('node', cfg.exit_return)) != (1, 1):
            probs.append(f'the constructor increment is compensated {res.get(("node", cfg.exit_return))} times (must be exactly once)')
    # the decrement must come after the constructor (else the count can touch zero)
    decs = {n.id for n in cfg.nodes if dec(n)}
    if decs and path_avoiding(cfg, [cfg.entry], decs, avoid={ctor[0].id}) is not None:
        probs.append('the compensating decrement can run before the constructor increment: the count can drop to zero in between')
    ck.ob('C13-3', f, ctor[0].ast, not probs, '; '.join(probs) if probs else 'rebuilt proxy: constructor +1 (finaliser registered), then exactly one compensating −1: it owns exactly the reference taken by __reduce__, in every process state')
    # picklers never put 'incref' into the rebuild kwds
    bad = []
    for g in mod.functions.values():
        if g.name != '__reduce__':
            continue
        for n in walk_deep_func(g.node):
            if isinstance(n, ast.Assign) and isinstance(n.targets[0], ast.Subscript) and isinstance(n.targets[0].slice, ast.Constant) and n.targets[0].slice.value == 'incref':
                bad.append(f'{g.qualname} L{n.lineno}')
            if isinstance(n, ast.Dict) and any(isinstance(k, ast.Constant) and k.value == 'incref' for k in n.keys):
                bad.append(f'{g.qualname} L{n.lineno}')
    ck.ob('C13-3', bp.method('__reduce__'), (bp.method('__reduce__').node.lineno, 'rebuild kwds'), not bad, 'no __reduce__ asks the rebuild side for incref=False' if not bad else f'`incref` is put into the rebuild kwds at {bad}')
    # ------------------------------------------------------------------ C13-6
    ck.rule('C13-6', 'a reference is given back to the server it was taken from: every function that has the token (constructor, finaliser `_decref`, AutoProxy) looks the server up by `token.address`, never "whatever server runs in this process" — a proxy of manager A nested in a container hosted by manager B would otherwise send its decref to B, and A\'s object is never released (AGREE)', minimum=2)
    from .c14 import check_shortcut_address

    check_shortcut_address(ck, 'C13-6')
    ck.rule('C13-7', 'releasing the last proxy of a server leaves the thread able to obtain and use the next one: the per-thread connection the finaliser closes is removed from the cache on every path (same obligation as C14-10) — otherwise a proxy obtained afterwards refers to a live, correctly counted object and cannot reach it', minimum=1)
    from .c14 import check_closed_conn_uncached

    check_closed_conn_uncached(ck, 'C13-7')
    # ------------------------------------------------------------------ C13-4
    check_create_bookkeeping(ck, 'C13-4')
    crt8 = mod.func('Server.create')
    dels8 = []
    for x in ast.walk(crt8.node):
        if isinstance(x, ast.Call) and method_of(x)[1] in ('pop', 'popitem', 'clear') and (dotted(method_of(x)[0]) or '') in ('self.id_to_obj', 'self.id_to_refcount'):
            dels8.append(x)
        if isinstance(x, ast.Delete) and any((dotted(t.value) or '') in ('self.id_to_obj', 'self.id_to_refcount') for t in x.targets if isinstance(t, ast.Subscript)):
            dels8.append(x)
    ck.ob('C13-4', crt8, dels8[0] if dels8 else (crt8.node.lineno, 'create() removals'), not dels8, 'create() never removes a hosted object or its count' if not dels8 else f'L{dels8[0].lineno}: `{norm_text(dels8[0])[:60]}` — create() un-hosts the object when this hand-out fails, although it may be hosted already with live proxies (managed() of the same object a second time): their calls then fail with KeyError')
    # the server counts references; it never releases the resources of a hosted value itself -- a value whose count
    # reaches zero may still be owned by a hosted object that hands it out again (managed_memoryblock(self._blk)); its
    # shared memory goes when the value itself is collected (C13-5: MemoryBlock's own finaliser)
    srv_ = mod.cls('Server')
    rel = [(m_, c_) for m_ in srv_.methods() for c_ in ast.walk(m_.node) if isinstance(c_, ast.Call) and method_of(c_)[1] in ('release', 'unlink', '_finalize', 'close') and method_of(c_)[0] is not None and not (dotted(method_of(c_)[0]) or '').startswith(('self.mutex', 'self.listener', 'self.stop_event', 'conn', 'c', 'util', 'sys', 'self.condition')) and not is_name(method_of(c_)[0], 'conn')]
    rel = [(m_, c_) for m_, c_ in rel if method_of(c_)[1] in ('release', 'unlink')]
    ck.ob('C13-5', rel[0][0] if rel else srv_.method('decref'), rel[0][1] if rel else (srv_.method('decref').node.lineno, 'server-side releases'), not rel, 'no Server method releases or unlinks the resources of a hosted value' if not rel else f'{rel[0][0].qualname} L{rel[0][1].lineno}: `{norm_text(rel[0][1])}` — the server releases the resources of a hosted value when its proxy count reaches zero; a value that a hosted object keeps and hands out again (managed_memoryblock(self._blk)) loses its shared memory under its owner: the next proxy refers to a block that is gone')
    srv = mod.cls('Server')
    f = mod.func('managed')
    rets = [n for n in walk_shallow_func(f.node) if isinstance(n, ast.Return)]
    creates = [n for n in walk_shallow_func(f.node) if isinstance(n, ast.Call) and dotted(n.func) == 'server.create']
    ok = len(creates) == 1 and any(isinstance(r.value, ast.Name) for r in rets)
    ck.ob('C13-4', f, creates[0] if creates else f.node, ok, 'managed() creates the hosted object through server.create (so the returned proxy owns one reference)' if ok else 'managed() does not create through server.create')
    f = srv.method('decref')
    sup = [n for n in walk_shallow_func(f.node) if isinstance(n, ast.Call) and method_of(n)[1] == 'decref' and isinstance(method_of(n)[0], ast.Call) and dotted(method_of(n)[0].func) == 'super']
    f2 = srv.method('incref')
    inc = [n for n in walk_shallow_func(f2.node) if isinstance(n, ast.AugAssign) and isinstance(n.op, ast.Add) and isinstance(n.value, ast.Constant) and n.value.value == 1 and 'id_to_refcount' in norm_text(n.target)]
    # `d[k] = d[k] + 1` (or `1 + d[k]`) is the same increment written out
    for n in walk_shallow_func(f2.node):
        if isinstance(n, ast.Assign) and len(n.targets) == 1 and isinstance(n.targets[0], ast.Subscript) and 'id_to_refcount' in norm_text(n.targets[0]) and isinstance(n.value, ast.BinOp) and isinstance(n.value.op, ast.Add):
            ops = [n.value.left, n.value.right]
            one = [o for o in ops if isinstance(o, ast.Constant) and o.value == 1 and not isinstance(o.value, bool)]
            same = [o for o in ops if isinstance(o, ast.Subscript) and norm_text(o) == norm_text(n.targets[0])]
            if len(one) == 1 and len(same) == 1:
                inc.append(n)
    lockd = any(isinstance(w, ast.With) and dotted(w.items[0].context_expr) == 'self.mutex' and any(x in inc for b in w.body for x in ast.walk(b)) for w in walk_shallow_func(f2.node))
    ok = len(sup) == 1 and len(inc) == 1 and lockd
    ck.ob('C13-4', f, (f.node.lineno, 'Server.incref/decref'), ok, 'incref adds exactly 1 under the server mutex; decref delegates to the standard implementation (delete at zero)' if ok else 'server-side incref/decref do not add exactly one under the mutex / delegate to the standard decrement')
    # ------------------------------------------------------------------ C13-5
    mb = mod.cls('MemoryBlock')
    init = mb.method('__init__')
    probs = []
    mem = [n for n in walk_shallow_func(init.node) if isinstance(n, ast.Assign) and isinstance(n.value, ast.Call) and (dotted(n.value.func) or '').endswith('SharedMemory')]
    fin = [n for n in walk_shallow_func(init.node) if isinstance(n, ast.Call) and (dotted(n.func) or '').endswith('Finalize')]
    if len(mem) != 1 or len(fin) != 1:
        probs.append('SharedMemory creation / finaliser registration not found exactly once')
    else:
        tgt = dotted(mem[0].targets[0])
        args = kwarg(fin[0], 'args')
        if not (isinstance(args, ast.Tuple) and len(args.elts) == 1 and dotted(args.elts[0]) == tgt):
            probs.append('the finaliser is not given the SharedMemory object that was just created')
        cb = fin[0].args[1] if len(fin[0].args) > 1 else None
        cbn = (dotted(cb) or norm_text(cb)).split('.')[-1] if cb is not None else None
        if cbn is None or not mb.has_method(cbn):
            probs.append('finaliser callback not found')
        else:
            rel = mb.method(cbn)
            prm = rel.params()[0]
            calls = [method_of(n)[1] for n in walk_shallow_func(rel.node) if isinstance(n, ast.Call) and is_name(method_of(n)[0], prm)]
            if 'close' not in calls or 'unlink' not in calls:
                probs.append(f'the release callback calls {calls}: it must both close() and unlink() the block')
            elif calls.index('close') > calls.index('unlink'):
                pass
    ck.ob('C13-5', init, (init.node.lineno, 'MemoryBlock finaliser'), not probs, '; '.join(probs) if probs else 'a finaliser over the created SharedMemory closes and unlinks it when the hosted block is destroyed')
    # the release callback closes before it unlinks, and close() refuses (BufferError) while a view *derived* from the
    # block's buffer is alive: `buf` hands out the SharedMemory's own view, never a slice / memoryview made per access
    bufm = next((m for m in mb.methods() if m.name == 'buf'), None)
    if bufm is not None:
        rets = [r for r in walk_shallow_func(bufm.node) if isinstance(r, ast.Return) and r.value is not None]
        bad_ = [r for r in rets if not (isinstance(r.value, ast.Attribute) and r.value.attr == 'buf')]
        ck.ob('C13-5', bufm, rets[0] if rets else bufm.node, bool(rets) and not bad_, 'buf returns the buffer of the SharedMemory itself' if rets and not bad_ else f'`{norm_text(bad_[0].value) if bad_ else "?"}` makes a new view of the shared buffer on every access: while one of them is alive in the server process, close() in the release callback raises BufferError and unlink() is never reached — the block outlives its last reference')


def check_create_bookkeeping(ck: Checker, rid: str):
    """Server.create: object and count entry exist before the proxy is built; the entry starts at 0 and is initialised
    only if absent (the same hosted object can be wrapped again while earlier proxies still refer to it)."""
    mod = ck.repo.module(SERVERPROC)
    # ------------------------------------------------------------------ C13-4
    srv = mod.cls('Server')
    f = srv.method('create')
    cfg = build_cfg(f, ck.repo, None)
    ck.analysed_func(f, cfg)
    init = {n.id for n in cfg.nodes if isinstance(n.ast, ast.Assign) and isinstance(n.ast.targets[0], ast.Subscript) and dotted(n.ast.targets[0].value) == 'self.id_to_refcount'}
    # `self.id_to_refcount.setdefault(ident, 0)`: initialises only if absent, by construction
    setdef = {}
    for n in cfg.nodes:
        a = header_expr(n)
        for c in (calls_in(a) if a is not None else []):
            r, me = method_of(c)
            if me == 'setdefault' and r is not None and dotted(r) == 'self.id_to_refcount' and len(c.args) == 2:
                setdef[n.id] = c.args[1]
    init |= set(setdef)
    mk = [n for n in cfg.nodes if header_expr(n) is not None and any(dotted(c.func) == 'self._make_proxy' for c in calls_in(header_expr(n)))]
    ck.need(mk, f'{f.key}: proxy construction not found')
    if not init:
        ck.ob(rid, f, mk[0].ast, False, 'create() never initialises the reference-count entry: the first incref of the new proxy raises KeyError (or counts from a stale entry)')
        init = {mk[0].id}
    # the init is under `if ident not in self.id_to_refcount` : passing that test counts
    tests = {n.id for n in cfg.nodes if n.kind == 'test' and 'id_to_refcount' in norm_text(n.ast)}
    p = path_avoiding(cfg, [cfg.entry], {mk[0].id}, avoid=init | tests)
    store_obj = {n.id for n in cfg.nodes if isinstance(n.ast, ast.Assign) and isinstance(n.ast.targets[0], ast.Subscript) and dotted(n.ast.targets[0].value) == 'self.id_to_obj'}
    p2 = path_avoiding(cfg, [cfg.entry], {mk[0].id}, avoid=store_obj)
    zero = all(isinstance(v, ast.Constant) and v.value == 0 and not isinstance(v.value, bool) for v in (setdef[i] if i in setdef else getattr(cfg.nodes[i].ast, 'value', None) for i in init))
    ok = p is None and p2 is None and zero
    # ...and only if absent: the same server-side object can be wrapped again (a hosted method returning
    # managed(x) twice) while earlier proxies still hold references; resetting the count would forget them
    absent = {}
    for n in cfg.nodes:
        if n.kind == 'test' and isinstance(n.ast, ast.Compare) and len(n.ast.ops) == 1 and isinstance(n.ast.ops[0], (ast.NotIn, ast.In)) and dotted(n.ast.comparators[0]) == 'self.id_to_refcount':
            absent[n.id] = 'T' if isinstance(n.ast.ops[0], ast.NotIn) else 'F'
    for i in init:
        if i == mk[0].id or i in setdef:
            continue
        pth = path_avoiding(cfg, [cfg.entry], {i}, edge_ok=lambda e: not (e.src in absent and e.kind == absent[e.src]))
        if pth is not None:
            ok = False
            ck.ob(rid, f, cfg.nodes[i].ast, False, 'the reference count is (re)set to 0 even when an entry already exists: wrapping the same hosted object again forgets the references held by earlier proxies — dropping one proxy then destroys the object while another still refers to it')
    # the test-then-initialise of the count entry, and the registration of the object, are one region of the server mutex:
    # two threads wrapping the same hosted value for the first time at once would otherwise both find the entry absent,
    # and the later store resets the count the earlier proxy has already incremented
    from mpsa.flow import held_locks as _held

    held_ = _held(cfg, Scope(f).canon)
    unlocked = [i for i in (init | set(absent) | store_obj) if i != mk[0].id and 'self.mutex' not in held_.get(i, frozenset())]
    if unlocked:
        ok = False
        ck.ob(rid, f, cfg.nodes[unlocked[0]].ast, False, f'L{cfg.nodes[unlocked[0]].lineno}: the bookkeeping of create() (`{norm_text(cfg.nodes[unlocked[0]].ast)[:50]}`) is outside `self.mutex`: when two threads wrap the same hosted value for the first time at once, both find the count entry absent and the later one resets it — the value is disposed of while a proxy still refers to it')
    ck.ob(rid, f, mk[0].ast, ok, 'object and count entry (0) exist before the proxy constructor takes the first reference' if ok else 'the proxy can be constructed before the object / its count entry is registered (or the entry does not start at 0)')
