"""LINEAR: evaluate an expression as a*p + b over one named parameter; lower bounds from asserts."""

from __future__ import annotations

import ast

from mpsa.loader import ClassInfo, FuncInfo, dotted
from mpsa.match import enclosing_class, walk_shallow_func


def _init_assign(cls: ClassInfo, attr: str):
    """The expression assigned to self.<attr> in __init__ (single assignment), with the function."""
    if cls is None or not cls.has_method('__init__'):
        return None
    init = cls.method('__init__')
    found = [n for n in walk_shallow_func(init.node) if isinstance(n, ast.Assign) and any(dotted(t) == f'self.{attr}' for t in n.targets)]
    if len(found) != 1:
        return None
    return found[0].value, init


def linear_form(expr, func: FuncInfo, depth=0):
    """(a, b, param_name | None, param_func) such that expr == a*param + b, or None."""
    if depth > 6:
        return None
    if isinstance(expr, ast.Constant) and isinstance(expr.value, int) and not isinstance(expr.value, bool):
        return (0, expr.value, None, None)
    if isinstance(expr, ast.Name):
        if expr.id in func.params():
            return (1, 0, expr.id, func)
        # single local assignment
        found = [n for n in walk_shallow_func(func.node) if isinstance(n, ast.Assign) and len(n.targets) == 1 and isinstance(n.targets[0], ast.Name) and n.targets[0].id == expr.id]
        if len(found) == 1:
            return linear_form(found[0].value, func, depth + 1)
        return None
    if isinstance(expr, ast.Attribute) and isinstance(expr.value, ast.Name) and expr.value.id == 'self':
        cls = enclosing_class(func)
        r = _init_assign(cls, expr.attr)
        if r is None:
            return None
        return linear_form(r[0], r[1], depth + 1)
    if isinstance(expr, ast.IfExp):
        # `x if x is not None else default` / `default if x is None else x` / `x if x else default`:
        # the non-default branch has the form of x
        t = expr.test
        if isinstance(t, ast.Compare) and len(t.ops) == 1 and isinstance(t.left, ast.Name) and isinstance(t.ops[0], (ast.Is, ast.IsNot)) and isinstance(t.comparators[0], ast.Constant) and t.comparators[0].value is None:
            chosen = expr.orelse if isinstance(t.ops[0], ast.Is) else expr.body
            if isinstance(chosen, ast.Name) and chosen.id == t.left.id:
                return linear_form(chosen, func, depth + 1)
        if isinstance(t, ast.Name) and isinstance(expr.body, ast.Name) and expr.body.id == t.id:
            return linear_form(expr.body, func, depth + 1)
        return None
    if isinstance(expr, ast.BoolOp) and isinstance(expr.op, ast.Or) and len(expr.values) == 2:
        # `concurrency or 128`: the non-default branch has the form of the first operand
        return linear_form(expr.values[0], func, depth + 1)
    if isinstance(expr, ast.BinOp):
        l = linear_form(expr.left, func, depth + 1)
        r = linear_form(expr.right, func, depth + 1)
        if l is None or r is None:
            return None
        la, lb, lp, lf = l
        ra, rb, rp, rf = r
        if lp and rp and (lp != rp):
            return None
        p, pf = (lp, lf) if lp else (rp, rf)
        if isinstance(expr.op, ast.Add):
            return (la + ra, lb + rb, p, pf)
        if isinstance(expr.op, ast.Sub):
            return (la - ra, lb - rb, p, pf)
        if isinstance(expr.op, ast.Mult):
            if la == 0:
                return (lb * ra, lb * rb, p, pf)
            if ra == 0:
                return (la * rb, lb * rb, p, pf)
            return None
        return None
    return None


def param_lower_bound(func: FuncInfo, param: str):
    """Largest lower bound on `param` established by asserts in `func` (None if none)."""
    best = None
    for n in walk_shallow_func(func.node):
        if not isinstance(n, ast.Assert):
            continue
        t = n.test
        if not isinstance(t, ast.Compare):
            continue
        items = [t.left] + list(t.comparators)
        for i, op in enumerate(t.ops):
            l, r = items[i], items[i + 1]
            lb = None
            if isinstance(r, ast.Name) and r.id == param and isinstance(l, ast.Constant) and isinstance(l.value, int):
                if isinstance(op, ast.LtE):
                    lb = l.value
                elif isinstance(op, ast.Lt):
                    lb = l.value + 1
            if isinstance(l, ast.Name) and l.id == param and isinstance(r, ast.Constant) and isinstance(r.value, int):
                if isinstance(op, ast.GtE):
                    lb = r.value
                elif isinstance(op, ast.Gt):
                    lb = r.value + 1
            if lb is not None and (best is None or lb > best):
                best = lb
    return best


def linear_lower_bound(ctor_call: ast.Call, owner: FuncInfo, bound_param: str | None, assume_param_min=1):
    """Lower bound of the first argument (maxsize) of a queue constructor call.

    The property's own quantifier (capacity >= 1, maxsize >= 1) is the assumption
    `assume_param_min`, unless an assert gives a larger bound.
    """
    if not ctor_call.args:
        mk = [k.value for k in ctor_call.keywords if k.arg == 'maxsize']
        if not mk:
            return None
        e = mk[0]
    else:
        e = ctor_call.args[0]
    lf = linear_form(e, owner)
    if lf is None:
        return None
    a, b, p, pf = lf
    if p is None:
        return b
    if a < 0:
        return None
    lo = param_lower_bound(pf, p)
    lo = max(lo if lo is not None else assume_param_min, assume_param_min)
    return a * lo + b
