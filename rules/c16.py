"""C16 -- async variants give the same answers as their sync counterparts (structural clauses)."""

from __future__ import annotations

import ast

from mpsa.loader import dotted, norm_text
from mpsa.match import kwarg, walk_deep_func, walk_shallow_func
from mpsa.report import Checker

from . import fifo
from .common import SERVER, STREAMER, STREAMER_ASYNC


def run(ck: Checker):
    ck.rule('C16-1a', 'async feeder: the awaitable enqueued with an element was produced from that element in this iteration (FRESH+ORIGIN)')
    ck.rule('C16-1b', 'async feeder: exactly one hand-off per element (COUNT)')
    ck.rule('C16-1c', 'async consumer pairing: unpack order, result from that very awaitable, one yield per dequeue', minimum=3)
    ck.rule('C16-1d', 'async hand-off queue is FIFO with a single producer task and single consumer (WHO/AGREE)', minimum=2)
    outer = ck.repo.func(STREAMER, 'async_fifo_stream')
    m = fifo.discover(ck.repo, outer)
    fifo.check_pair_freshness(ck, 'C16-1a', m)
    fifo.check_one_handoff(ck, 'C16-1b', m)
    fifo.check_consumer_pairing(ck, 'C16-1c', m)
    fifo.check_spsc(ck, 'C16-1d', m)
    fifo.check_fifo_class(ck, 'C16-1d', m)
    run_siblings(ck)
    run_async_pairs(ck)
    ck.rule('C16-6', "timeouts surface the same way in the async server as in the sync one: handlers around asyncio.wait_for / Future.result(timeout) catch the class the standard library raises (not only mpservice's re-bound subclass)", minimum=2)
    from . import server
    from .common import check_std_timeout_handlers

    for name in server.SERVERS:
        s = server.discover(ck.repo, name)
        check_std_timeout_handlers(ck, 'C16-6', [m for m in s.cls.methods() if m.name in ('_enqueue', '_wait_for_result', '__aenter__', '__aexit__')])
    # a server object used for a second session behaves like the first time (the sync server does): per-run objects --
    # the asyncio.Condition binds to the event loop it is first used in -- are created on entry, not in the constructor
    from . import c11
    from .common import SERVLET

    with ck.as_rule('C16-7', 're-entry: per-run state (the admission condition, queues, notification tables) is created when the server is entered, not in __init__ (the C11-5 obligations); an asyncio.Condition made in the constructor fails in the second event loop where the sync server works', minimum=7):
        c11.check_reenter(ck, 'C11-5', ck.repo.module(SERVLET))
    # C16-4: AsyncServer.call/stream = Server.call/stream: the async server's admission and gather code are
    # instances of the same rules that are decided for the sync server under C02 / C04 / C06 / C07
    from . import server

    ck.rule('C16-4', 'AsyncServer is an instance of the server rules: record-before-send, non-recyclable ids, gather pairing and delivery (unwrap RemoteException, set_exception iff exception), re-test after wake-up, slot return, race-free resolution', minimum=10)
    s = server.discover(ck.repo, 'AsyncServer')
    server.check_record_before_send(ck, 'C16-4', s)
    server.check_id_origin(ck, 'C16-4', s)
    server.check_gather_pairing(ck, 'C16-4', s)
    server.check_delivery(ck, 'C16-4', s)
    server.check_retest(ck, 'C16-4', s)
    server.check_slot_return(ck, 'C16-4', s)
    server.check_race_free_resolution(ck, 'C16-4', s)
    ck.rule('C16-8', 'AsyncServer admits, rejects and times out like the sync server: atomic admission, a rejected request leaves no trace, single writer of the ledger, bounded wait, reject at once under backpressure, the wait of every pass of the re-check loop recomputed from the clock, one deadline per request, the timeout passed through as given (the C06-2/-3/-5/-6/-7/-8/-9/-12 obligations of AsyncServer)', minimum=7)
    server.check_atomic_admission(ck, 'C16-8', s)
    server.check_reject_traceless(ck, 'C16-8', s)
    server.check_single_writer(ck, 'C16-8', s)
    server.check_bounded_wait(ck, 'C16-8', s)
    server.check_reject_at_once(ck, 'C16-8', s)
    server.check_remaining_time(ck, 'C16-8', s)
    server.check_single_deadline(ck, 'C16-8', s)
    from .common import check_timeout_passthrough

    check_timeout_passthrough(ck, 'C16-8', [m for m in s.cls.methods() if m.name in ('call', '_enqueue', 'stream', '_wait_for_result')])


# ======================================================================================
# C16-2 sibling event language, C16-3 delegation maps
import re

from mpsa.cfg import CFG, Node, calls_in, header_expr, walk_shallow
from mpsa.flow import enumerate_paths
from mpsa.match import Scope, is_name, is_none, method_of, unwrap_await

from .common import build_cfg, find_unpack
from .fifo import consumer_fallible, consumer_loop, feeder_fallible, get_sites, input_loop, loop_var, put_sites


# cancellation of the surrounding task exists only on the async side: erased before comparing
ERASED = {'CancelledError'}


def _ev_feeder(m, cfg: CFG, x: str):
    futs = set()
    pres = set()
    for n in cfg.nodes:
        a = header_expr(n)
        if a is None:
            continue
        for c, item in put_sites(a, m.fscope, m.q):
            if isinstance(item, ast.Tuple) and len(item.elts) >= 2 and isinstance(item.elts[1], ast.Name):
                futs.add(item.elts[1].id)
        if isinstance(n.ast, ast.Assign) and isinstance(unwrap_await(n.ast.value), ast.Call) and dotted(unwrap_await(n.ast.value).func) == m.pre_param and isinstance(n.ast.targets[0], ast.Name):
            pres.add(n.ast.targets[0].id)

    # locals bound exactly once to `func(...)` (not awaited) and awaited exactly once
    awaited_locals = {}
    binds = {}
    for n in cfg.nodes:
        if n.kind == 'stmt' and isinstance(n.ast, ast.Assign) and len(n.ast.targets) == 1 and isinstance(n.ast.targets[0], ast.Name) and isinstance(n.ast.value, ast.Call) and dotted(n.ast.value.func) == m.func_param:
            binds.setdefault(n.ast.targets[0].id, []).append(n.ast.value)
    for nm, vs in binds.items():
        # one binding per branch is fine (pending copies of cleanup code aside): all bindings must be calls of func
        aw = [k for k in cfg.nodes if k.kind == 'stmt' and isinstance(k.ast, ast.Assign) and isinstance(k.ast.value, ast.Await) and is_name(k.ast.value.value, nm)]
        if aw and m.feeder.is_async:
            awaited_locals[nm] = (vs[0], aw[0].ast.targets[0].id)

    def role(e):
        if isinstance(e, ast.Name):
            if e.id == x:
                return 'x'
            if e.id in futs:
                return 'F'
            if e.id in pres:
                return 'pre'
            return e.id
        return norm_text(e)

    def ev(n: Node):
        a = n.ast
        if n.kind == 'test':
            t = a
            neg = ''
            while isinstance(t, ast.UnaryOp) and isinstance(t.op, ast.Not):
                neg = '!' if not neg else ''
                t = t.operand
            if isinstance(t, ast.Call) and method_of(t)[1] == 'is_set':
                return f'{neg}STOP?'
            if isinstance(t, ast.Compare) and dotted(t.left) == m.pre_param and is_none(t.comparators[0]):
                return 'NO_PRE?' if isinstance(t.ops[0], ast.Is) else 'HAS_PRE?'
            return f'TEST({norm_text(t)})'
        if n.kind == 'except':
            return f'CATCH({",".join(sorted(set(n.extra.get("caught") or ()) - ERASED))})'
        if n.kind == 'for':
            return 'NEXT'
        if n.kind == 'stmt':
            if isinstance(a, ast.Break):
                return 'BREAK'
            if isinstance(a, ast.Assign) and isinstance(a.targets[0], ast.Name):
                v = unwrap_await(a.value)
                tgt = role(a.targets[0])
                # `coro = func(x); t = await coro` is `t = await func(x)`: the intermediate binding is no event, the
                # await of it is the submission
                if isinstance(v, ast.Call) and dotted(v.func) == m.func_param and not isinstance(a.value, ast.Await) and a.targets[0].id in awaited_locals:
                    # the submission happens (and can fail) here; it is named after the local that receives the awaited value
                    return f'{role(ast.Name(id=awaited_locals[a.targets[0].id][1], ctx=ast.Load()))}=FUNC({role(v.args[0]) if v.args else ""})'
                if isinstance(a.value, ast.Await) and isinstance(v, ast.Name) and v.id in awaited_locals:
                    return None
                if isinstance(v, ast.Call):
                    d = dotted(v.func) or ''
                    if d == m.func_param:
                        return f'{tgt}=FUNC({role(v.args[0]) if v.args else ""})'
                    if d == m.pre_param:
                        return f'{tgt}=PRE({role(v.args[0]) if v.args else ""})'
                    if d.split('.')[-1] in ('Future', 'create_future'):
                        return f'{tgt}=NEW_FUTURE'
                return f'{tgt}=…'
            if isinstance(a, ast.Expr):
                v = unwrap_await(a.value)
                if isinstance(v, ast.Call):
                    r, me = method_of(v)
                    if me == 'set_exception':
                        return f'FAIL({role(r)})'
                    ps = put_sites(v, m.fscope, m.q)
                    if ps:
                        item = ps[0][1]
                        if isinstance(item, ast.Tuple):
                            return 'PUT(' + ','.join(role(e) for e in item.elts) + ')'
                        if is_none(item):
                            return 'PUT_END'
                        return 'PUT_EXC'
            return None
        return None

    return ev


_POLAR = {'NO_PRE?:T': 'PRE=no', 'NO_PRE?:F': 'PRE=yes', 'HAS_PRE?:T': 'PRE=yes', 'HAS_PRE?:F': 'PRE=no', 'STOP?:T': 'STOP=yes', 'STOP?:F': 'STOP=no', '!STOP?:T': 'STOP=no', '!STOP?:F': 'STOP=yes', 'IS_END?:T': 'END=yes', 'IS_END?:F': 'END=no', 'NOT_END?:T': 'END=no', 'NOT_END?:F': 'END=yes'}


def _polar(t):
    """branch outcomes are compared by meaning, not by how the test happens to be written"""
    return _POLAR.get(t, t)


def _paths(cfg: CFG, start_edges, ev, stop=None):
    out = set()
    for e0 in start_edges:
        for path in enumerate_paths(cfg, e0.dst, stop=stop, loop_unroll=0, max_paths=4000) or [[]]:
            seq = []
            nodes = [e0.dst] + [e.dst for e in path]
            edges = [e0] + list(path)
            # a path that exists only because of an erased (async-only) exception class is not compared
            if any(e.is_exc and e.data is not None and not (set(e.data) - ERASED) for e in edges):
                continue
            for i, nid in enumerate(nodes):
                t = ev(cfg.nodes[nid])
                if t is not None:
                    nxt = edges[i + 1] if i + 1 < len(edges) else None
                    if nxt is not None and cfg.nodes[nid].kind == 'test':
                        t = _polar(t + ':' + nxt.kind)
                    seq.append(t)
                    if nxt is not None and nxt.kind == 'exc':
                        seq.append('RAISES(' + ','.join(sorted(set(nxt.data or ()) - ERASED)) + ')')
            if edges and (edges[-1].src, edges[-1].dst) in cfg.back_edges:
                seq.append('→next')
            elif nodes and nodes[-1] == cfg.exit_raise:
                seq.append('→raise')
            elif nodes and nodes[-1] == cfg.exit_return:
                seq.append('→return')
            out.add(tuple(seq))
    return out


def _ev_consumer(m, cfg: CFG, loop: Node):
    zname = None
    names = {}
    for n in cfg.nodes:
        if loop.id in n.loops and n.pending is None and isinstance(n.ast, ast.Assign):
            v = unwrap_await(n.ast.value)
            if isinstance(v, ast.Call) and get_sites(v, m.oscope, m.q) and isinstance(n.ast.targets[0], ast.Name):
                zname = n.ast.targets[0].id
    unp = find_unpack(cfg, loop.id, zname, pending_none=True)
    if unp is not None and len(unp.names) >= 2 and unp.names[0] and unp.names[1]:
        names = {unp.names[0]: 'x', unp.names[1]: 'F'}
    ynames = set()

    def role(e):
        if isinstance(e, ast.Name):
            if e.id == zname:
                return 'z'
            return names.get(e.id, e.id)
        if isinstance(e, ast.Tuple):
            return '(' + ','.join(role(x) for x in e.elts) + ')'
        return norm_text(e)

    def ev(n: Node):
        a = n.ast
        if n.kind == 'test':
            if n.id == loop.id:
                return None
            t = a
            if isinstance(t, ast.Compare) and is_name(t.left, zname) and is_none(t.comparators[0]):
                return 'IS_END?' if isinstance(t.ops[0], ast.Is) else 'NOT_END?'
            if isinstance(t, ast.Call) and dotted(t.func) == 'isinstance' and is_name(t.args[0], zname):
                return 'IS_EXC?'  # which classes: C05-2 (marker protocol) decides that the test covers what the feeder forwards
            return f'FLAG({norm_text(t)})?'
        if n.kind == 'except':
            return f'CATCH({",".join(sorted(set(n.extra.get("caught") or ()) - ERASED))})'
        if n.kind == 'finally':
            return 'CLEANUP'
        if n.kind == 'stmt':
            if isinstance(a, ast.Break):
                return 'BREAK'
            if isinstance(a, ast.Raise):
                return 'RAISE(' + (role(a.exc) if a.exc is not None else '') + ')'
            if isinstance(a, ast.Assign):
                v = a.value
                if unp is not None and n.id in unp.ids:
                    # the message taken apart: one event, whether written `x, f = z` or `x = z[0]; f = z[1]`
                    return '(' + ','.join(names.get(nm, nm or '_') for nm in unp.names) + ')=z' if n.id == unp.id else None
                tgt = role(a.targets[0])
                if isinstance(v, ast.Await) and isinstance(v.value, ast.Name):
                    return f'{tgt}=RESULT({role(v.value)})'
                u = unwrap_await(v)
                if isinstance(u, ast.Call):
                    r, me = method_of(u)
                    if me == 'result':
                        return f'{tgt}=RESULT({role(r)})'
                    if get_sites(u, m.oscope, m.q):
                        return f'{tgt}=GET'
                if isinstance(u, ast.Name):
                    return f'{tgt}={role(u)}'
                return f'{tgt}=…'
            if isinstance(a, ast.Expr):
                v = a.value
                if isinstance(v, ast.Yield):
                    return f'YIELD{role(v.value) if isinstance(v.value, ast.Tuple) else "(" + role(v.value) + ")"}'
                u = unwrap_await(v)
                if isinstance(u, ast.Call):
                    r, me = method_of(u)
                    if me == 'set' and r is not None:
                        return 'SET_STOP'
                    if me == 'cancel':
                        return 'CANCEL'
                    if me == 'join':
                        return 'JOIN_FEEDER'
        return None

    return ev


def _canon_capacity(e, cls):
    d = dotted(e)
    if d and d.startswith('self.') and cls.has_method(d.split('.', 1)[1]) and any(dotted(x) == 'property' for x in cls.method(d.split('.', 1)[1]).node.decorator_list):
        f = cls.method(d.split('.', 1)[1])
        for n in ast.walk(f.node):
            if isinstance(n, ast.Return) and dotted(n.value):
                return dotted(n.value)
    return d or norm_text(e)


def run_siblings(ck: Checker):
    ck.rule('C16-2', 'sibling language: per feeder iteration, per feeder exit and per consumer iteration the async implementation performs the same abstract event sequences as the sync one (after erasing async/await and the Future class) (SIBLING)', minimum=3)
    ck.rule('C16-9', 'the sync parmap over a coroutine worker gives the answers of its siblings on every pass: its per-pass state (stop flag, event loop) is created by __iter__ (C01-12) — kept on the object, the flag set at the end of the first pass makes every later pass hang where Parmapper and AsyncParmapper deliver the full list')
    from .c01 import check_per_pass_state

    check_per_pass_state(ck, 'C16-9')
    ck.rule('C16-3', 'delegation maps: Server.stream / AsyncServer.stream and the four parmapper classes hand the same flags to fifo_stream / async_fifo_stream (AGREE)', minimum=6)
    ms = fifo.discover(ck.repo, ck.repo.func(STREAMER, 'fifo_stream'))
    ma = fifo.discover(ck.repo, ck.repo.func(STREAMER, 'async_fifo_stream'))
    lang = {}
    for tag, m in (('sync', ms), ('async', ma)):
        cfg = build_cfg(m.feeder, ck.repo, feeder_fallible(m))
        loop = input_loop(m, cfg)
        x = loop_var(loop)
        ev = _ev_feeder(m, cfg, x)
        it = _paths(cfg, [e for e in cfg.succ[loop.id] if e.kind == 'iter'], ev, stop=lambda nid, cfg=cfg, loop=loop: nid == loop.id)
        # normalise: a path ends when the loop head is reached again (next element) or at a function exit
        ex = _paths(cfg, [e for e in cfg.succ[loop.id] if e.kind in ('exhaust', 'exc')], ev)
        ocfg = build_cfg(m.outer, ck.repo, consumer_fallible(m, {'fut', 't'}))
        cl = consumer_loop(m, ocfg)
        cev = _ev_consumer(m, ocfg, cl)
        # one consumer iteration: from loop entry to the next loop head / leaving the main try
        ci = _paths(ocfg, [e for e in ocfg.succ[cl.id] if e.kind == 'T'], cev, stop=lambda nid, ocfg=ocfg, cl=cl: nid == cl.id or ocfg.nodes[nid].kind == 'finally')
        lang[tag] = {'feeder iteration': it, 'feeder exits': ex, 'consumer iteration': ci}
    for region in ('feeder iteration', 'feeder exits', 'consumer iteration'):
        a, b = lang['sync'][region], lang['async'][region]
        only_s, only_a = sorted(a - b), sorted(b - a)
        ok = not only_s and not only_a and len(a) >= 2
        detail = f'{len(a)} event sequences, identical in both implementations' if ok else 'the async implementation differs from its sync sibling: ' + '; '.join((['sync only: ' + ' · '.join(only_s[0])] if only_s else []) + (['async only: ' + ' · '.join(only_a[0])] if only_a else []))
        ck.ob('C16-2', ma.feeder if 'feeder' in region else ma.outer, (ma.outer.node.lineno, region), ok, detail)
        ck.paths_examined += len(a) + len(b)
    # cleanup: both set the stop flag on abnormal exit, cancel what is still queued, and wait for the feeder
    # (the async one additionally awaits the cancelled tasks: tabled difference)
    # -- decided by C05-3/-4/-5 on both functions; here only the delegation maps remain.
    smod = ck.repo.module(SERVER)
    maps = {}
    for cname, callee in (('Server', 'fifo_stream'), ('AsyncServer', 'async_fifo_stream')):
        cls = smod.cls(cname)
        f = cls.method('stream')
        calls = [n for n in ast.walk(f.node) if isinstance(n, ast.Call) and dotted(n.func) == callee]
        ck.need(calls, f'{f.key}: no call of {callee}')
        c = calls[0]
        mp = {k.arg: _canon_capacity(k.value, cls) for k in c.keywords if k.arg and k.arg != 'name'}
        mp['<positional>'] = [_canon_capacity(a, cls) for a in c.args]
        maps[cname] = (f, c, mp)
    a, b = maps['Server'][2], maps['AsyncServer'][2]
    diff = sorted(k for k in set(a) | set(b) if a.get(k) != b.get(k))
    want = {'return_x': 'return_x', 'return_exceptions': 'return_exceptions', 'timeout': 'timeout', 'preprocessor': 'preprocessor', 'backpressure': 'False', 'capacity': 'self._capacity', '<positional>': ['data_stream', 'self._enqueue']}
    for cname in ('Server', 'AsyncServer'):
        f, c, mp = maps[cname]
        wrong = sorted(k for k in want if mp.get(k) != want[k])
        ck.ob('C16-3', f, c, not wrong and not diff, f'stream delegates with {dict((k, v) for k, v in mp.items() if k != "<positional>")}' if not wrong and not diff else f'the two servers delegate differently / not as documented: {[(k, a.get(k), b.get(k)) for k in diff] or [(k, mp.get(k), want[k]) for k in wrong]}')
    for rel, cname, itn, callee in ((STREAMER, 'Parmapper', '__iter__', 'fifo_stream'), (STREAMER, 'ParmapperAsync', '__iter__', 'fifo_stream'), (STREAMER_ASYNC, 'AsyncParmapper', '__aiter__', 'async_fifo_stream'), (STREAMER_ASYNC, 'AsyncParmapperAsync', '__aiter__', 'async_fifo_stream')):
        cls = ck.repo.cls(rel, cname)
        f = cls.method(itn)
        calls = [n for n in ast.walk(f.node) if isinstance(n, ast.Call) and dotted(n.func) == callee]
        ck.need(calls, f'{f.key}: no call of {callee}')
        c = calls[0]
        mp = {k.arg: dotted(k.value) for k in c.keywords if k.arg}
        init = cls.method('__init__')
        stored = {dotted(n.targets[0]): dotted(n.value) for n in ast.walk(init.node) if isinstance(n, ast.Assign) and len(n.targets) == 1 and dotted(n.targets[0]) and dotted(n.value)}
        probs = []
        for flag in ('return_x', 'return_exceptions', 'preprocessor'):
            if mp.get(flag) != f'self._{flag}':
                probs.append(f'{flag} is passed as `{mp.get(flag)}`')
            if stored.get(f'self._{flag}') != flag:
                probs.append(f'__init__ stores `{stored.get(f"self._{flag}")}` as self._{flag}')
        if not (c.args and dotted(c.args[0]) == 'self._instream'):
            probs.append('the input stream is not the first argument')
        ck.ob('C16-3', f, c, not probs, '; '.join(probs) if probs else 'forwards return_x / return_exceptions / preprocessor exactly as given to the constructor')
    for rel, cname in ((STREAMER, 'Stream'), (STREAMER_ASYNC, 'AsyncStream')):
        cls = ck.repo.cls(rel, cname)
        f = cls.method('parmap')
        calls = [n for n in ast.walk(f.node) if isinstance(n, ast.Call) and is_name(n.func, 'cls')]
        ck.need(calls, f'{f.key}: streamlet construction not found')
        mp = {k.arg: dotted(k.value) for k in calls[0].keywords if k.arg}
        ok = all(mp.get(k) == k for k in ('concurrency', 'return_x', 'return_exceptions')) and any(k.arg is None for k in calls[0].keywords)
        ck.ob('C16-3', f, calls[0], ok, 'parmap passes concurrency / return_x / return_exceptions / **kwargs through unchanged' if ok else f'parmap passes {mp}')


def run_async_pairs(ck: Checker):
    """The async producer/consumer pairs end as cleanly as their sync siblings: the C05 obligations of async_fifo_stream,
    AsyncBuffer and SyncIter decided under C16."""
    from . import c05

    with ck.as_rule('C16-5', 'early stop and failure in the async variants: terminal item on every producer exit, vocabulary agreement, stop flag on every abnormal consumer exit, join safety, async driver (the C05-1..4/-6 obligations of async_fifo_stream, AsyncBuffer, SyncIter)', minimum=10):
        for p in c05.pairs(ck):
            if p.prod.is_async or p.cons.is_async:
                c05.check_terminal_item(ck, 'C05-1', p)
                c05.check_vocabulary(ck, 'C05-2', p)
                c05.check_stop_flag(ck, 'C05-3', p)
                c05.check_join_safety(ck, 'C05-4', p)
        c05.check_async_driver(ck, 'C05-6')
