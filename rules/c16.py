"""C16 -- async variants give the same answers as their sync counterparts (structural clauses)."""

from __future__ import annotations

import ast

from mpsa.loader import dotted, norm_text
from mpsa.match import kwarg, walk_deep_func, walk_shallow_func
from mpsa.report import Checker

from . import fifo
from .common import SERVER, STREAMER, STREAMER_ASYNC


def run(ck: Checker):
    ck.rule('C16-1a', 'async feeder: the awaitable enqueued with an element was produced from that element in this iteration (FRESH+ORIGIN)')
    ck.rule('C16-1b', 'async feeder: exactly one hand-off per element (COUNT)')
    ck.rule('C16-1c', 'async consumer pairing: unpack order, result from that very awaitable, one yield per dequeue', minimum=3)
    ck.rule('C16-1d', 'async hand-off queue is FIFO with a single producer task and single consumer (WHO/AGREE)', minimum=2)
    outer = ck.repo.func(STREAMER, 'async_fifo_stream')
    m = fifo.discover(ck.repo, outer)
    fifo.check_pair_freshness(ck, 'C16-1a', m)
    fifo.check_one_handoff(ck, 'C16-1b', m)
    fifo.check_consumer_pairing(ck, 'C16-1c', m)
    fifo.check_spsc(ck, 'C16-1d', m)
    fifo.check_fifo_class(ck, 'C16-1d', m)
