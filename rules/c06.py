"""C06 -- backlog never exceeds capacity; slots are always returned (structural clauses)."""

from mpsa.report import Checker

from . import server


def run(ck: Checker):
    ck.rule('C06-1', 're-test after wake-up: every path from Condition.wait (and from entry) to the ledger insert re-evaluates the capacity guard and leaves it on the not-full branch (MUSTPASS)', minimum=6)
    ck.rule('C06-2', 'atomic admission: guard evaluation and ledger insert lie in one region of the admission lock (HELD)', minimum=2)
    ck.rule('C06-3', 'a rejected request leaves no trace: no ledger store / input put on any path to `raise ServerBacklogFull` (PRECEDE)', minimum=4)
    ck.rule('C06-4', 'slot return: unconditional ledger pop per message, exactly one signal of the admission condition per popped entry, notify under the lock, gather is the only deleter (EXITS+COUNT+WHO)', minimum=8)
    ck.rule('C06-5', 'single writer: the admission function is the only place that stores into the ledger (WHO)', minimum=2)
    ck.rule('C06-6', "bounded wait: the wait for a free slot carries a timeout derived from the caller's timeout", minimum=2)
    ck.rule('C06-7', 'reject at once: with backpressure no wait on the admission condition is reachable (GUARD on the backpressure flag)', minimum=2)
    ck.rule('C06-12', 'one timeout for admission and result: the deadline stored with the request is anchored at a clock reading taken before the admission wait (PRECEDE)', minimum=1)
    ck.rule('C06-13', 'a wake-up is not wasted: a waiter woken by the per-request notify() either takes the slot, re-evaluates the capacity guard (slot taken by another caller), or passes the wake-up on before it can leave by an exception (MUSTPASS)', minimum=2)
    ck.rule('C06-8', 'time remaining: a wait inside the re-check loop is bounded by a value recomputed from the clock in that pass (FRESH)', minimum=2)
    for name in server.SERVERS:
        s = server.discover(ck.repo, name)
        server.check_retest(ck, 'C06-1', s)
        server.check_atomic_admission(ck, 'C06-2', s)
        server.check_reject_traceless(ck, 'C06-3', s)
        server.check_slot_return(ck, 'C06-4', s)
        server.check_single_writer(ck, 'C06-5', s)
        server.check_bounded_wait(ck, 'C06-6', s)
        server.check_reject_at_once(ck, 'C06-7', s)
        server.check_remaining_time(ck, 'C06-8', s)
        server.check_single_deadline(ck, 'C06-12', s)
        server.check_wakeup_not_wasted(ck, 'C06-13', s)
    ck.rule('C06-9', 'the caller\'s timeout reaches the admission wait as given: re-bound only under `is None`, never replaced through truthiness (0 is legal) (GUARD)', minimum=4)
    from .common import check_timeout_passthrough

    for name in server.SERVERS:
        s = server.discover(ck.repo, name)
        check_timeout_passthrough(ck, 'C06-9', [m for m in s.cls.methods() if m.name in ('call', '_enqueue', 'stream', '_wait_for_result')])
    # a request the ensemble never emits never comes out of the server: its ledger slot is not returned
    from . import c02

    with ck.as_rule('C06-10', 'slots are returned also through an ensemble stage: every request whose member answers are all in is emitted exactly once (the ensemble catalog obligations C02-5: one increment per answer, completion by count, emit or completion test after every recorded answer, one catalog pop per emit)', minimum=6):
        c02.check_ensemble(ck, 'C02-5')
    ck.rule('C06-14', 'the thread that returns the slots stays alive: the gather loop cannot be ended by a future that the caller cancelled concurrently (InvalidStateError handled in the loop, or resolution deferred to the event loop) nor by an id that is no longer in the ledger (the C07-1 / C07-2 obligations) — a dead gather thread returns no slot ever again', minimum=4)
    for name in server.SERVERS:
        s_ = server.discover(ck.repo, name)
        server.check_race_free_resolution(ck, 'C06-14', s_)
        server.check_unknown_id_tolerated(ck, 'C06-14', s_)
    from .c04 import check_routing_sinks as _crs

    with ck.as_rule('C06-16', 'a failed request gives its slot back through every topology: the routing threads of compound servlets hand a value to a member stage or to the user\'s switch() only when it is proven not to be an exception value (C04-3 / C02-7) — switch() raising on one ends the dispatch thread, and every later request keeps its slot for ever', minimum=3):
        _crs(ck, 'C04-3')
    ck.rule('C06-15', 'a request that was admitted gets an answer, and with it its slot back: the thread that feeds the first process stage survives an input whose pickling fails — whatever the error class — and answers that request (C04-11); a dead feeder leaves every later admitted request in the ledger for ever')
    from .c04 import check_onboarding

    check_onboarding(ck, 'C06-15')
    ck.rule('C06-11', "the admission wait's timeout becomes ServerBacklogFull: the handler around the timed wait catches the class the standard library raises, not only the module's own re-bound TimeoutError subclass", minimum=2)
    from .common import check_std_timeout_handlers

    for name in server.SERVERS:
        s = server.discover(ck.repo, name)
        check_std_timeout_handlers(ck, 'C06-11', [m for m in s.cls.methods() if m.name in ('_enqueue', '_wait_for_result', '__aenter__', '__aexit__')])
