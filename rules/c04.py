"""C04 -- a failing request fails alone, with its original error (structural clauses)."""

from __future__ import annotations

import ast

from mpsa.cfg import CFG, Node, calls_in, header_expr, walk_shallow
from mpsa.flow import assigned_names, fmt_path, path_avoiding, reachable, reaching_defs
from mpsa.guard import Guard
from mpsa.loader import FuncInfo, dotted, norm_text
from mpsa.match import Scope, is_name, is_none, kwarg, method_of, unwrap_await, walk_shallow_func
from mpsa.report import Checker

from . import server
from .c09 import clean_value, guard_cfg
from .common import SERVLET, WORKER, build_cfg, is_isinstance, make_fallible, tuple_item
from .fresh import fresh_chain


def run(ck: Checker):
    ck.rule('C04-1', 'containment: every call of per-request user code in a service loop is inside a try whose handler for Exception binds the exception as that request\'s value and stays in the loop (EXITS)', minimum=4)
    ck.rule('C04-2', 'wrapping: every value put on an output queue that may be an exception object has been wrapped in RemoteException (or already is one) on every path (GUARD)', minimum=8)
    ck.rule('C04-3', 'short-circuit: values handed to user code or to a member stage are proven neither Exception nor RemoteException; the exception path goes to the output queue and skips the stage (GUARD)', minimum=5)
    ck.rule('C04-4', 'batch failure scope: when a batched call fails, the error is fanned out over exactly the ids dequeued for this batch (FRESH)')
    ck.rule('C04-5', 'delivery: the gather thread unwraps RemoteException to the original exception and sets an exception iff the payload is a BaseException', minimum=2)
    mod = ck.repo.module(WORKER)
    smod = ck.repo.module(SERVLET)
    # ------------------------------------------------------------------ C04-1
    check_containment(ck, 'C04-1')
    # Parmapper branch of Worker.stream passes return_exceptions=True
    f = mod.func('Worker.stream')
    pm = [n for n in walk_shallow_func(f.node) if isinstance(n, ast.Call) and dotted(n.func) == 'Parmapper']
    ck.need(pm, f'{f.key}: Parmapper branch not found')
    re_ = kwarg(pm[0], 'return_exceptions')
    ok = isinstance(re_, ast.Constant) and re_.value is True
    ck.ob('C04-1', f, pm[0], ok, 'the threaded branch runs Parmapper with return_exceptions=True: a failing call yields its exception in place' if ok else 'the threaded branch of Worker.stream does not pass return_exceptions=True: one failing call aborts the stream and with it the worker')
    # ------------------------------------------------------------------ C04-2 / C04-3
    check_all_wrapping(ck, 'C04-2')
    # ensemble: a member output that is an exception is wrapped before it is stored in the result slot
    f, cfg, sc, g, slots = check_ensemble_slots(ck, 'C04-2')
    # fail_fast: with fail_fast on, a member failure is never delivered inside a "successful" result:
    # hypothesis {fail_fast is true, this member's output is a RemoteException} at the slot store; every
    # feasible path to an emit must carry the EnsembleError wrapper
    ck.rule('C04-6', 'ensemble fail_fast: under the hypothesis "fail_fast and this member failed", every feasible path from the slot store to an emit delivers a RemoteException(EnsembleError), never the plain result list (GUARD, hypothesis-driven)')
    emits = []
    for n in cfg.nodes:
        a = header_expr(n)
        if a is None:
            continue
        for c in calls_in(a):
            r, me = method_of(c)
            if me == 'put' and r is not None and sc.canon(r) == 'self._qout' and c.args:
                t = tuple_item(cfg, n, c.args[0])
                if t is not None:
                    emits.append((n, t.elts[1]))
    ff = None
    for n in walk_shallow_func(f.node):
        if isinstance(n, ast.Assign) and dotted(n.value) == 'self._fail_fast' and isinstance(n.targets[0], ast.Name):
            ff = n.targets[0].id
    ck.need(ff and emits and slots, f'{f.key}: fail_fast alias / emits not found')
    sn = slots[0]
    yv = sn.ast.value.id
    hyp = frozenset({('true', ff), ('pos', yv, 'RemoteException'), ('notnone', yv)})
    probs = []
    for en, payload in emits:
        if isinstance(payload, ast.Call) and (dotted(payload.func) or '').endswith('RemoteException'):
            continue
        # search (node, facts) from the slot store under the hypothesis
        from collections import deque

        start = [(e.dst, g._transfer_one(e, hyp)) for e in cfg.normal_succ(sn.id)]
        seen = set()
        dq = deque(x for x in start if x[1] is not None)
        hit = None
        getters = {k.id for k in cfg.nodes if isinstance(k.ast, ast.Assign) and isinstance(k.ast.value, ast.Call) and method_of(k.ast.value)[1] == 'get' and isinstance(method_of(k.ast.value)[0], ast.Name)}
        while dq and len(seen) < 20000:
            k = dq.popleft()
            if k in seen:
                continue
            seen.add(k)
            nid, d = k
            if nid == en.id:
                # payload must be a RemoteException here
                if isinstance(payload, ast.Name) and any(x[0] == 'pos' and x[1] == payload.id and x[2] == 'RemoteException' for x in d):
                    continue
                hit = nid
                break
            if nid in getters or nid in (cfg.exit_return, cfg.exit_raise):
                continue  # next message: the hypothesis is about this one
            for e in cfg.succ[nid]:
                nd = g._transfer_one(e, d)
                if nd is not None:
                    dq.append((e.dst, nd))
        if hit is not None:
            probs.append(f'with fail_fast on and this member failed, the emit at L{en.lineno} can deliver `{norm_text(payload)[:30]}` — a "successful" result that contains the member\'s RemoteException — instead of an EnsembleError')
    ck.ob('C04-6', f, sn.ast, not probs, '; '.join(probs) if probs else f'under fail_fast a failed member always leads to RemoteException(EnsembleError) at every reachable emit ({len(emits)} emit sites examined)')
    check_routing_sinks(ck, 'C04-3')
    check_worker_short_circuit(ck, 'C04-3')
    # ------------------------------------------------------------------ C04-7
    ck.rule('C04-7', 'member errors keep their identity across hops: RemoteException re-wraps every exception member of every EnsembleError it is given (the guard is not narrower than `isinstance(exc, EnsembleError)` / `isinstance(member, BaseException)`)')
    from . import c15

    rinit, rprobs = c15.nested_rewrap_problems(ck)
    ck.ob('C04-7', rinit, (rinit.node.lineno, 'EnsembleError members'), not rprobs, '; '.join(rprobs) if rprobs else 'every nested BaseException member of an EnsembleError is re-wrapped before the next hop')
    # ------------------------------------------------------------------ C04-9
    from . import c09

    with ck.as_rule('C04-9', 'an element the preprocess hook rejects never reaches call(): the hook is looked up on the worker object when the service loop starts (C09-9) — cached by Worker.__init__ it is None for a subclass that installs it after super().__init__(), the rejected element then fails in call() and, with batching, takes its whole batch with it', minimum=2):
        c09.check_preprocess_lookup(ck, 'C09-9')
    # ------------------------------------------------------------------ C04-10
    ck.rule('C04-10', 'the outcome of a call is taken apart only after it was tested not to be an exception: an index / unpack of what the user stream yielded (the one-element list of a batch of 1) is guarded by the isinstance test — an exception object is not subscriptable, the TypeError kills the worker loop and every request fails (GUARD)', minimum=1)
    check_outcome_unpack(ck, 'C04-10')
    # ------------------------------------------------------------------ C04-11
    ck.rule('C04-11', 'an input that cannot be pickled fails alone: in the thread that moves accepted inputs into the first process stage, the put that pickles the input is inside a try whose handler for Exception stays in the loop and answers that very request (its id, the wrapped error) on the output queue (EXITS+AGREE)', minimum=1)
    check_onboarding(ck, 'C04-11')
    # ------------------------------------------------------------------ C04-12
    from . import server as _server

    ck.rule('C04-12', 'every other request is still answered: the gather loop, which serves all requests, cannot be ended by one request — not by a future its caller cancelled concurrently, not by an unknown id — and every message it consumes, failed requests included, returns its slot and wakes a waiter (the C07-1 / C07-2 / C06-4 obligations)', minimum=8)
    for name_ in _server.SERVERS:
        s_ = _server.discover(ck.repo, name_)
        _server.check_race_free_resolution(ck, 'C04-12', s_)
        _server.check_unknown_id_tolerated(ck, 'C04-12', s_)
        # ... and every answered request, failed ones included, gives its slot back and wakes a waiter: a run of failing
        # requests must not leave the callers behind them waiting for admission (the C06-4 obligations)
        _server.check_slot_return(ck, 'C04-12', s_)
    # ------------------------------------------------------------------ C04-13
    # "an exception of the original type that still carries the traceback of the failure site (as text once it has crossed a
    # process boundary)": the carrier is RemoteException; its obligations (C15) are decided here as well
    from . import c15 as _c15

    with ck.as_rule('C04-13', 'the failure keeps type, arguments and the traceback text of its site across process boundaries: the RemoteException obligations C15-1..6 (text formatted from the traceback at hand, with the chain, without a frame limit; forwarded text reused; rebuild attaches it; members re-wrapped)', minimum=5):
        _c15.run(ck)
    # ------------------------------------------------------------------ C04-8
    from . import c02

    with ck.as_rule('C04-8', 'a failed member is reported for its own request exactly once: the ensemble catalog obligations C02-5 (lookup by this message\'s id, one counter increment per answer, emit or completion test after every recorded answer, one catalog pop per emit)', minimum=6):
        c02.check_ensemble(ck, 'C02-5')
    # ------------------------------------------------------------------ C04-4
    f = mod.func('Worker._start_batch')
    sc = Scope(f)
    cfg = build_cfg(f, ck.repo, make_fallible(sc))
    ck.analysed_func(f, cfg)
    fan = None
    wrap_call = None
    for n in cfg.nodes:
        if n.kind != 'for':
            continue
        for k in [k for k in cfg.nodes if n.id in k.loops]:
            for c in calls_in(header_expr(k)) if header_expr(k) is not None else []:
                if method_of(c)[1] == 'put' and c.args and isinstance(c.args[0], ast.Tuple) and len(c.args[0].elts) == 2 and isinstance(c.args[0].elts[0], ast.Name):
                    pl = c.args[0].elts[1]
                    if isinstance(pl, ast.Name) and g_pos(cfg, k, pl.id):
                        fan = (n, k, c)
                        rd = reaching_defs(cfg, pl.id, start=cfg.entry).get(k.id, frozenset())
                        wrap_call = cfg.nodes[next(iter(rd))].ast.value
                    elif isinstance(pl, ast.Call) and (dotted(pl.func) or '').endswith('RemoteException'):
                        fan = (n, k, c)
                        wrap_call = pl
    ck.need(fan is not None, f'{f.key}: error fan-out loop not found')
    ln, pn, pc = fan
    probs = fresh_chain(cfg, pn, pc.args[0].elts[0].id, sources=('self._get_input_batch',), params=set(f.params()))
    it = ln.ast.iter
    if isinstance(it, ast.Name):
        rd = reaching_defs(cfg, it.id, start=cfg.entry).get(ln.id, frozenset())
        if not rd or not all(isinstance(cfg.nodes[d].ast, ast.Assign) and isinstance(cfg.nodes[d].ast.value, ast.Call) and method_of(cfg.nodes[d].ast.value)[1] == 'get' for d in rd):
            probs.append(f'the fan-out iterates `{it.id}`, which is not (only) the id list dequeued for this batch')
    else:
        probs.append(f'the fan-out iterates `{norm_text(it)}`, not the id list of this batch')
    # what is wrapped is the failure of this batch itself -- the object the `isinstance(<outcome>, Exception)` test looked
    # at -- not a copy or a re-creation of it (which keeps type and args but has no __traceback__ / __cause__)
    def _unnot(t_):
        while isinstance(t_, ast.UnaryOp) and isinstance(t_.op, ast.Not):
            t_ = t_.operand
        return t_

    tested = [ii[0] for n_ in cfg.nodes if n_.kind == 'test' for ii in [is_isinstance(_unnot(n_.ast))] if ii and 'Exception' in ii[1]]
    # ... or through a flag: `failed = isinstance(yy, Exception)` ... `if failed:`
    tested += [ii[0] for n_ in cfg.nodes if n_.kind == 'stmt' and isinstance(n_.ast, ast.Assign) for ii in [is_isinstance(n_.ast.value)] if ii and 'Exception' in ii[1]]
    warg = wrap_call.args[0] if wrap_call is not None and wrap_call.args else None
    if not (isinstance(warg, ast.Name) and warg.id in tested):
        probs.append(f'the members of a failed batch receive `{norm_text(wrap_call)[:60]}`, which does not wrap the batch\'s own exception object `{tested[0] if tested else "?"}`: a copy / re-created exception has no traceback and no cause — a caller that gets it without a process hop sees no failure site')
    ck.ob('C04-4', f, pc, not probs, '; '.join(sorted(set(probs))) if probs else f'the error — the batch\'s own exception object, wrapped — is put once for every id in `{norm_text(it)}`, the list dequeued for this very batch')
    # ------------------------------------------------------------------ C04-5
    for name in server.SERVERS:
        server.check_delivery(ck, 'C04-5', server.discover(ck.repo, name))


def g_pos(cfg, node, var):
    """is `var` at node assigned from RemoteException(...)?"""
    rd = reaching_defs(cfg, var, start=cfg.entry).get(node.id, frozenset())
    return bool(rd) and all(isinstance(cfg.nodes[d].ast, ast.Assign) and isinstance(cfg.nodes[d].ast.value, ast.Call) and (dotted(cfg.nodes[d].ast.value.func) or '').endswith('RemoteException') for d in rd)


def check_wrapping(ck: Checker, rid: str, f: FuncInfo, out_q: set):
    """Every (uid, v) put on an output queue: on each path v is proven not to be a bare exception
    (neg Exception fact), or is a RemoteException (pos fact), or is a list of results."""
    cfg, sc, g = guard_cfg(ck, f, calls=('preprocess',))
    found = 0
    for n in cfg.nodes:
        a = header_expr(n)
        if a is None:
            continue
        for c in calls_in(a):
            r, me = method_of(c)
            if me != 'put' or r is None or sc.canon(r) not in out_q or not c.args:
                continue
            item = c.args[0]
            resolved = tuple_item(cfg, n, item)
            if resolved is not None:
                v = resolved.elts[1]
            elif isinstance(item, ast.Name) and n.loops and cfg.nodes[n.loops[-1]].kind == 'for' and is_name(cfg.nodes[n.loops[-1]].ast.target, item.id):
                # `for z in zip(uids, yy): q_out.put(z)` : results of a successful batch (yy proven non-exception)
                hn = cfg.nodes[n.loops[-1]]
                it = hn.ast.iter
                if isinstance(it, ast.Call) and dotted(it.func) == 'zip' and len(it.args) == 2 and isinstance(it.args[1], ast.Name):
                    found += 1
                    ok = g.excluded(hn.id, it.args[1].id, 'Exception')
                    ck.ob(rid, f, c, ok, f'batch results `{it.args[1].id}` are split only on the branch where the batch outcome is proven not to be an Exception' if ok else f'`{it.args[1].id}` may be an Exception when it is zipped with the ids')
                continue
            else:
                continue
            found += 1
            if isinstance(v, ast.Call) and (dotted(v.func) or '').endswith('RemoteException'):
                ck.ob(rid, f, c, True, 'the payload is wrapped in RemoteException at the put')
                continue
            if not isinstance(v, ast.Name):
                ck.ob(rid, f, c, True, f'payload `{norm_text(v)[:40]}` is not an exception-carrying variable', nontrivial=False)
                continue
            if n.loops and cfg.nodes[n.loops[-1]].kind == 'for':
                # `for u, y in zip(uids, yy): q_out.put((u, y))` : the same fan-out with the pair taken apart
                hn = cfg.nodes[n.loops[-1]]
                tg, it = hn.ast.target, hn.ast.iter
                if isinstance(tg, ast.Tuple) and isinstance(it, ast.Call) and dotted(it.func) == 'zip' and len(it.args) == len(tg.elts):
                    pos = [i for i, e in enumerate(tg.elts) if is_name(e, v.id)]
                    if len(pos) == 1 and isinstance(it.args[pos[0]], ast.Name) and v.id not in {x for m in cfg.nodes if hn.id in m.loops for x in assigned_names(m)}:
                        src = it.args[pos[0]].id
                        ok = g.excluded(hn.id, src, 'Exception')
                        ck.ob(rid, f, c, ok, f'batch results `{src}` are split only on the branch where the batch outcome is proven not to be an Exception' if ok else f'`{src}` may be an Exception when it is zipped with the ids')
                        continue
            S = g.at(n.id)
            bad = []
            for d in S:
                facts = [x for x in d if x[1] == v.id]
                is_re = any(x[0] == 'pos' and x[2] == 'RemoteException' for x in facts)
                not_exc = any(x[0] == 'neg' and cfg.lat.is_sub('Exception', x[2]) for x in facts)
                container = any(x[0] in ('container', 'derived') for x in facts)
                if not (is_re or not_exc or container):
                    bad.append(sorted(facts))
            ck.ob(rid, f, c, not bad, f'on every path `{v.id}` is a RemoteException, or proven not an Exception ({len(S)} path condition(s))' if not bad else f'`{v.id}` can reach the output queue as a bare exception object (path knowing only {bad[0]}): it loses its traceback at the next process hop and downstream stages do not short-circuit it')
    if found == 0:
        ck.ob(rid, f, (f.node.lineno, 'output puts'), False, 'no reachable put of (id, value) on the output queue: an exception value arriving at this stage cannot be short-circuited to the output')


def check_routing_sinks(ck: Checker, rid: str):
    """The routing threads of the compound servlets hand a value to a member stage / to the user's switch() only when it
    is proven neither Exception nor RemoteException (decided under C04 as short-circuit, under C02 because an
    exception raised by switch() on such a value ends the routing thread: no later request is ever answered)."""
    smod = ck.repo.module(SERVLET)
    # short circuit sinks
    for f, kind in ((smod.func('EnsembleServlet._enqueue'), 'member'), (smod.func('SwitchServlet._enqueue'), 'member')):
        cfg, sc, g = guard_cfg(ck, f, calls=())
        n3 = 0
        for n in cfg.nodes:
            a = header_expr(n)
            if a is None:
                continue
            for c in calls_in(a):
                r, me = method_of(c)
                if me == 'put' and r is not None and sc.canon(r) not in ('self._qout',) and c.args and isinstance(c.args[0], ast.Tuple) and len(c.args[0].elts) == 2 and isinstance(c.args[0].elts[1], ast.Name):
                    clean_value(ck, rid, f, cfg, g, n, c.args[0].elts[1].id, 'input forwarded to a member servlet')
                    n3 += 1
                if dotted(c.func) == 'self.switch' and c.args and isinstance(c.args[0], ast.Name):
                    clean_value(ck, rid, f, cfg, g, n, c.args[0].id, 'value handed to the user\'s switch()')
                    n3 += 1
        ck.need(n3 >= 1, f'{f.key}: no member put found')


def check_outcome_unpack(ck: Checker, rid: str):
    from .c09 import guard_cfg

    mod = ck.repo.module(WORKER)
    n_ob = 0
    for q in ('Worker._start_single', 'Worker._start_batch'):
        f = mod.func(q)
        cfg, sc, g = guard_cfg(ck, f, calls=())
        # the loop over the user stream: `for y in self.stream(...)`
        loops = [n for n in cfg.nodes if n.kind == 'for' and isinstance(n.ast.iter, ast.Call) and dotted(n.ast.iter.func) == 'self.stream' and isinstance(n.ast.target, ast.Name)]
        for ln in loops:
            y = ln.ast.target.id
            for n in cfg.nodes:
                if ln.id not in n.loops:
                    continue
                a = header_expr(n)
                if a is None:
                    continue
                uses = [x for x in ast.walk(a) if (isinstance(x, ast.Subscript) and is_name(x.value, y) and isinstance(x.ctx, ast.Load))]
                if isinstance(n.ast, ast.Assign) and isinstance(n.ast.targets[0], (ast.Tuple, ast.List)) and is_name(n.ast.value, y):
                    uses.append(n.ast.value)
                if isinstance(n.ast, ast.For) and is_name(n.ast.iter, y):
                    uses.append(n.ast.iter)
                it = n.ast.iter if n.kind == 'for' and n is not ln else None
                if it is not None and any(isinstance(x, ast.Name) and x.id == y for x in ast.walk(it)) and not uses:
                    uses.append(it)
                for u in uses:
                    S = g.at(n.id)
                    ok = bool(S) and all(any(f_[0] == 'neg' and f_[1] == y and f_[2] in ('Exception', 'BaseException') for f_ in d) or any(f_[0] == 'derived' and f_[1] == y for f_ in d) for d in S)
                    n_ob += 1
                    ck.ob(rid, f, n.ast, ok, f'`{norm_text(u)[:40]}` is reached only where `{y}` was tested not to be an exception' if ok else f'`{norm_text(u)[:40]}` takes `{y}` apart on a path where it may be an exception object (the user stream yields the exception of a failed call in place of its result): `TypeError: … is not subscriptable / iterable` ends the worker\'s service loop — the failing request times out instead of getting its error, and so does every other request')
    ck.need(n_ob >= 1, 'no unpack of a user-stream outcome found in the worker loops')


def check_onboarding(ck: Checker, rid: str):
    from .common import SERVER

    f = ck.repo.func(SERVER, '_enter_server._onboard_input')
    sc = Scope(f)

    def extra(node, a):
        # the hand-over into a process queue pickles the request: any Exception (PicklingError, AttributeError, TypeError)
        return {'Exception'} if any(method_of(c)[1] == 'put' and method_of(c)[0] is not None and sc.canon(method_of(c)[0]) in ('self._q_in',) for c in calls_in(a)) else set()

    cfg = build_cfg(f, ck.repo, make_fallible(sc, iters=set(), calls=set(), extra=extra))
    ck.analysed_func(f, cfg)
    puts = [n for n in cfg.nodes if header_expr(n) is not None and any(method_of(c)[1] == 'put' and method_of(c)[0] is not None and sc.canon(method_of(c)[0]) == 'self._q_in' for c in calls_in(header_expr(n)))]
    ck.need(puts, f'{f.key}: hand-over put not found')
    gets = [n for n in cfg.nodes if isinstance(n.ast, ast.Assign) and isinstance(n.ast.value, ast.Call) and method_of(n.ast.value)[1] == 'get' and isinstance(n.ast.targets[0], ast.Name)]
    ck.need(gets, f'{f.key}: dequeue not found')
    x = gets[0].ast.targets[0].id
    probs = []
    for pn in puts:
        for e in cfg.succ[pn.id]:
            if e.kind != 'exc':
                continue
            dst = cfg.nodes[e.dst]
            if dst.kind != 'except' or not set(pn.loops) <= set(dst.loops):
                probs.append(f'a pickling failure of `{norm_text(pn.ast)[:40]}` (L{pn.lineno}) leaves the loop: the thread dies, no later request reaches a worker — every caller times out')
                continue
            # the handler answers this request: put((x[0], RemoteException(e))) on the output queue, then goes on
            body = reachable(cfg, [dst.id], edge_ok=lambda ed: not ed.is_exc)
            answers = []
            for k in body:
                a = header_expr(cfg.nodes[k])
                for c in (calls_in(a) if a is not None else []):
                    if method_of(c)[1] == 'put' and c.args and isinstance(c.args[0], ast.Tuple) and len(c.args[0].elts) == 2:
                        uid_e, pay = c.args[0].elts
                        if isinstance(uid_e, ast.Subscript) and is_name(uid_e.value, x) and isinstance(uid_e.slice, ast.Constant) and uid_e.slice.value == 0 and isinstance(pay, ast.Call) and (dotted(pay.func) or '').endswith('RemoteException') and pay.args and is_name(pay.args[0], dst.ast.name or ''):
                            if sc.canon(method_of(c)[0]) in ('self._q_out',):
                                answers.append(k)
            if not answers:
                probs.append(f'the handler at L{dst.lineno} does not answer the request with `({x}[0], RemoteException(<the error>))` on the output queue: its caller only sees a timeout')
            if cfg.exit_raise in reachable(cfg, [dst.id], edge_ok=lambda ed: True) and any(isinstance(cfg.nodes[k].ast, ast.Raise) for k in body):
                probs.append(f'the handler at L{dst.lineno} re-raises: the thread dies')
    ck.ob(rid, f, puts[0].ast, not probs, '; '.join(sorted(set(probs))) if probs else f'a failing hand-over of `{x}` is answered to that request and the loop goes on')


def check_containment(ck: Checker, rid: str):
    """every call of per-request user code in a service loop is contained (C04-1)"""
    mod = ck.repo.module(WORKER)
    sites = [
        (mod.func('Worker.stream'), 'self.call'),
        (mod.func('Worker._start_single.get_input'), 'preprocess'),
        (mod.func('Worker._build_input_batches'), 'preprocess'),
    ]
    for f, callee in sites:
        sc = Scope(f)
        cfg = build_cfg(f, ck.repo, make_fallible(sc, iters=set(), calls={callee}, raises=frozenset({'Exception'})))
        ck.analysed_func(f, cfg)
        calls = [n for n in cfg.nodes if header_expr(n) is not None and any((dotted(c.func) or '') == callee for c in calls_in(header_expr(n)))]
        ck.need(calls, f'{f.key}: call of `{callee}` not found')
        for cn in calls:
            if not cn.loops:
                continue
            loop = cn.loops[0]  # the service loop (inner greedy-read loops may be left by `break`)
            probs = []
            outs = [e for e in cfg.succ[cn.id] if e.kind == 'exc']
            for e in outs:
                dst = cfg.nodes[e.dst]
                if dst.kind != 'except' or loop not in dst.loops:
                    probs.append(f'an Exception from `{callee}(…)` leaves the service loop: one failing request ends the worker (every later request is lost)')
                    continue
                if not dst.ast.name:
                    probs.append('the handler does not bind the exception: the request would get no outcome')
                    continue
                # the bound exception becomes this request's value: assigned to the variable that carries the result/input
                used = [k for k in cfg.nodes if k.id in reachable(cfg, [dst.id], avoid={loop}) and k.id != dst.id and header_expr(k) is not None and any(isinstance(x, ast.Name) and x.id == dst.ast.name for x in walk_shallow(header_expr(k)))]
                if not used:
                    probs.append('the caught exception is dropped: the request would get no outcome (or a wrong one)')
                # stays in the loop: no path from the handler out of the loop that avoids the loop head ... (leaving by return/raise)
                out_nodes = {k.id for k in cfg.nodes if loop not in k.loops and k.id != loop}
                next_req = {k.id for k in cfg.nodes if header_expr(k) is not None and any(method_of(c)[1] in ('get', 'get_nowait') for c in calls_in(header_expr(k)))}
                p = path_avoiding(cfg, [dst.id], out_nodes, avoid=set(cn.loops) | next_req | {k.id for k in cfg.nodes if k.extra.get('yield')})
                if p is not None and any(isinstance(cfg.nodes[x].ast, (ast.Raise, ast.Return, ast.Break)) for x in p):
                    probs.append('the handler leaves the service loop')
            if not outs:
                probs.append('no exception edge modelled')
            ck.ob(rid, f, cn.ast, not probs, '; '.join(sorted(set(probs))) if probs else f'an Exception raised by `{callee}` becomes the value of that request and the loop goes on')


def check_wrap_arguments(ck: Checker, rid: str, f: FuncInfo):
    """What is wrapped is an exception, not a wrapper: RemoteException(v) reads v's traceback; a v that already IS a
    RemoteException (an upstream failure that arrived over a thread queue, un-pickled) has none -- the constructor raises,
    inside the service loop, and the thread that serves every request dies."""
    cfg, sc, g = guard_cfg(ck, f, calls=('preprocess',))
    n_ob = 0
    for n in cfg.nodes:
        a = header_expr(n)
        if a is None:
            continue
        for c in calls_in(a):
            if (dotted(c.func) or '').endswith('RemoteException') and c.args and isinstance(c.args[0], ast.Name):
                v = c.args[0].id
                S = g.at(n.id)
                ok = bool(S) and all(any(f_[0] == 'neg' and f_[1] == v and f_[2] == 'RemoteException' for f_ in d) or any(f_[0] == 'pos' and f_[1] == v and f_[2] in ('Exception', 'BaseException') for f_ in d) or ('exc', v) in d for d in S)
                n_ob += 1
                ck.ob(rid, f, c, ok, f'`{norm_text(c)[:40]}`: `{v}` is proven an exception (not a wrapper) here' if ok else f'`{norm_text(c)[:40]}` can be reached with `{v}` already a RemoteException (an upstream failure that came over a thread queue is still the wrapper): wrapping it again raises inside the service loop — the thread dies, that request and every later one are never answered, and the server cannot shut down')
    return n_ob


def check_all_wrapping(ck: Checker, rid: str):
    """every place of the worker / servlet code that puts a request's value on an output queue"""
    mod = ck.repo.module(WORKER)
    smod = ck.repo.module(SERVLET)
    check_wrapping(ck, rid, mod.func('Worker._start_single'), out_q={'q_out'})
    check_wrapping(ck, rid, mod.func('Worker._start_single.get_input'), out_q={'q_out'})
    check_wrapping(ck, rid, mod.func('Worker._start_batch'), out_q={'q_out'})
    check_wrapping(ck, rid, mod.func('Worker._build_input_batches'), out_q={'q_out'})
    check_wrapping(ck, rid, smod.func('EnsembleServlet._enqueue'), out_q={'self._qout'})
    check_wrapping(ck, rid, smod.func('EnsembleServlet._dequeue'), out_q={'self._qout'})
    check_wrapping(ck, rid, smod.func('SwitchServlet._enqueue'), out_q={'self._qout'})
    for f_ in (mod.func('Worker._start_single'), mod.func('Worker._start_single.get_input'), mod.func('Worker._start_batch'), mod.func('Worker._build_input_batches'), smod.func('EnsembleServlet._enqueue'), smod.func('EnsembleServlet._dequeue'), smod.func('SwitchServlet._enqueue')):
        check_wrap_arguments(ck, rid, f_)


def check_worker_short_circuit(ck: Checker, rid: str):
    """What reaches the user's preprocess / call -- singly or as an element of a batch -- is a genuine input: an upstream
    failure (exception value or its RemoteException wrapper) goes to the output queue and skips the stage."""
    mod = ck.repo.module(WORKER)
    f = mod.func('Worker._start_single.get_input')
    cfg, sc, g = guard_cfg(ck, f)
    for n in cfg.nodes:
        if n.extra.get('yield'):
            yv = [k.value for k in walk_shallow(n.ast) if isinstance(k, ast.Yield)][0]
            v = yv.elts[0] if isinstance(yv, ast.List) and len(yv.elts) == 1 else yv
            if isinstance(v, ast.Name):
                clean_value(ck, rid, f, cfg, g, n, v.id, 'input handed to Worker.call')
        a = header_expr(n)
        for c in (calls_in(a) if a is not None else []):
            if dotted(c.func) == 'preprocess' and c.args and isinstance(c.args[0], ast.Name):
                clean_value(ck, rid, f, cfg, g, n, c.args[0].id, 'value handed to the user\'s preprocess()')
    f = mod.func('Worker._build_input_batches')
    cfg, sc, g = guard_cfg(ck, f)
    for n in cfg.nodes:
        a = header_expr(n)
        if a is None:
            continue
        for c in calls_in(a):
            r, me = method_of(c)
            if me == 'put' and r is not None and sc.canon(r) == 'self._batch_buffer' and c.args and isinstance(c.args[0], ast.Tuple) and isinstance(c.args[0].elts[1], ast.Name):
                clean_value(ck, rid, f, cfg, g, n, c.args[0].elts[1].id, 'input handed to a batch')
            if dotted(c.func) == 'preprocess' and c.args and isinstance(c.args[0], ast.Name):
                clean_value(ck, rid, f, cfg, g, n, c.args[0].id, 'value handed to the user\'s preprocess()')


def check_ensemble_slots(ck: Checker, rid: str):
    """what the ensemble stores in a result slot is a RemoteException or proven not an exception (a bare exception in the
    slot is not recognised as a failure by the completion step: a request that failed in every member is answered with
    the list of its errors as a *result*)"""
    smod = ck.repo.module(SERVLET)
    f = smod.func('EnsembleServlet._dequeue')
    cfg, sc, g = guard_cfg(ck, f, calls=())
    slots = [n for n in cfg.nodes if isinstance(n.ast, ast.Assign) and isinstance(n.ast.targets[0], ast.Subscript) and isinstance(n.ast.targets[0].value, ast.Subscript) and isinstance(n.ast.value, ast.Name)]
    ck.need(slots, f'{f.key}: result slot store not found')
    for sn in slots:
        v = sn.ast.value.id
        bad = None
        for d in g.at(sn.id):
            facts = [x for x in d if x[1] == v]
            if not (any(x[0] == 'pos' and x[2] == 'RemoteException' for x in facts) or any(x[0] == 'neg' and cfg.lat.is_sub('Exception', x[2]) for x in facts)):
                bad = sorted(facts)
        ck.ob(rid, f, sn.ast, bad is None, f'a member result stored in the slot is a RemoteException or proven not an exception' if bad is None else f'a member\'s failure can be stored in the result slot as a bare exception (path knowing only {bad}): fail_fast does not trigger for it and it loses its traceback when the combined result crosses a process boundary')
    return f, cfg, sc, g, slots
