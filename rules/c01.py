"""C01 -- parallel map is order-preserving and exactly-once (structural clauses)."""

from __future__ import annotations

import ast

from mpsa.cfg import calls_in, header_expr, walk_shallow
from mpsa.flow import path_avoiding, reachable
from mpsa.loader import AnchorError, dotted, norm_text
from mpsa.match import Scope, call_dotted, ctor_tags, is_name, kwarg, method_of, walk_deep_func, walk_shallow_func
from mpsa.report import Checker

from . import fifo
from .common import QUEUES, STREAMER, build_cfg


def declare(ck: Checker, p='C01'):
    ck.rule(f'{p}-1', 'pair freshness: the future enqueued with an element was produced from that element in this iteration (FRESH+ORIGIN)')
    ck.rule(f'{p}-2', 'exactly one hand-off per element on every completed iteration, none on leaving paths (COUNT)')
    ck.rule(f'{p}-3', 'consumer pairing: unpack order, result from that very future, one yield per dequeue, loop ends only on the end marker (FRESH+COUNT+AGREE)', minimum=4)
    ck.rule(f'{p}-5', 'single producer / single consumer on the hand-off queue; one feeder (WHO)')


def run(ck: Checker):
    declare(ck)
    ck.rule('C01-4', 'FIFO hand-off: SingleLane inserts and removes at opposite ends under one mutex and signals the opposite condition; queue class is FIFO (AGREE)', minimum=2)
    ck.rule('C01-6', 'submit wrapper passes the element as first argument of the user function and returns the future; the parmapper generators yield on every output of the fifo stream (ORIGIN)', minimum=6)

    outer = ck.repo.func(STREAMER, 'fifo_stream')
    m = fifo.discover(ck.repo, outer)
    fifo.check_pair_freshness(ck, 'C01-1', m)
    fifo.check_one_handoff(ck, 'C01-2', m)
    fifo.check_consumer_pairing(ck, 'C01-3', m)
    fifo.check_spsc(ck, 'C01-5', m)
    fifo.check_fifo_class(ck, 'C01-4', m)
    check_singlelane(ck, 'C01-4')
    check_submit_wrappers(ck, 'C01-6')
    ck.rule('C01-7', 'the executors of mpservice.concurrent.futures hand calls through unchanged: submit forwards fn, *args, **kwargs on both branches of loud_exception; the loud wrappers return the value and re-raise the exception (AGREE+EXITS)', minimum=4)
    check_executor_wrappers(ck, 'C01-7')
    ck.rule('C01-11', 'every keyword argument of the worker function reaches it: the submit overrides take the callable positional-only (`fn, /`), because the keyword arguments of the worker travel through `**kwargs` — a worker keyword named `fn` would otherwise collide with submit\'s own parameter and the feeder raises TypeError instead of submitting', minimum=2)
    from .common import FUTURES

    for cname in ('ThreadPoolExecutor', 'ProcessPoolExecutor'):
        sm = ck.repo.cls(FUTURES, cname).method('submit')
        a_ = sm.node.args
        named = [x.arg for x in a_.args if x.arg != 'self']  # keyword-only options (`loud_exception`) are documented parameters of submit itself
        ok11 = a_.kwarg is None or not named
        ck.ob('C01-11', sm, sm.node, ok11, 'the callable is positional-only; no named parameter can capture a keyword meant for the worker' if ok11 else f'`{cname}.submit` has the named parameter(s) {named} next to `**{a_.kwarg.arg}`: a worker keyword of that name is captured by submit (TypeError: multiple values), and the call is never made')
    ck.rule('C01-12', 'a second pass over the same parmap object gives the same outputs: what one pass of ParmapperAsync hands to its helper thread — stop flag, event loop — is created by that __iter__ (ORIGIN), not kept on the object, where the flag set at the end of the first pass ends the helper of every later pass at once', minimum=1)
    check_per_pass_state(ck, 'C01-12')
    ck.rule('C01-9', 'every element gets its call whatever the worker function does: the executor a parmapper submits to is constructed by that iteration (ORIGIN) — on a pool shared between streams a worker function that itself runs a parmap starves the outer stream of threads and no output is ever produced', minimum=2)
    from .c08 import check_private_pool

    check_private_pool(ck, 'C01-9')
    from .c08 import check_pool_size

    ck.rule('C01-10', 'an empty input gives an empty stream, a short one its elements: the pool a parmapper creates has `concurrency` workers whatever the input — a size computed from the input (min(concurrency, len(instream))) is 0 for an empty sized input, and the pool constructor raises ValueError instead (LINEAR)', minimum=2)
    check_pool_size(ck, 'C01-10')
    ck.rule('C01-8', "the feeder's own parameters do not share a keyword namespace with the worker function's keyword arguments (positional-only) — 'for any worker function' includes one with a keyword named q or to_stop", minimum=2)
    check_feeder_namespace(ck, 'C01-8')


# ----------------------------------------------------------------------
def check_singlelane(ck: Checker, rid: str):
    cls = ck.repo.cls(QUEUES, 'SingleLane')
    tags = ctor_tags(cls)
    put, get = cls.method('put'), cls.method('get')
    probs = []

    def region_ops(f):
        """(condition attr of the with-region, deque op inside it, notified attr inside it)"""
        regions = []
        for w in walk_shallow_func(f.node):
            if isinstance(w, ast.With):
                cond = dotted(w.items[0].context_expr)
                ops, notes = [], []
                for st in w.body:
                    for n in ast.walk(st):
                        if isinstance(n, ast.Call):
                            r, me = method_of(n)
                            if r is not None and dotted(r) == 'self._queue' and me in ('append', 'appendleft', 'pop', 'popleft', 'insert'):
                                ops.append(me)
                            if me in ('notify', 'notify_all') and r is not None:
                                notes.append(dotted(r))
                regions.append((cond, ops, notes))
        # ops outside any with
        outside = []
        withs = [w for w in walk_shallow_func(f.node) if isinstance(w, ast.With)]
        inside = {id(n) for w in withs for n in ast.walk(w)}
        for n in walk_shallow_func(f.node):
            if isinstance(n, ast.Call) and id(n) not in inside:
                r, me = method_of(n)
                if r is not None and dotted(r) == 'self._queue' and me in ('append', 'appendleft', 'pop', 'popleft', 'insert'):
                    outside.append(me)
        return regions, outside

    pr, pout = region_ops(put)
    gr, gout = region_ops(get)
    pops = [o for _, ops, _ in pr for o in ops]
    gops = [o for _, ops, _ in gr for o in ops]
    if pout or gout:
        probs.append(f'deque operation outside the mutex region: {pout + gout}')
    pairs_ok = (pops, gops) in ((['append'], ['popleft']), (['appendleft'], ['pop']))
    if not pairs_ok:
        probs.append(f'put uses {pops} and get uses {gops}: not opposite ends of the deque')
    # conditions share one mutex
    def cond_mutex(attr):
        t = tags.get(attr.split('.')[-1])
        if t and t[0].split('.')[-1] == 'Condition' and t[1].args:
            return dotted(t[1].args[0])
        return None

    pc = [c for c, _, _ in pr]
    gc = [c for c, _, _ in gr]
    pn = [x for _, _, ns in pr for x in ns]
    gn = [x for _, _, ns in gr for x in ns]
    if len(pc) != 1 or len(gc) != 1:
        probs.append('put/get do not have exactly one lock region each')
    else:
        mp, mg = cond_mutex(pc[0]), cond_mutex(gc[0])
        if mp is None or mp != mg:
            probs.append(f'put region `{pc[0]}` and get region `{gc[0]}` are not conditions over the same mutex ({mp} vs {mg})')
        if pn != [gc[0]]:
            probs.append(f'put notifies {pn}, expected the condition get waits on (`{gc[0]}`)')
        if gn != [pc[0]]:
            probs.append(f'get notifies {gn}, expected the condition put waits on (`{pc[0]}`)')
    # the predicates: put waits exactly when 0 < maxsize <= len(queue) (0 = unbounded), get exactly when the queue is empty;
    # decided by evaluating the test that governs each wait over representative (maxsize, length) pairs
    from mpsa.absval import UNKNOWN, eval_expr

    def wait_test(f_):
        for w in walk_shallow_func(f_.node):
            if isinstance(w, ast.If) and any(isinstance(c, ast.Call) and method_of(c)[1] == 'wait' for b in w.body for c in ast.walk(b)):
                return w.test
            if isinstance(w, ast.While) and any(isinstance(c, ast.Call) and method_of(c)[1] == 'wait' for b in w.body for c in ast.walk(b)):
                return w.test
        return None

    fullf = cls.method('full') if cls.has_method('full') else None
    full_expr = next((n.value for n in walk_shallow_func(fullf.node) if isinstance(n, ast.Return)), None) if fullf else None
    for f_, want, what in ((put, lambda m, l: m > 0 and l >= m, 'put waits iff 0 < maxsize <= len(queue)'), (get, lambda m, l: l == 0, 'get waits iff the queue is empty')):
        t = wait_test(f_)
        if t is None:
            probs.append(f'{f_.name}: the test that governs the wait was not found')
            continue
        for m_, l_ in ((0, 0), (0, 7), (3, 0), (3, 2), (3, 3), (3, 4), (1, 0), (1, 1)):
            texts = {'len(self._queue)': l_, 'self._queue': [None] * l_}
            if full_expr is not None:
                fv = eval_expr(full_expr, {'self.maxsize': m_, '__texts__': dict(texts)})
                if fv is not UNKNOWN:
                    texts['self.full()'] = fv
            v = eval_expr(t, {'self.maxsize': m_, '__texts__': texts})
            if v is UNKNOWN:
                probs.append(f'{f_.name}: the wait predicate `{norm_text(t)[:50]}` could not be evaluated')
                break
            if bool(v) != want(m_, l_):
                probs.append(f'{f_.name}: with maxsize={m_} and {l_} element(s) queued the predicate `{norm_text(t)[:50]}` is {bool(v)} ({what}): ' + ('one element more than `maxsize` is admitted — every bound built on this queue (buffer(n), capacity of parmap) is off by one' if f_ is put and not v else 'the wait discipline of the queue is broken'))
                break
    # every insertion / removal is followed by exactly one notify before the lock is left, whatever the fill level was:
    # a notify "only when the queue was full / empty before" is enough for one waiter, but the queue is also used with
    # several producer threads (requester threads of the socket client): of k blocked producers only one would ever wake
    for f_, opnames in ((put, ('append', 'appendleft')), (get, ('pop', 'popleft'))):
        cfg = build_cfg(f_, ck.repo, None)
        opn = [n for n in cfg.nodes if header_expr(n) is not None and any(method_of(c)[1] in opnames and dotted(method_of(c)[0] or ast.Name(id='')) == 'self._queue' for c in calls_in(header_expr(n)) if method_of(c)[0] is not None)]
        if not opn:
            continue
        from mpsa.flow import count_minmax

        wn = lambda n: sum(1 for c in calls_in(header_expr(n)) if method_of(c)[1] in ('notify', 'notify_all')) if header_expr(n) is not None else 0
        res = count_minmax(cfg, opn[0].id, wn, stop=lambda nid: cfg.nodes[nid].kind == 'with_exit', back='skip')
        for term, (lo, hi) in res.items():
            if term[0] == 'node' and (lo, hi) != (1, 1) and term[1] != cfg.exit_raise:
                probs.append(f'{f_.name}: after the deque operation the opposite condition is notified {lo}..{hi} times before the lock is left (must be exactly once, unconditionally): with several threads blocked on that condition a conditional notify leaves all but one of them parked for ever')
    ck.ob(rid, put, put.node.body[-1] if False else (put.node.lineno, 'SingleLane.put/get'), not probs, '; '.join(probs) if probs else f'put: {pops[0]} + notify {pn[0]} under `{pc[0]}`; get: {gops[0]} + notify {gn[0]} under `{gc[0]}`; both conditions over `{cond_mutex(pc[0])}`')


# ----------------------------------------------------------------------
def check_submit_wrappers(ck: Checker, rid: str):
    mod = ck.repo.module(STREAMER)
    # Parmapper.__iter__._work : executor.submit(self._func, x, ..., **kwargs)
    for qual, style in (('Parmapper.__iter__._work', 'submit'), ('ParmapperAsync.__iter__.func', 'threadsafe')):
        if not mod.has_func(qual):
            # the wrapper is no longer a closure of this pass: find what is handed to fifo_stream instead
            itq = qual.rsplit('.', 1)[0]
            itf = mod.func(itq)
            calls = [n for n in walk_shallow_func(itf.node) if isinstance(n, ast.Call) and dotted(n.func) == 'fifo_stream' and len(n.args) >= 2]
            ck.need(calls, f'{itf.key}: no call of fifo_stream with a submit wrapper')
            w = calls[0].args[1]
            d = dotted(w) or norm_text(w)
            ck.ob(rid, itf, calls[0], False, f'the submit wrapper handed to fifo_stream is `{d}`, not a function of this pass: what it submits to (executor / event loop) lives on the streamlet object and is shared by every pass over the same stream — ending one pass shuts down the pool another, overlapping pass is still feeding (`RuntimeError: cannot schedule new futures after shutdown` after a prefix of its outputs)')
            continue
        f = mod.func(qual)
        # ...and it submits to an executor / loop that belongs to this pass (a local of __iter__), not to state kept on self
        recv_self = [n for n in walk_shallow_func(f.node) if isinstance(n, ast.Call) and method_of(n)[1] in ('submit', 'run_coroutine_threadsafe') and method_of(n)[0] is not None and (dotted(method_of(n)[0]) or '').startswith('self.')]
        kw_self = [k for n in walk_shallow_func(f.node) if isinstance(n, ast.Call) and (dotted(n.func) or '').endswith('run_coroutine_threadsafe') for k in n.keywords if k.arg == 'loop' and (dotted(k.value) or '').startswith('self.')]
        if recv_self or kw_self:
            ck.ob(rid, f, (recv_self or [None])[0] or f.node, False, 'the wrapper submits to an executor / loop stored on the streamlet object: overlapping passes over one stream share (and shut down) each other\'s pool')
        a = f.node.args
        pos = [x.arg for x in a.posonlyargs + a.args]
        kwname = a.kwarg.arg if a.kwarg else None
        rets = [n for n in walk_shallow_func(f.node) if isinstance(n, ast.Return)]
        probs = []
        if not pos:
            probs.append('wrapper takes no positional element')
        if len(rets) != 1 or rets[0].value is None:
            probs.append('wrapper does not return the future on a single return')
        else:
            v = rets[0].value
            if isinstance(v, ast.Name):
                # `fut = executor.submit(...); return fut`
                defs = [n for n in walk_shallow_func(f.node) if isinstance(n, ast.Assign) and len(n.targets) == 1 and is_name(n.targets[0], v.id)]
                if len(defs) == 1:
                    v = defs[0].value
            if not isinstance(v, ast.Call):
                probs.append('returned value is not a call')
            elif style == 'submit':
                r, me = method_of(v)
                if me != 'submit':
                    probs.append(f'returns `{norm_text(v)[:50]}`, not executor.submit(…)')
                else:
                    if not (len(v.args) >= 2 and dotted(v.args[0]) == 'self._func'):
                        probs.append('the submitted callable is not `self._func`')
                    if not (len(v.args) >= 2 and is_name(v.args[1], pos[0])):
                        probs.append(f'the element `{pos[0]}` is not the first argument of the user function')
                    if len(v.args) > 2:
                        probs.append('extra positional arguments shift the element')
                    if kwname and not any(k.arg is None and is_name(k.value, kwname) for k in v.keywords):
                        probs.append(f'`**{kwname}` is not forwarded')
            else:
                if (dotted(v.func) or '').split('.')[-1] != 'run_coroutine_threadsafe' or not v.args or not isinstance(v.args[0], ast.Call):
                    probs.append('does not return run_coroutine_threadsafe(self._func(x, …), loop)')
                else:
                    inner = v.args[0]
                    if dotted(inner.func) != 'self._func':
                        probs.append('the coroutine is not made by `self._func`')
                    if not (inner.args and is_name(inner.args[0], pos[0])) or len(inner.args) != 1:
                        probs.append(f'the element `{pos[0]}` is not the sole positional argument of the user function')
                    if kwname and not any(k.arg is None and is_name(k.value, kwname) for k in inner.keywords):
                        probs.append(f'`**{kwname}` is not forwarded')
        ck.ob(rid, f, rets[0] if rets else f.node, not probs, '; '.join(probs) if probs else f'returns the future of `self._func({pos[0]}, **{kwname})`')
    # the four parmapper generators hand on everything the fifo stream yields: `yield from fifo_stream(...)` (or the
    # explicit loop), directly or through a local -- a stream that is built but not yielded from produces nothing
    from .common import STREAMER_ASYNC

    for rel, cname, itn, callee in ((STREAMER, 'Parmapper', '__iter__', 'fifo_stream'), (STREAMER, 'ParmapperAsync', '__iter__', 'fifo_stream'), (STREAMER_ASYNC, 'AsyncParmapper', '__aiter__', 'async_fifo_stream'), (STREAMER_ASYNC, 'AsyncParmapperAsync', '__aiter__', 'async_fifo_stream')):
        f = ck.repo.cls(rel, cname).method(itn)
        calls = [n for n in walk_shallow_func(f.node) if isinstance(n, ast.Call) and dotted(n.func) == callee]
        ck.need(calls, f'{f.key}: no call of {callee}')
        c = calls[0]
        names = {n.targets[0].id for n in walk_shallow_func(f.node) if isinstance(n, ast.Assign) and n.value is c and isinstance(n.targets[0], ast.Name)}
        ok = False
        for n in walk_shallow_func(f.node):
            if isinstance(n, ast.YieldFrom) and (n.value is c or (isinstance(n.value, ast.Name) and n.value.id in names)):
                ok = True
            if isinstance(n, ast.Return) and (n.value is c or (isinstance(n.value, ast.Name) and n.value.id in names)) and not any(isinstance(y, (ast.Yield, ast.YieldFrom)) for y in walk_shallow_func(f.node)):
                ok = True  # not a generator itself: returns the stream object
            if isinstance(n, (ast.For, ast.AsyncFor)) and (n.iter is c or (isinstance(n.iter, ast.Name) and n.iter.id in names)) and isinstance(n.target, ast.Name):
                v_ = n.target.id
                ys = [y for b in n.body for y in ast.walk(b) if isinstance(y, ast.Yield)]
                top = [b for b in n.body if isinstance(b, ast.Expr) and b.value is ys[0]] if len(ys) == 1 else []
                others = [b for b in n.body if not top or b is not top[0]]
                quiet = not any(isinstance(k, (ast.Break, ast.Continue, ast.Return, ast.Raise, ast.YieldFrom)) or (isinstance(k, ast.Name) and k.id == v_ and isinstance(k.ctx, (ast.Store, ast.Del))) for b in others for k in ast.walk(b))
                if len(ys) == 1 and is_name(ys[0].value, v_) and top and quiet:
                    ok = True  # the one yield is a statement of the loop body itself (reached in every pass); nothing else in the body leaves the pass or re-binds the element
        ck.ob(rid, f, c, ok, f'every output of {callee} is yielded on, unchanged' if ok else f'the stream built by `{callee}(…)` is not yielded from (or its outputs are altered / filtered on the way): parmap would produce nothing, or not one output per input')


def check_executor_wrappers(ck: Checker, rid: str):
    """mpservice.concurrent.futures: the drop-in executors hand the call through unchanged -- `submit` forwards the
    function, its positional and its keyword arguments on both branches of `loud_exception`; the loud wrapper returns
    `fn(*args, **kwargs)` and, having printed, re-raises the very exception (a wrapper that swallows it would turn a
    failed call into the result None)."""
    from .common import FUTURES

    mod = ck.repo.module(FUTURES)
    for cname, loud in (('ThreadPoolExecutor', '_loud_thread_function'), ('ProcessPoolExecutor', '_loud_process_function')):
        f = mod.cls(cname).method('submit')
        a = f.node.args
        pos = [x.arg for x in a.posonlyargs + a.args]
        fnp = pos[1] if len(pos) > 1 else None
        va, kw = (a.vararg.arg if a.vararg else None), (a.kwarg.arg if a.kwarg else None)
        rets = [n for n in walk_shallow_func(f.node) if isinstance(n, ast.Return)]
        probs = []
        if not (fnp and va and kw):
            probs.append('submit does not take (fn, *args, **kwargs)')
        if len(rets) < 2:
            probs.append('submit does not return the future on both branches')
        for r in rets:
            c = r.value
            if not (isinstance(c, ast.Call) and method_of(c)[1] == 'submit' and isinstance(method_of(c)[0], ast.Call) and dotted(method_of(c)[0].func) == 'super'):
                probs.append(f'L{r.lineno}: does not return super().submit(…)')
                continue
            args = list(c.args)
            if args and is_name(args[0], loud):
                args = args[1:]
            ok = len(args) == 2 and is_name(args[0], fnp) and isinstance(args[1], ast.Starred) and is_name(args[1].value, va) and any(k.arg is None and is_name(k.value, kw) for k in c.keywords) and not any(k.arg for k in c.keywords)
            if not ok:
                probs.append(f'L{r.lineno}: `{norm_text(c)[:70]}` does not forward (fn, *args, **kwargs) unchanged')
        ck.ob(rid, f, rets[0] if rets else f.node, not probs, '; '.join(probs) if probs else f'{cname}.submit forwards fn, *args, **kwargs unchanged (through `{loud}` when loud)')
        g = mod.func(loud)
        ga = g.node.args
        gp = [x.arg for x in ga.posonlyargs + ga.args]
        cfg = build_cfg(g, ck.repo, lambda node: {'Exception'} if header_expr(node) is not None and any(is_name(c.func, gp[0]) for c in calls_in(header_expr(node))) else set())
        ck.analysed_func(g, cfg)
        probs = []
        rets = [n for n in cfg.nodes if isinstance(n.ast, ast.Return)]
        if not (len(rets) == 1 and isinstance(rets[0].ast.value, ast.Call) and is_name(rets[0].ast.value.func, gp[0]) and len(rets[0].ast.value.args) == 1 and isinstance(rets[0].ast.value.args[0], ast.Starred) and any(k.arg is None for k in rets[0].ast.value.keywords)):
            probs.append('the wrapper does not return fn(*args, **kwargs)')
        # a failing call leaves the wrapper as that exception: every path from the handler ends in a bare raise
        for h in [n for n in cfg.nodes if n.kind == 'except']:
            if path_avoiding(cfg, [h.id], {cfg.exit_return}, avoid=set()) is not None:
                probs.append('after printing, the wrapper can return normally: the failed call would yield None as its result instead of raising')
            bad = [k for k in reachable(cfg, [h.id]) if isinstance(cfg.nodes[k].ast, ast.Raise) and cfg.nodes[k].ast.exc is not None]
            if bad:
                probs.append('the wrapper raises something else than the original exception')
        ck.ob(rid, g, rets[0].ast if rets else g.node, not probs, '; '.join(probs) if probs else f'`{loud}` returns the call\'s value and re-raises its exception unchanged')


def check_feeder_namespace(ck: Checker, rid: str):
    """The feeder receives the user's keyword arguments for the worker function as **kwargs; its own parameters must
    then not live in that namespace (positional-only): a worker keyword named like one of them (`q`, `to_stop`, `func`)
    would replace the hand-off queue / the stop flag or make the feeder call fail -- the feeder dies and the consumer
    waits for ever."""
    for q in ('fifo_stream', 'async_fifo_stream'):
        m = fifo.discover(ck.repo, ck.repo.func(STREAMER, q))
        a = m.feeder.node.args
        if a.kwarg is None:
            ck.ob(rid, m.feeder, m.feeder.node.name, True, 'the feeder takes no **kwargs: nothing to collide with', nontrivial=False)
            continue
        shared = [x.arg for x in a.args + a.kwonlyargs]
        ck.ob(rid, m.feeder, (m.feeder.node.lineno, f'{m.feeder.qualname} signature'), not shared, f'all own parameters of the feeder are positional-only; `**{a.kwarg.arg}` is the user\'s namespace alone' if not shared else f'the feeder\'s own parameters {shared} can be passed by keyword, in the same namespace as the user\'s `**{a.kwarg.arg}`: a worker keyword of that name (e.g. parmap(f, {shared[-1]}=1)) replaces the internal object or makes the feeder call fail — the feeder dies, the consumer hangs')


def check_per_pass_state(ck: Checker, rid: str):
    """what one pass of ParmapperAsync hands to its helper thread is created by that __iter__"""
    from mpsa.match import spawn_sites as _spawn_sites

    pa = ck.repo.cls(STREAMER, 'ParmapperAsync').method('__iter__')
    sps12 = [sp for sp in _spawn_sites(pa) if sp.kind == 'thread']
    ck.need(sps12, f'{pa.key}: helper thread not found')
    probs12 = []
    argsv = kwarg(sps12[0].call, 'args')
    for e_ in (argsv.elts if isinstance(argsv, (ast.Tuple, ast.List)) else []):
        if not isinstance(e_, ast.Name):
            probs12.append(f'`{norm_text(e_)}` handed to the helper thread is not a local of this pass')
            continue
        defs12 = [st for st in walk_shallow_func(pa.node) if isinstance(st, ast.Assign) and any(is_name(t, e_.id) for t in st.targets)]
        if len(defs12) != 1 or not isinstance(defs12[0].value, ast.Call) or any(isinstance(x, ast.Name) and x.id == 'self' for x in ast.walk(defs12[0].value)):
            probs12.append(f'`{e_.id}` handed to the helper thread is `{norm_text(defs12[0].value)[:40] if defs12 else "not bound here"}`, not an object made by this pass: state of an earlier pass (a stop flag that is already set) is carried into the next one')
    ck.ob(rid, pa, sps12[0].call, not probs12, '; '.join(probs12) if probs12 else 'stop flag and event loop of the helper thread are created by each pass')
