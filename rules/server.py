"""Rules over mpserver/_server.py shared by C02, C06, C07, C11, C16.

Anchors, by role: the *ledger* is the dict attribute whose `len()` the `backlog` property
returns; the *admission function* is the method that stores into it; the *gather function*
is the method that pops from it; the *admission condition* is the Condition object the
admission function waits on.
"""

from __future__ import annotations

import ast
from dataclasses import dataclass

from mpsa.cfg import CFG, Node, calls_in, header_expr, walk_shallow
from mpsa.flow import (
    INF,
    assigned_names,
    count_minmax,
    definitely_assigned,
    dominators,
    fmt_path,
    held_locks,
    path_avoiding,
    reachable,
    reaching_defs,
)
from mpsa.loader import AnchorError, ClassInfo, FuncInfo, Repo, dotted, norm_text
from mpsa.match import (
    Scope,
    call_dotted,
    is_name,
    is_none,
    kwarg,
    method_of,
    names_in,
    spawn_sites,
    unwrap_await,
    walk_deep_func,
    walk_shallow_func,
)
from mpsa.report import Checker

from .common import SERVER, build_cfg, find_unpack, make_fallible

SERVERS = ('Server', 'AsyncServer')


@dataclass
class Srv:
    cls: ClassInfo
    ledger: str  # canonical, e.g. 'self._uid_to_futures'
    enqueue: FuncInfo
    gather: FuncInfo
    waitres: FuncInfo
    exit: FuncInfo
    enter: FuncInfo
    cond: str  # canonical admission condition
    cap: str  # canonical capacity attribute


def discover(repo: Repo, clsname: str) -> Srv:
    mod = repo.module(SERVER)
    cls = mod.cls(clsname)
    # ledger: `backlog` returns len(self.<ledger>)
    ledger = None
    if cls.has_method('backlog'):
        for n in walk_shallow_func(cls.method('backlog').node):
            if isinstance(n, ast.Return) and isinstance(n.value, ast.Call) and dotted(n.value.func) == 'len' and n.value.args:
                ledger = dotted(n.value.args[0])
    if ledger is None:
        raise AnchorError(f'{clsname}.backlog does not return len(<ledger>)')
    cap = None
    if cls.has_method('capacity'):
        for n in walk_shallow_func(cls.method('capacity').node):
            if isinstance(n, ast.Return):
                cap = dotted(n.value)
    if cap is None:
        raise AnchorError(f'{clsname}.capacity does not return an attribute')
    enqueue = gather = None
    for f in cls.methods():
        sc = Scope(f)
        for n in walk_shallow_func(f.node):
            if isinstance(n, ast.Assign):
                for t in n.targets:
                    if isinstance(t, ast.Subscript) and sc.canon(t.value) == ledger:
                        enqueue = enqueue or f
            if isinstance(n, ast.Call):
                r, me = method_of(n)
                if me == 'pop' and r is not None and sc.canon(r) == ledger:
                    gather = gather or f
    # the gather function by role: the target of the thread kept in `self._gather_thread`
    for g in mod.functions.values():
        for n in walk_deep_func(g.node):
            if isinstance(n, ast.Assign) and any(dotted(t) == 'self._gather_thread' for t in n.targets) and isinstance(n.value, ast.Call):
                tgt = kwarg(n.value, 'target')
                if tgt is not None and dotted(tgt) and dotted(tgt).startswith('self.') and cls.has_method(dotted(tgt).split('.', 1)[1]):
                    gather = cls.method(dotted(tgt).split('.', 1)[1])
    if enqueue is None or gather is None:
        raise AnchorError(f'{clsname}: admission function / gather function not found via the ledger `{ledger}`')
    # admission condition: receiver of .wait( in the admission function
    cond = None
    sc = Scope(enqueue)
    for n in walk_shallow_func(enqueue.node):
        if isinstance(n, ast.Call):
            r, me = method_of(n)
            if me == 'wait' and r is not None:
                cond = sc.canon(r)
    if cond is None:
        raise AnchorError(f'{enqueue.key}: no Condition.wait on the admission path')
    exit_name = '__exit__' if cls.has_method('__exit__') else '__aexit__'
    enter_name = '__enter__' if cls.has_method('__enter__') else '__aenter__'
    return Srv(cls, ledger, enqueue, gather, cls.method('_wait_for_result'), cls.method(exit_name), cls.method(enter_name), cond, cap)


# ----------------------------------------------------------------------
def _snapshots(s: Srv, sc: Scope) -> dict:
    """{local name: [assignment nodes]} for locals of the admission function whose every assignment is `len(<ledger>)`"""
    cache = getattr(s, '_snap_cache', None)
    if cache is not None:
        return cache
    defs: dict = {}
    bad = set()
    for n in ast.walk(s.enqueue.node):
        if isinstance(n, ast.Assign):
            for t in n.targets:
                if isinstance(t, ast.Name):
                    v = n.value
                    if isinstance(v, ast.Call) and dotted(v.func) == 'len' and v.args and sc.canon(v.args[0]) == s.ledger:
                        defs.setdefault(t.id, []).append(n)
                    else:
                        bad.add(t.id)
        elif isinstance(n, (ast.AugAssign, ast.AnnAssign)) and isinstance(n.target, ast.Name):
            bad.add(n.target.id)
    out = {k: v for k, v in defs.items() if k not in bad}
    try:
        s._snap_cache = out
    except Exception:  # noqa: BLE001
        pass
    return out


def _guard_kind(test, sc: Scope, s: Srv):
    """'T' / 'F' = the edge label on which the server is *full*, if `test` is a correct capacity guard.
    'weak' if it compares ledger size and capacity with a wrong strictness; None otherwise."""
    neg = False
    t = test
    while isinstance(t, ast.UnaryOp) and isinstance(t.op, ast.Not):
        neg = not neg
        t = t.operand
    if not (isinstance(t, ast.Compare) and len(t.ops) == 1):
        return None
    l, r = t.left, t.comparators[0]

    snap = _snapshots(s, sc)

    def is_len(e):
        if isinstance(e, ast.Name) and e.id in snap:
            return True  # a local that only ever holds len(<ledger>): where and when it was read is decided by C06-2
        return isinstance(e, ast.Call) and dotted(e.func) == 'len' and e.args and sc.canon(e.args[0]) == s.ledger

    def is_cap(e):
        return sc.canon(e) in (s.cap, 'self.capacity')

    op = type(t.ops[0])
    if is_len(l) and is_cap(r):
        pass
    elif is_cap(l) and is_len(r):
        op = {ast.Lt: ast.Gt, ast.Gt: ast.Lt, ast.LtE: ast.GtE, ast.GtE: ast.LtE}.get(op, op)
    else:
        return None
    # now: len OP cap
    if op is ast.GtE:
        full_on = 'T'
    elif op is ast.Lt:
        full_on = 'F'
    else:
        return 'weak'
    if neg:
        full_on = 'F' if full_on == 'T' else 'T'
    return full_on


def _wait_nodes(cfg: CFG, sc: Scope, s: Srv):
    out = []
    for n in cfg.nodes:
        a = header_expr(n)
        if a is None:
            continue
        for c in calls_in(a):
            r, me = method_of(c)
            if me in ('wait', 'wait_for') and r is not None and sc.canon(r) == s.cond:
                out.append((n, c))
    return out


def _store_nodes(cfg: CFG, sc: Scope, s: Srv):
    out = []
    for n in cfg.nodes:
        if n.kind == 'stmt' and isinstance(n.ast, ast.Assign):
            for t in n.ast.targets:
                if isinstance(t, ast.Subscript) and sc.canon(t.value) == s.ledger:
                    out.append(n)
    return out


def _input_put_nodes(cfg: CFG, sc: Scope):
    """puts on the server's input side (`self._input_buffer` / `self._q_in`)."""
    out = []
    for n in cfg.nodes:
        a = header_expr(n)
        if a is None:
            continue
        for c in calls_in(a):
            r, me = method_of(c)
            if me in ('put', 'put_nowait') and r is not None and sc.canon(r) in ('self._input_buffer', 'self._q_in'):
                out.append((n, c))
    return out


def enqueue_cfg(ck: Checker, s: Srv):
    sc = Scope(s.enqueue)

    def extra(node, a):
        R = set()
        for c in calls_in(a):
            r, me = method_of(c)
            d = dotted(c.func) or ''
            if d.endswith('wait_for'):
                R.add('TimeoutError')
        return R

    cfg = build_cfg(s.enqueue, ck.repo, make_fallible(sc, iters=set(), calls=set(), extra=extra))
    ck.analysed_func(s.enqueue, cfg)
    return cfg, sc


def check_retest(ck: Checker, rid: str, s: Srv):
    """C06-1: on every path from a wait (and from entry) to the ledger insert the capacity guard is
    re-evaluated and left on its not-full branch."""
    cfg, sc = enqueue_cfg(ck, s)
    stores = _store_nodes(cfg, sc, s)
    ck.need(stores, f'{s.enqueue.key}: no ledger insert')
    guards = {}
    weak = []
    for n in cfg.nodes:
        if n.kind == 'test':
            k = _guard_kind(n.ast, sc, s)
            if k in ('T', 'F'):
                guards[n.id] = k
            elif k == 'weak':
                weak.append(n)
    for w in weak:
        ck.ob(rid, s.enqueue, w.ast, False, f'capacity guard `{norm_text(w.ast)}` has the wrong strictness: the server is full when len(ledger) >= capacity')
    ck.need(guards or weak, f'{s.enqueue.key}: no capacity guard comparing len({s.ledger}) with {s.cap}')
    store_ids = {n.id for n in stores}
    waits = _wait_nodes(cfg, sc, s)
    ck.need(waits, f'{s.enqueue.key}: no wait on the admission condition')

    def not_full_edge(e):
        # leaving a guard on its *full* branch does not count as having passed the guard
        return True

    # (a) from each wait's normal exits to the insert, a guard must be passed
    for wn, wc in waits:
        p = path_avoiding(cfg, cfg.normal_succ(wn.id), store_ids, avoid=set(guards))
        ck.ob(
            rid,
            s.enqueue,
            wn.ast,
            p is None,
            'after being woken the caller re-evaluates the capacity guard before inserting'
            if p is None
            else 'after `wait()` returns the request is inserted without re-testing the capacity: with more than one waiting caller another may have taken the freed slot (backlog can exceed capacity)',
            path=fmt_path(cfg, [wn.id] + p) if p else '',
        )
    # (b) the full branch of a guard must not reach the insert without passing a guard again
    for gid, full_on in guards.items():
        full_edges = [e for e in cfg.succ[gid] if e.kind == full_on]
        p = path_avoiding(cfg, full_edges, store_ids, avoid=set(guards))
        ck.ob(
            rid,
            s.enqueue,
            cfg.nodes[gid].ast,
            p is None,
            'the full branch of the guard leads to the insert only through another evaluation of the guard'
            if p is None
            else 'the full branch of the capacity guard reaches the ledger insert without another evaluation of the guard',
            path=fmt_path(cfg, [gid] + p) if p else '',
        )
    # (c) no path from entry to the insert that avoids every guard
    p = path_avoiding(cfg, [cfg.entry], store_ids, avoid=set(guards))
    ck.ob(rid, s.enqueue, stores[0].ast, p is None, 'every path to the insert evaluates the guard' if p is None else 'a path reaches the ledger insert without evaluating the capacity guard', path=fmt_path(cfg, p) if p else '')
    return cfg, sc, guards, stores, waits


def _notified_label(test, call):
    """label L of `test` such that leaving the test on L implies `call` (Condition.wait) returned True, or None"""
    if test is call:
        return 'T'
    if isinstance(test, ast.Await) and test.value is call:
        return 'T'
    if isinstance(test, ast.UnaryOp) and isinstance(test.op, ast.Not):
        r = _notified_label(test.operand, call)
        return {'T': 'F', 'F': 'T'}.get(r)
    if isinstance(test, ast.BoolOp):
        for v in test.values:
            if any(x is call for x in ast.walk(v)):
                r = _notified_label(v, call)
                if isinstance(test.op, ast.Or) and r == 'F':
                    return 'F'  # `a or not wait()` is false only if wait() was true
                if isinstance(test.op, ast.And) and r == 'T':
                    return 'T'  # `a and wait()` is true only if wait() was true
                return None
    return None


def check_wakeup_not_wasted(ck: Checker, rid: str, s: Srv):
    """One notify() is issued per finished request.  A waiter that was woken (wait returned true) has consumed that
    wake-up: it either takes the slot, finds the server full again (re-evaluated capacity guard: another caller took
    the slot, nothing is lost), or passes the wake-up on.  A woken waiter that leaves by an exception without having
    re-evaluated the guard leaves a free slot nobody is told about: the next waiter sleeps on an idle server."""
    cfg, sc = enqueue_cfg(ck, s)
    guards = {n.id: _guard_kind(n.ast, sc, s) for n in cfg.nodes if n.kind == 'test' and _guard_kind(n.ast, sc, s) in ('T', 'F')}  # node -> label of the *full* branch
    stores = {n.id for n in _store_nodes(cfg, sc, s)}
    waits = _wait_nodes(cfg, sc, s)
    ck.need(waits, f'{s.enqueue.key}: no wait on the admission condition')
    notifies = {n.id for n in cfg.nodes if header_expr(n) is not None and any(method_of(c)[1] in ('notify', 'notify_all') and method_of(c)[0] is not None and sc.canon(method_of(c)[0]) == s.cond for c in calls_in(header_expr(n)))}
    for wn, wc in waits:
        edges = None
        if wn.kind == 'test':
            lab = _notified_label(wn.ast, wc)
            if lab is not None:
                edges = [e for e in cfg.succ[wn.id] if e.kind == lab]
        elif wn.kind == 'stmt' and isinstance(wn.ast, ast.Assign) and len(wn.ast.targets) == 1 and isinstance(wn.ast.targets[0], ast.Name):
            ok = wn.ast.targets[0].id
            edges = []
            for t in cfg.nodes:
                if t.kind == 'test':
                    pos = t.ast
                    neg = False
                    while isinstance(pos, ast.UnaryOp) and isinstance(pos.op, ast.Not):
                        pos, neg = pos.operand, not neg
                    if isinstance(pos, ast.Name) and pos.id == ok:
                        edges += [e for e in cfg.succ[t.id] if e.kind == ('F' if neg else 'T')]
            if not edges:
                edges = None
        else:
            edges = list(cfg.normal_succ(wn.id))  # a wait whose time-out is an exception (asyncio.wait_for)
        if edges is None:
            ck.ob(rid, s.enqueue, wn.ast, True, 'the outcome of the wait is not told apart here (no obligation)')
            continue
        # finding the server full again ends the obligation (another caller took the slot); finding it not full does not:
        # the slot is there and this waiter must take it (or pass the wake-up on)
        p = path_avoiding(cfg, edges, {cfg.exit_raise}, avoid=stores | notifies, edge_ok=lambda e: not (e.src in guards and e.kind == guards[e.src]))
        ck.ob(rid, s.enqueue, wn.ast, p is None, 'a woken waiter leaves without the slot only after it found the server full again (re-evaluated capacity guard), or passes the wake-up on' if p is None else 'a waiter that was woken can leave by an exception without having found the server full again and without passing the wake-up on: the one notify() issued for the freed slot is consumed, the slot stays free and the next waiter keeps sleeping on an idle server', path=fmt_path(cfg, [wn.id] + p) if p else '')


def check_atomic_admission(ck: Checker, rid: str, s: Srv):
    """C06-2: guard evaluation and insert in one region of the admission lock."""
    cfg, sc = enqueue_cfg(ck, s)
    held = held_locks(cfg, sc.canon)
    stores = _store_nodes(cfg, sc, s)
    probs = []
    for st in stores:
        if s.cond not in held.get(st.id, frozenset()):
            probs.append(f'ledger insert at L{st.lineno} is not under `{s.cond}`')
    for n in cfg.nodes:
        if n.kind == 'test' and _guard_kind(n.ast, sc, s) in ('T', 'F'):
            if s.cond not in held.get(n.id, frozenset()):
                probs.append(f'capacity guard at L{n.lineno} is evaluated outside `{s.cond}`')
            # no release of the lock between the guard's not-full branch and the insert
            full_on = _guard_kind(n.ast, sc, s)
            nf = [e for e in cfg.succ[n.id] if e.kind != full_on and e.kind != 'exc']
            exits = {k.id for k in cfg.nodes if k.kind == 'with_exit' and sc.canon(k.ast.context_expr) == s.cond}
            between = reachable(cfg, [e.dst for e in nf], avoid=set())
            # nodes on paths nf -> store
            back = reachable(cfg, [x.id for x in stores], forward=False)
            mid = between & back
            if mid & exits:
                probs.append(f'the admission lock is released between the guard at L{n.lineno} and the insert')
    # a guard that tests a local copy of the ledger size: every read of that copy that can reach the guard is made under
    # the lock (check-then-act otherwise: another caller fills the last slot between the read and the lock), and it is
    # read again after every wait
    snap = _snapshots(s, sc)
    if snap:
        from mpsa.flow import reaching_defs as _rd

        waits = {w.id for w, _ in _wait_nodes(cfg, sc, s)}
        for n in cfg.nodes:
            if n.kind == 'test' and _guard_kind(n.ast, sc, s) in ('T', 'F'):
                for v in [x.id for x in ast.walk(n.ast) if isinstance(x, ast.Name) and x.id in snap]:
                    rd = _rd(cfg, v, start=cfg.entry).get(n.id, frozenset())
                    for d in rd:
                        if s.cond not in held.get(d, frozenset()):
                            probs.append(f'the capacity guard at L{n.lineno} tests `{v}`, a copy of the ledger size read at L{cfg.nodes[d].lineno} outside `{s.cond}`: between that read and the lock another caller can take the last slot — both are admitted, the backlog exceeds the capacity')
                    defs_ = {k.id for k in cfg.nodes if isinstance(k.ast, ast.Assign) and any(isinstance(t_, ast.Name) and t_.id == v for t_ in k.ast.targets)}
                    for w in waits:
                        if path_avoiding(cfg, cfg.normal_succ(w), {n.id}, avoid=defs_) is not None:
                            probs.append(f'after the wait at L{cfg.nodes[w].lineno} the guard at L{n.lineno} tests the old copy `{v}` again: the re-test after a wake-up sees the size from before the wait')
    ck.ob(rid, s.enqueue, stores[0].ast if stores else s.enqueue.node, not probs, '; '.join(sorted(set(probs))) if probs else f'guard and insert both inside one `{s.cond}` region')


def check_reject_traceless(ck: Checker, rid: str, s: Srv):
    """C06-3: no ledger store and no input put on any path to `raise ServerBacklogFull`."""
    cfg, sc = enqueue_cfg(ck, s)
    effects = {n.id for n in _store_nodes(cfg, sc, s)} | {n.id for n, _ in _input_put_nodes(cfg, sc)}
    raises = [n for n in cfg.nodes if isinstance(n.ast, ast.Raise) and n.ast.exc is not None and 'ServerBacklogFull' in norm_text(n.ast.exc)]
    ck.need(raises, f'{s.enqueue.key}: no `raise ServerBacklogFull`')
    for rn in raises:
        # is there a path effect -> raise ?
        p = None
        for ef in effects:
            p = path_avoiding(cfg, cfg.normal_succ(ef), {rn.id})
            if p:
                p = [ef] + p
                break
        ck.ob(rid, s.enqueue, rn.ast, p is None, 'no ledger store / input put precedes this rejection' if p is None else 'a rejected request has already been recorded or sent', path=fmt_path(cfg, p) if p else '')


def check_bounded_wait(ck: Checker, rid: str, s: Srv):
    """C06-6: the wait carries a timeout that depends on the caller's `timeout`."""
    sc = Scope(s.enqueue)
    f = s.enqueue
    params = set(f.params())
    # local def map
    defs = {}
    for n in walk_shallow_func(f.node):
        if isinstance(n, ast.Assign) and len(n.targets) == 1 and isinstance(n.targets[0], ast.Name):
            defs.setdefault(n.targets[0].id, set()).update(names_in(n.value))

    def depends(e):
        seen, todo = set(), list(names_in(e))
        while todo:
            x = todo.pop()
            if x in seen:
                continue
            seen.add(x)
            todo.extend(defs.get(x, ()))
        return seen

    found = 0
    for n in walk_shallow_func(f.node):
        if isinstance(n, ast.Call):
            r, me = method_of(n)
            if me == 'wait' and r is not None and sc.canon(r) == s.cond:
                found += 1
                targ = n.args[0] if n.args else kwarg(n, 'timeout')
                holder = n
                if targ is None:
                    # wrapped: asyncio.wait_for(cond.wait(), t)
                    for w in walk_shallow_func(f.node):
                        if isinstance(w, ast.Call) and (dotted(w.func) or '').endswith('wait_for') and w.args and unwrap_await(w.args[0]) is n:
                            targ = w.args[1] if len(w.args) > 1 else kwarg(w, 'timeout')
                            holder = w
                ok = targ is not None and not is_none(targ) and 'timeout' in depends(targ) and 'timeout' in params
                ck.ob(rid, f, holder, ok, f'wait is bounded by `{norm_text(targ)}`, which depends on the caller\'s `timeout`' if ok else 'the wait for a free slot has no bound derived from the caller\'s `timeout`')
    ck.need(found, f'{f.key}: no wait found')


CLOCKS = ('perf_counter', 'monotonic', 'time', 'perf_counter_ns', 'monotonic_ns')


def _has_clock(e) -> bool:
    return any(isinstance(c, ast.Call) and (dotted(c.func) or '').split('.')[-1] in CLOCKS for c in ast.walk(e))


def check_remaining_time(ck: Checker, rid: str, s: Srv):
    """A wait inside the re-check loop is bounded by the time that *remains*: its timeout is computed in the
    same iteration from a fresh clock reading.  A constant bound (`timeout * 0.99`) would start a full-length
    wait after every wake-up that lost the race for the freed slot: the caller waits far beyond its timeout."""
    cfg, sc = enqueue_cfg(ck, s)
    for wn, wc in _wait_nodes(cfg, sc, s):
        if not wn.loops:
            continue  # C06-1 reports a wait that is not re-checked in a loop
        L = wn.loops[-1]
        targ = None
        a = header_expr(wn)
        for c in calls_in(a):
            r, me = method_of(c)
            if me == 'wait' and r is not None and sc.canon(r) == s.cond:
                targ = c.args[0] if c.args else kwarg(c, 'timeout')
            if (dotted(c.func) or '').endswith('wait_for') and c is not wc and len(c.args) > 1:
                targ = targ or c.args[1]
            if (dotted(c.func) or '').endswith('wait_for') and kwarg(c, 'timeout') is not None:
                targ = targ or kwarg(c, 'timeout')
        if targ is None or is_none(targ):
            ck.ob(rid, s.enqueue, wn.ast, False, 'the wait inside the re-check loop has no timeout at all')
            continue

        def fresh(e, seen=()):
            if _has_clock(e):
                return True
            for nm in names_in(e):
                if nm in seen:
                    continue
                rd = reaching_defs(cfg, nm, start=L, cut_back_edges_to=L).get(wn.id, frozenset())
                for d in rd:
                    dn = cfg.nodes[d]
                    if L in dn.loops and dn.kind == 'stmt' and isinstance(dn.ast, ast.Assign) and fresh(dn.ast.value, seen + (nm,)):
                        return True
            return False

        ok = fresh(targ)
        wallclock = [c for n_ in cfg.nodes if L in n_.loops or True for c in (calls_in(header_expr(n_)) if header_expr(n_) is not None else []) if (dotted(c.func) or '') in ('time.time', 'time', 'datetime.now', 'datetime.datetime.now')]
        if ok and wallclock:
            ck.ob(rid, s.enqueue, wallclock[0], False, f'`{norm_text(wallclock[0])}`: the admission wait is measured with the wall clock; a step of the system time makes a caller wait far beyond (or give up long before) its timeout — use a monotonic clock')
            continue
        ck.ob(rid, s.enqueue, wn.ast, ok, f'the wait is bounded by `{norm_text(targ)}`, recomputed from the clock in every pass of the re-check loop (time remaining)' if ok else f'every pass of the re-check loop waits `{norm_text(targ)}` again, which is not reduced by the time already spent: a caller that keeps losing the freed slot waits far beyond its timeout')


def check_single_deadline(ck: Checker, rid: str, s: Srv):
    """`timeout` bounds admission and result together: the deadline stored for the wait for the result is computed from a
    clock reading taken when the request arrived -- before the admission wait -- not from one taken after admission
    (which would give a request that had to wait for a slot almost twice its timeout)."""
    cfg, sc = enqueue_cfg(ck, s)
    waits = {wn.id for wn, _ in _wait_nodes(cfg, sc, s)}
    dl = []
    for n in cfg.nodes:
        a = n.ast
        if n.kind == 'stmt' and isinstance(a, ast.Assign):
            if isinstance(a.value, ast.Dict):
                for k, v in zip(a.value.keys, a.value.values):
                    if isinstance(k, ast.Constant) and k.value == 'deadline':
                        dl.append((n, v))
            for t in a.targets:
                if isinstance(t, ast.Subscript) and isinstance(t.slice, ast.Constant) and t.slice.value == 'deadline':
                    dl.append((n, a.value))
    ck.need(dl, f'{s.enqueue.key}: no deadline is stored with the request')
    after_wait = reachable(cfg, [e.dst for w in waits for e in cfg.succ[w]]) if waits else set()
    for n, v in dl:
        probs = []
        if 'timeout' not in names_in(v):
            probs.append(f'the deadline `{norm_text(v)}` does not depend on the caller\'s timeout')
        if _has_clock(v) and n.id in after_wait:
            probs.append('the deadline is computed from a clock reading taken after the admission wait')
        for nm in names_in(v) - {'timeout'}:
            rd = reaching_defs(cfg, nm, start=cfg.entry).get(n.id, frozenset())
            for d in rd:
                dn = cfg.nodes[d]
                if dn.kind == 'stmt' and isinstance(dn.ast, ast.Assign) and _has_clock(dn.ast.value) and d in after_wait:
                    probs.append(f'the deadline `{norm_text(v)}` is anchored at `{nm}`, a clock reading taken after the admission wait (L{dn.lineno}): a request that waited for a slot gets its full timeout again for the result — almost twice what the caller allowed')
        # anchored at a stored field (`fut.data['t1'] + timeout`): the stores of that field
        for sub in [x for x in ast.walk(v) if isinstance(x, ast.Subscript)]:
            txt = norm_text(sub)
            for dn in cfg.nodes:
                if dn.kind == 'stmt' and isinstance(dn.ast, ast.Assign) and any(norm_text(t) == txt for t in dn.ast.targets) and _has_clock(dn.ast.value) and dn.id in after_wait and n.id in reachable(cfg, [dn.id]):
                    probs.append(f'the deadline `{norm_text(v)}` is anchored at `{txt}`, which is stamped after the admission wait (L{dn.lineno}): a request that waited for a slot gets its full timeout again for the result')
        ck.ob(rid, s.enqueue, n.ast, not probs, '; '.join(sorted(set(probs))) if probs else f'the deadline `{norm_text(v)}` is anchored at the arrival of the request: admission wait and result wait share one timeout')


def check_reject_at_once(ck: Checker, rid: str, s: Srv, param='backpressure'):
    """With backpressure a request that finds the server full is rejected without waiting: no wait on the
    admission condition is reachable unless the `backpressure` flag was tested and found false."""
    from mpsa.guard import Guard

    ck.need(param in s.enqueue.params(), f'{s.enqueue.key}: no `{param}` parameter')
    cfg, sc = enqueue_cfg(ck, s)
    g = Guard(cfg, cfg.lat)
    for wn, wc in _wait_nodes(cfg, sc, s):
        S = g.at(wn.id)
        bad = [d for d in S if ('false', param) not in d]
        ck.ob(rid, s.enqueue, wn.ast, not bad, f'the wait is reached only on paths that tested `{param}` and found it false ({len(S)} path condition(s))' if not bad else f'a caller with `{param}=True` can reach this wait (the flag is not tested on the way from the capacity guard): a request arriving at — or finding after acquiring the lock — a full server waits instead of being rejected at once')


# ----------------------------------------------------------------------
# gather loop
def gather_cfg(ck: Checker, s: Srv):
    sc = Scope(s.gather)
    futname = [None]

    def extra(node, a):
        R = set()
        for c in calls_in(a):
            r, me = method_of(c)
            if me == 'pop' and r is not None and sc.canon(r) == s.ledger and len(c.args) < 2:
                R.add('KeyError')
            if me in ('set_result', 'set_exception') and isinstance(r, ast.Name):
                R.add('InvalidStateError')
        for x in walk_shallow(a):
            # `del ledger[uid]` after the successful lookup of the same entry cannot fail: the gather
            # loop is the only deleter (C06-4); only the lookup itself is fallible
            if isinstance(x, ast.Subscript) and isinstance(x.ctx, ast.Load) and sc.canon(x.value) == s.ledger:
                R.add('KeyError')
        return R

    cfg = build_cfg(s.gather, ck.repo, make_fallible(sc, iters=set(), calls=set(), extra=extra))
    ck.analysed_func(s.gather, cfg)
    return cfg, sc


def _ledger_lookup(n: Node, sc: Scope, s: Srv):
    """the call / subscript by which node n obtains the future from the ledger, else None"""
    if not isinstance(n.ast, ast.Assign):
        return None
    v = n.ast.value
    if isinstance(v, ast.Call) and method_of(v)[1] in ('pop', 'get') and method_of(v)[0] is not None and sc.canon(method_of(v)[0]) == s.ledger:
        return v
    if isinstance(v, ast.Subscript) and sc.canon(v.value) == s.ledger:
        return v
    return None


def _removals(cfg: CFG, sc: Scope, s: Srv):
    out = set()
    for n in cfg.nodes:
        a = header_expr(n)
        if a is None:
            continue
        if any(method_of(c)[1] in ('pop', 'popitem') and method_of(c)[0] is not None and sc.canon(method_of(c)[0]) == s.ledger for c in calls_in(a)):
            out.add(n.id)
        if isinstance(n.ast, ast.Delete) and any(isinstance(t, ast.Subscript) and sc.canon(t.value) == s.ledger for t in n.ast.targets):
            out.add(n.id)
    return out


def _resolutions(cfg: CFG, loop_id):
    out = set()
    for n in cfg.nodes:
        a = header_expr(n)
        if a is None or loop_id not in n.loops:
            continue
        for c in calls_in(a):
            r, me = method_of(c)
            d = dotted(c.func) or ''
            if (me in ('set_result', 'set_exception') and isinstance(r, ast.Name)) or (d.endswith('call_soon_threadsafe') and c.args and isinstance(c.args[0], ast.Attribute) and c.args[0].attr in ('set_result', 'set_exception')):
                out.add(n.id)
    return out


def gather_loop(cfg: CFG, sc: Scope, s: Srv):
    """(loop header node, dequeue node, ledger lookup node)"""
    for n in cfg.nodes:
        if n.kind == 'test' and n.extra.get('loop') and n.pending is None:
            body = [k for k in cfg.nodes if n.id in k.loops]
            looks = [k for k in body if _ledger_lookup(k, sc, s) is not None]
            gets = [k for k in body if isinstance(k.ast, ast.Assign) and isinstance(unwrap_await(k.ast.value), ast.Call) and method_of(unwrap_await(k.ast.value))[1] == 'get' and _ledger_lookup(k, sc, s) is None]
            if looks and gets:
                return n, gets[0], looks[0]
    raise AnchorError(f'{s.gather.key}: gather loop (get + ledger lookup) not found')


def _pop_success(cfg: CFG, popn: Node, sc: Scope, s: Srv):
    """(start node id, predicate on its out-edges): "the ledger entry of this message was found".
    `fut = ledger.pop(uid)` / `ledger[uid]`: the normal out-edges of the lookup (an unknown id raises KeyError);
    `fut = ledger.pop(uid, None)` / `ledger.get(uid)`: the not-None branch of the test of `fut` that follows."""
    call = _ledger_lookup(popn, sc, s)
    if isinstance(call, ast.Call) and (len(call.args) >= 2 or method_of(call)[1] == 'get') and isinstance(popn.ast.targets[0], ast.Name):
        name = popn.ast.targets[0].id
        for n in cfg.nodes:
            if n.kind != 'test' or n.id <= popn.id or n.pending != popn.pending:
                continue
            t, found_on = n.ast, None
            flip = False
            while isinstance(t, ast.UnaryOp) and isinstance(t.op, ast.Not):
                t, flip = t.operand, not flip
            if isinstance(t, ast.Compare) and len(t.ops) == 1 and is_name(t.left, name) and is_none(t.comparators[0]) and isinstance(t.ops[0], (ast.Is, ast.IsNot)):
                found_on = 'F' if isinstance(t.ops[0], ast.Is) else 'T'
            elif is_name(t, name):
                found_on = 'T'
            if found_on is not None:
                if flip:
                    found_on = 'F' if found_on == 'T' else 'T'
                return n.id, (lambda e, lab=found_on: e.kind == lab)
    return popn.id, (lambda e: e.kind != 'exc')


def _notifiers(s: Srv):
    """Nested functions of the gather function that notify the admission condition, and the
    queues they read."""
    out = {}
    mod = s.gather.module
    gsc = Scope(s.gather)
    for f in mod.functions.values():
        if f.parent is not s.gather:
            continue
        fsc = Scope(f)
        # closure names resolve through the gather function's aliases
        def canon(e, fsc=fsc):
            c = fsc.canon(e)
            return gsc.canon(c) if c else c

        notif = [c for c in ast.walk(f.node) if isinstance(c, ast.Call) and method_of(c)[1] in ('notify', 'notify_all') and canon(method_of(c)[0]) == s.cond]
        if not notif:
            continue
        queues = set()
        for c in ast.walk(f.node):
            if isinstance(c, ast.Call) and method_of(c)[1] == 'get':
                q = canon(method_of(c)[0])
                if q:
                    queues.add(q)
        out[f.name] = (f, queues)
    return out


def _signal_weight(s: Srv, sc: Scope, notifiers):
    qs = set()
    for f, queues in notifiers.values():
        qs |= queues

    def weight(n: Node):
        a = header_expr(n)
        if a is None:
            return 0
        w = 0
        for c in calls_in(a):
            r, me = method_of(c)
            if me in ('notify', 'notify_all') and r is not None and sc.canon(r) == s.cond:
                w += 1
            elif me in ('put', 'put_nowait') and r is not None and sc.canon(r) in qs and c.args and not is_none(c.args[0]):
                w += 1
            elif isinstance(c.func, ast.Name) and c.func.id in notifiers:
                w += 1
        return w

    return weight


def check_slot_return(ck: Checker, rid: str, s: Srv):
    """C06-4."""
    cfg, sc = gather_cfg(ck, s)
    loop, getn, popn = gather_loop(cfg, sc, s)
    # (a) the pop is unconditional: every path from the dequeue to the next dequeue that is not the
    #     sentinel path passes through the pop.  Sentinel path = leaves the loop.
    removals = _removals(cfg, sc, s)
    if not removals:
        ck.ob(rid, s.gather, popn.ast, False, 'the gather loop never removes the ledger entry of an answered request: every request leaks its slot and the server fills up for good')
        return
    # a failed lookup (unknown id) has nothing to remove
    p = path_avoiding(cfg, cfg.normal_succ(getn.id), {loop.id}, avoid=removals, edge_ok=lambda e: not (e.src == popn.id and e.kind == 'exc'))
    ck.ob(rid, s.gather, popn.ast, p is None, 'every message that is not the sentinel removes its ledger entry, whatever the state of the future' if p is None else 'a message can be consumed without removing its ledger entry (slot leaked for ever)', path=fmt_path(cfg, [getn.id] + p) if p else '')
    res_nodes = _resolutions(cfg, loop.id)
    p = path_avoiding(cfg, cfg.normal_succ(getn.id), res_nodes, avoid=removals) if res_nodes else None
    ck.ob(rid, s.gather, (popn.lineno, 'slot returned before the result emerges'), p is None and bool(res_nodes), 'the ledger entry is removed before the future is resolved: when the caller sees its result the slot is already back' if p is None and res_nodes else 'the future is resolved before its ledger entry is removed: the caller can have its result while the slot is still occupied (an idle server shows a non-zero backlog and rejects the next request)', path=fmt_path(cfg, [getn.id] + p) if p else '')
    # (b) exactly one signal between a successful pop and the next dequeue
    notifiers = _notifiers(s)
    ck.need(notifiers, f'{s.gather.key}: no helper notifying `{s.cond}` found')
    weight = _signal_weight(s, sc, notifiers)
    start, found = _pop_success(cfg, popn, sc, s)
    res = count_minmax(cfg, start, weight, stop=lambda nid: loop.id not in cfg.nodes[nid].loops and nid != loop.id, start_edges=found)
    bad = []
    nback = 0
    for term, (lo, hi) in res.items():
        if term[0] == 'back':
            nback += 1
            if (lo, hi) != (1, 1):
                bad.append(f'between a successful pop and the next dequeue the admission condition is signalled {lo}..{hi} times (via L{cfg.nodes[term[1]].lineno})')
        elif term[0] == 'node':
            bad.append(f'after a successful pop the loop can be left towards L{cfg.nodes[term[1]].lineno}')
    ck.paths_examined += len(res)
    ck.ob(rid, s.gather, popn.ast, not bad and nback >= 1, '; '.join(bad) if bad else 'every popped entry is followed by exactly one signal of the admission condition before the next dequeue')
    # (c) the notifier turns every signal into one notify() under the condition's lock
    for name, (f, queues) in notifiers.items():
        fsc = Scope(f)
        gsc = Scope(s.gather)
        canon = lambda e, fsc=fsc, gsc=gsc: gsc.canon(fsc.canon(e)) if fsc.canon(e) else None
        fcfg = build_cfg(f, ck.repo, None)
        held = held_locks(fcfg, canon)
        probs = []
        nn = 0
        for n in fcfg.nodes:
            a = header_expr(n)
            if a is None:
                continue
            for c in calls_in(a):
                r, me = method_of(c)
                if me in ('notify', 'notify_all') and canon(r) == s.cond:
                    nn += 1
                    if s.cond not in held.get(n.id, frozenset()):
                        probs.append(f'notify at L{n.lineno} is not under the condition\'s lock')
        ck.ob(rid, f, f.node.name, not probs and nn >= 1, '; '.join(probs) if probs else f'`{name}` notifies `{s.cond}` under its lock')
    # (d) the gather pop is the only deletion site of the ledger
    check_only_deleter(ck, rid, s)


def check_only_deleter(ck: Checker, rid: str, s: Srv):
    mod = s.cls.module
    sites = []
    for f in list(s.cls.methods()) + [g for g in mod.functions.values() if g.parent is None or isinstance(g.parent, FuncInfo)]:
        sc = Scope(f)
        canon = sc.canon
        for n in walk_shallow_func(f.node):
            if isinstance(n, ast.Call):
                r, me = method_of(n)
                if me in ('pop', 'popitem', 'clear') and r is not None and _is_ledger(canon(r), s):
                    sites.append((f, n))
            if isinstance(n, ast.Delete):
                for t in n.targets:
                    if isinstance(t, ast.Subscript) and _is_ledger(canon(t.value), s):
                        sites.append((f, n))
    others = [(f, n) for f, n in sites if f is not s.gather and _belongs(f, s)]
    ck.ob(rid, s.gather, (s.gather.node.lineno, 'ledger deletion sites'), not others, 'the gather loop is the only place that removes ledger entries' if not others else 'ledger entries are also removed in ' + ', '.join(f'{f.qualname} L{n.lineno}' for f, n in others) + ' — an abandoned request would give its slot back before its result emerges (and the late result is then unknown)')


def _is_ledger(c, s: Srv):
    return c == s.ledger


def _belongs(f: FuncInfo, s: Srv):
    """Function is a method (or nested in a method) of this server class, or a module-level helper."""
    p = f
    while p is not None:
        if isinstance(p, FuncInfo) and p.cls is not None:
            return p.cls is s.cls
        p = getattr(p, 'parent', None)
    return True


def check_single_writer(ck: Checker, rid: str, s: Srv):
    """C06-5: the only store into the ledger is in the admission function."""
    mod = s.cls.module
    sites = []
    for f in mod.functions.values():
        if not _belongs(f, s):
            continue
        sc = Scope(f)
        for n in walk_shallow_func(f.node):
            if isinstance(n, (ast.Assign, ast.AugAssign)):
                tg = n.targets if isinstance(n, ast.Assign) else [n.target]
                for t in tg:
                    if isinstance(t, ast.Subscript) and sc.canon(t.value) == s.ledger:
                        sites.append((f, n))
            if isinstance(n, ast.Call):
                r, me = method_of(n)
                if me in ('setdefault', 'update', '__setitem__') and r is not None and sc.canon(r) == s.ledger:
                    sites.append((f, n))
    others = [(f, n) for f, n in sites if f is not s.enqueue]
    ck.ob(rid, s.enqueue, (s.enqueue.node.lineno, 'ledger store sites'), not others and len(sites) >= 1, f'{len(sites)} store site(s), all in `{s.enqueue.qualname}`' if not others else 'the ledger is also written in ' + ', '.join(f'{f.qualname} L{n.lineno}' for f, n in others))


# ----------------------------------------------------------------------
def check_race_free_resolution(ck: Checker, rid: str, s: Srv):
    """C07-1: direct set_result/set_exception in the gather thread cannot leave the loop."""
    cfg, sc = gather_cfg(ck, s)
    loop, getn, popn = gather_loop(cfg, sc, s)
    found = 0
    for n in cfg.nodes:
        if loop.id not in n.loops:
            continue
        a = header_expr(n)
        if a is None:
            continue
        for c in calls_in(a):
            r, me = method_of(c)
            d = dotted(c.func) or ''
            if d.endswith('call_soon_threadsafe') and c.args and isinstance(c.args[0], ast.Attribute) and c.args[0].attr in ('set_result', 'set_exception'):
                found += 1
                ck.ob(rid, s.gather, n.ast, True, 'resolution deferred to the event loop with call_soon_threadsafe: a cancelled future raises inside a loop callback, not in the gather thread')
            if me in ('set_result', 'set_exception') and isinstance(r, ast.Name):
                found += 1
                bad = [e for e in cfg.succ[n.id] if e.kind == 'exc' and 'InvalidStateError' in (e.data or ()) and (loop.id not in cfg.nodes[e.dst].loops)]
                stays = True
                for e in cfg.succ[n.id]:
                    if e.kind == 'exc' and 'InvalidStateError' in (e.data or ()) and loop.id in cfg.nodes[e.dst].loops:
                        p = path_avoiding(cfg, [e.dst], {k.id for k in cfg.nodes if loop.id not in k.loops and k.id != loop.id}, avoid={loop.id})
                        if p:
                            stays = False
                ok = not bad and stays
                ck.ob(
                    rid,
                    s.gather,
                    n.ast,
                    ok,
                    f'`{me}` on a future the caller may cancel concurrently is guarded: InvalidStateError is caught inside the loop' if ok else f'`{norm_text(c)[:40]}` can raise InvalidStateError when the caller cancels the future after the `cancelled()` check (check-then-act); the exception leaves the gather loop and kills the thread',
                    path=fmt_path(cfg, [n.id, bad[0].dst]) if bad else '',
                )
    ck.need(found >= 2, f'{s.gather.key}: fewer than 2 resolution sites found')


def check_unknown_id_tolerated(ck: Checker, rid: str, s: Srv):
    """C07-2."""
    cfg, sc = gather_cfg(ck, s)
    loop, getn, popn = gather_loop(cfg, sc, s)
    outs = [e for e in cfg.succ[popn.id] if e.kind == 'exc' and 'KeyError' in (e.data or ())]
    call = _ledger_lookup(popn, sc, s)
    if isinstance(call, ast.Call) and (len(call.args) >= 2 or method_of(call)[1] == 'get'):
        # pop(uid, default) / get(uid): an unknown id cannot raise here; the None must then be tested
        g = [n for n in cfg.nodes if n.kind == 'test' and isinstance(n.ast, ast.Compare) and is_name(n.ast.left, popn.ast.targets[0].id if isinstance(popn.ast.targets[0], ast.Name) else '') and is_none(n.ast.comparators[0])]
        ck.ob(rid, s.gather, popn.ast, bool(g), 'ledger lookup has a default and the result is tested for None' if g else 'ledger lookup has a default but the missing entry (None) is used without a test')
        return
    ok = bool(outs) and all(loop.id in cfg.nodes[e.dst].loops for e in outs)
    if ok:
        for e in outs:
            p = path_avoiding(cfg, [e.dst], {k.id for k in cfg.nodes if loop.id not in k.loops and k.id != loop.id}, avoid={loop.id})
            if p:
                ok = False
    ck.ob(rid, s.gather, popn.ast, ok, 'KeyError from the ledger pop is handled inside the loop, which continues' if ok else 'an id that is not in the ledger raises KeyError out of the gather loop')


def check_abandon_local(ck: Checker, rid: str, s: Srv):
    """C07-3: _wait_for_result touches neither ledger nor queues nor the admission condition."""
    f = s.waitres
    touched = set()
    for n in walk_deep_func(f.node):
        d = dotted(n) if isinstance(n, (ast.Attribute, ast.Name)) else None
        if d and (d.startswith('self._uid_to_futures') or d.startswith('self._input_buffer') or d.startswith('self._q_in') or d.startswith('self._q_out') or d.startswith('self._pipeline_notfull') or d == s.ledger):
            touched.add(d)
    # calls on the future are limited to result/cancel/done/cancelled/exception and wait_for
    meths = set()
    for n in walk_deep_func(f.node):
        if isinstance(n, ast.Call):
            r, me = method_of(n)
            if isinstance(r, ast.Name) and r.id == 'fut':
                meths.add(me)
    extra = meths - {'result', 'cancel', 'done', 'cancelled', 'exception'}
    ok = not touched and not extra
    ck.ob(rid, f, (f.node.lineno, '_wait_for_result effects'), ok, 'on expiry only the caller\'s own future is cancelled; ledger, queues and admission condition are not touched' if ok else f'abandonment is not local: touches {sorted(touched)} / calls {sorted(extra)} on the future')
    # a deadline that has expired ends in TimeoutError on every path: the late outcome is discarded, whichever of
    # {the caller's cancel, the gather thread's resolution} comes first -- a handler that returns the late result (or
    # raises the late worker exception) when cancel() lost that race makes the outcome of a timed-out call depend on it
    def _extra(node, a):
        return {'TimeoutError', 'Exception'} if any(method_of(c)[1] in ('result', 'wait_for') or (dotted(c.func) or '').endswith('wait_for') for c in calls_in(a)) else set()

    cfg = build_cfg(f, ck.repo, make_fallible(Scope(f), iters=set(), calls=set(), extra=_extra))
    hs = [n for n in cfg.nodes if n.kind == 'except' and any('Timeout' in (dotted(t_) or '') for t_ in ([n.ast.type] if not isinstance(n.ast.type, ast.Tuple) else n.ast.type.elts) if t_ is not None)]
    ck.need(hs, f'{f.key}: no handler for the expiry of the wait')
    for h in hs:
        p = path_avoiding(cfg, [e for e in cfg.succ[h.id] if not e.is_exc], {cfg.exit_return}, avoid=set(), edge_ok=lambda e: not e.is_exc)
        raises_ok = any(isinstance(k.ast, ast.Raise) for k in cfg.nodes if k.id in reachable(cfg, [h.id], edge_ok=lambda e: not e.is_exc))
        ck.ob(rid, f, h.ast, p is None and raises_ok, 'the expiry handler ends in a raise on every path: the late outcome is discarded' if p is None and raises_ok else f'the expiry handler can return normally (via L{[cfg.nodes[k].lineno for k in (p or [])][-2:]}): a call whose deadline has expired returns the late result (or raises the late worker error) instead of TimeoutError, depending on whether its cancel() or the gather thread was first')


# ----------------------------------------------------------------------
def check_record_before_send(ck: Checker, rid: str, s: Srv):
    """C02-3: the ledger store dominates the input put."""
    cfg, sc = enqueue_cfg(ck, s)
    stores = {n.id for n in _store_nodes(cfg, sc, s)}
    puts = _input_put_nodes(cfg, sc)
    ck.need(puts, f'{s.enqueue.key}: no put on the input side')
    for pn, pc in puts:
        p = path_avoiding(cfg, [cfg.entry], {pn.id}, avoid=stores)
        ck.ob(rid, s.enqueue, pn.ast, p is None, 'the request is recorded in the ledger before it is released to the workers' if p is None else 'the input is put on the queue before `ledger[uid] = fut`: the gather thread (no common lock) can receive the result first, find no entry, drop the result and leak the slot', path=fmt_path(cfg, p) if p else '')


def check_id_origin(ck: Checker, rid: str, s: Srv):
    """C02-4: request ids must not come from builtin id()."""
    f = s.enqueue
    sc = Scope(f)
    cfg, _ = enqueue_cfg(ck, s)
    stores = _store_nodes(cfg, sc, s)
    for st in stores:
        t = [t for t in st.ast.targets if isinstance(t, ast.Subscript)][0]
        key = t.slice
        if not isinstance(key, ast.Name):
            ck.ob(rid, f, st.ast, False, f'ledger key `{norm_text(key)}` is not a local id variable')
            continue
        rd = reaching_defs(cfg, key.id, start=cfg.entry).get(st.id, frozenset())
        probs = []
        kinds = []
        for d in rd:
            a = cfg.nodes[d].ast
            v = unwrap_await(getattr(a, 'value', None)) if isinstance(a, ast.Assign) else None
            if isinstance(v, ast.Call) and dotted(v.func) == 'id':
                probs.append(f'`{norm_text(a)}`: object identities are recycled once the future is collected, while a servlet may still hold messages carrying the old id (ensemble fail-fast answers early)')
            elif isinstance(v, ast.Call) and dotted(v.func) == 'next' and v.args:
                kinds.append(_counter_kind(s, v.args[0]))
                if kinds[-1] is None:
                    probs.append(f'`{norm_text(a)}`: `{norm_text(v.args[0])}` is not an itertools.count created per server')
            elif isinstance(v, ast.Call) and (dotted(v.func) or '').split('.')[0] == 'uuid':
                kinds.append('uuid')
            elif isinstance(v, ast.Call) and dotted(v.func) == 'hash':
                probs.append(f'`{norm_text(a)}`: hash values can collide / be recycled')
            else:
                probs.append(f'`{norm_text(a)[:60]}`: origin of the request id is not a counter / uuid')
        ck.ob(rid, f, st.ast, not probs and bool(rd), '; '.join(probs) if probs else f'request id `{key.id}` comes from {sorted(set(kinds))}: never reused during the life of the server')


def _counter_kind(s: Srv, e):
    d = dotted(e)
    if d and d.startswith('self.'):
        attr = d.split('.', 1)[1]
        for f in s.cls.methods():
            for n in walk_shallow_func(f.node):
                if isinstance(n, ast.Assign) and any(dotted(t) == d for t in n.targets) and isinstance(n.value, ast.Call):
                    cd = dotted(n.value.func) or ''
                    if cd in ('itertools.count', 'count'):
                        return 'itertools.count'
    return None


def check_gather_pairing(ck: Checker, rid: str, s: Srv):
    """C02-6: the future resolved is the one popped with this message's id, with this message's payload."""
    cfg, sc = gather_cfg(ck, s)
    loop, getn, popn = gather_loop(cfg, sc, s)
    zname = getn.ast.targets[0].id if isinstance(getn.ast.targets[0], ast.Name) else None
    unpack = find_unpack(cfg, loop.id, zname)
    ck.need(unpack is not None, f'{s.gather.key}: message is not unpacked into (uid, payload)')
    probs = []
    if not (len(unpack.names) == 2 and all(unpack.names)):
        probs.append('message is not unpacked as `(uid, y)`')
        ck.ob(rid, s.gather, unpack.ast, False, probs[0])
        return
    uid, y = unpack.names
    popcall = _ledger_lookup(popn, sc, s)
    keyexpr = (popcall.args[0] if popcall.args else None) if isinstance(popcall, ast.Call) else popcall.slice
    if not (keyexpr is not None and is_name(keyexpr, uid)):
        probs.append(f'the ledger is looked up with `{norm_text(keyexpr) if keyexpr is not None else ""}`, not with this message\'s id `{uid}`')
    for rn in _removals(cfg, sc, s):
        a = cfg.nodes[rn].ast
        ks = []
        for x in ast.walk(a):
            if isinstance(x, ast.Call) and method_of(x)[1] == 'pop' and x.args:
                ks.append(x.args[0])
            if isinstance(x, ast.Subscript) and isinstance(x.ctx, ast.Del):
                ks.append(x.slice)
        for k in ks:
            if not is_name(k, uid):
                probs.append(f'L{cfg.nodes[rn].lineno}: the ledger entry removed is `{norm_text(k)}`, not this message\'s id `{uid}`')
    futn = popn.ast.targets[0].id if isinstance(popn.ast, ast.Assign) and isinstance(popn.ast.targets[0], ast.Name) else None
    if futn is None:
        probs.append('the popped future is not bound to a name')
    da = definitely_assigned(cfg, start=loop.id, cut_back_edges_to=loop.id)
    nres = 0
    for n in cfg.nodes:
        if loop.id not in n.loops:
            continue
        a = header_expr(n)
        if a is None:
            continue
        for c in calls_in(a):
            r, me = method_of(c)
            d = dotted(c.func) or ''
            tgt = payload = None
            if me in ('set_result', 'set_exception') and isinstance(r, ast.Name):
                tgt, payload = r.id, (c.args[0] if c.args else None)
            elif d.endswith('call_soon_threadsafe') and c.args and isinstance(c.args[0], ast.Attribute) and c.args[0].attr in ('set_result', 'set_exception'):
                tgt = dotted(c.args[0].value)
                payload = c.args[1] if len(c.args) > 1 else None
            if tgt is None:
                continue
            nres += 1
            if tgt != futn:
                probs.append(f'L{n.lineno}: resolves `{tgt}`, not the future popped for this message (`{futn}`)')
            if not ((isinstance(payload, ast.Name) and payload.id == y) or (isinstance(payload, ast.Attribute) and payload.attr == 'exc' and is_name(payload.value, y))):
                probs.append(f'L{n.lineno}: resolves with `{norm_text(payload) if payload is not None else None}`, not this message\'s payload `{y}`')
            have = da.get(n.id, frozenset())
            for nm in (futn, y):
                if nm and nm not in have:
                    probs.append(f'L{n.lineno}: `{nm}` is not assigned on every path of this iteration')
            # y may be re-assigned only from itself (unwrapping `.exc`)
            rd = reaching_defs(cfg, y, start=loop.id, cut_back_edges_to=loop.id).get(n.id, frozenset())
            for dd in rd:
                da_ = cfg.nodes[dd].ast
                if dd in unpack.ids:
                    continue
                v = getattr(da_, 'value', None)
                if not (isinstance(da_, ast.Assign) and v is not None and names_in(v) <= {y}):
                    probs.append(f'L{n.lineno}: payload `{y}` may come from `{norm_text(da_)[:50]}`')
    if nres < 2:
        probs.append('fewer than two resolution sites found')
    ck.ob(rid, s.gather, popn.ast, not probs, '; '.join(sorted(set(probs))) if probs else f'`{futn} = ledger.pop({uid})`; every resolution applies `{y}` (this message) to `{futn}` (this id)')


def check_delivery(ck: Checker, rid: str, s: Srv):
    """The gather loop unwraps RemoteException to the original exception and calls set_exception iff
    the payload is a BaseException (set_result otherwise)."""
    from mpsa.guard import Guard

    cfg, sc = gather_cfg(ck, s)
    g = Guard(cfg, cfg.lat)
    loop, getn, popn = gather_loop(cfg, sc, s)
    probs = []
    nsites = 0
    unwrap = [n for n in cfg.nodes if isinstance(n.ast, ast.Assign) and isinstance(n.ast.value, ast.Attribute) and n.ast.value.attr == 'exc' and is_name(n.ast.targets[0], dotted(n.ast.value.value) or '')]
    direct_unwrap = 0
    for n in cfg.nodes:
        a = header_expr(n)
        if a is None or loop.id not in n.loops:
            continue
        for c in calls_in(a):
            r, me = method_of(c)
            d = dotted(c.func) or ''
            kind = payload = None
            if me in ('set_result', 'set_exception') and isinstance(r, ast.Name):
                kind, payload = me, c.args[0] if c.args else None
            elif d.endswith('call_soon_threadsafe') and c.args and isinstance(c.args[0], ast.Attribute) and c.args[0].attr in ('set_result', 'set_exception'):
                kind, payload = c.args[0].attr, c.args[1] if len(c.args) > 1 else None
            # `fut.set_exception(y.exc)` under `isinstance(y, RemoteException)`: unwrapped at the point of delivery
            if kind == 'set_exception' and isinstance(payload, ast.Attribute) and payload.attr == 'exc' and isinstance(payload.value, ast.Name):
                if g.positive(n.id, payload.value.id, 'RemoteException'):
                    direct_unwrap += 1
                    nsites += 1
                else:
                    probs.append(f'L{n.lineno}: `.exc` is taken of a payload that is not proven a RemoteException')
                continue
            if kind is None or not isinstance(payload, ast.Name):
                continue
            nsites += 1
            y = payload.id
            if kind == 'set_exception':
                if not g.positive(n.id, y, 'BaseException'):
                    probs.append(f'L{n.lineno}: set_exception reached without the payload being proven a BaseException')
                if not g.excluded(n.id, y, 'RemoteException'):
                    probs.append(f'L{n.lineno}: the payload may still be the RemoteException wrapper (not an exception): set_exception would raise TypeError')
            else:
                if not g.excluded(n.id, y, 'BaseException'):
                    probs.append(f'L{n.lineno}: set_result reached with a payload that may be an exception: the failure would be delivered as a normal result')
                if not all(any(f[0] == 'neg' and f[1] == y and f[2] == 'RemoteException' for f in d) or ('derived', y) in d for d in g.at(n.id)):
                    probs.append(f'L{n.lineno}: a RemoteException wrapper may be delivered as a normal result')
    if not unwrap and not direct_unwrap:
        probs.append('a RemoteException payload is never unwrapped to the original exception')
    if nsites < 2:
        probs.append('resolution sites not found')
    ck.ob(rid, s.gather, popn.ast, not probs, '; '.join(sorted(set(probs))) if probs else 'payload unwrapped from RemoteException; set_exception iff BaseException, set_result otherwise')


