"""C17 -- IterableQueue delivers every item once and every consumer finishes (structural clauses)."""

from __future__ import annotations

import ast

from mpsa.cfg import CFG, Node, calls_in, header_expr, walk_shallow
from mpsa.guard import Guard
from mpsa.flow import INF, count_minmax, fmt_path, held_locks, path_avoiding, reachable
from mpsa.loader import dotted, norm_text
from mpsa.match import Scope, has_timeout, is_name, is_none, kwarg, method_of, walk_deep_func, walk_shallow_func
from mpsa.report import Checker

from .common import QUEUE, build_cfg, make_fallible

SPARE, APPLIED, USED, DATA = 'self._spare_lids', 'self._applied_lids', 'self._used_lids', 'self._q'


def _calls(n: Node, recv: str, meths, sc: Scope):
    a = header_expr(n)
    if a is None:
        return []
    return [c for c in calls_in(a) if method_of(c)[1] in meths and method_of(c)[0] is not None and sc.canon(method_of(c)[0]) == recv]


def _marker_puts(n: Node, sc: Scope):
    a = header_expr(n)
    if a is None:
        return []
    out = []
    for c in calls_in(a):
        d = dotted(c.func)
        if d in ('self.put', 'self._q.put') and c.args and is_none(c.args[0]):
            out.append(c)
    return out


def run(ck: Checker):
    ck.rule('C17-1', 'atomic completion: taking an applied token, putting it on the used queue and testing used.full() (the test that decides the extra end marker) form one region of a lock that travels with the object (HELD)', minimum=2)
    ck.rule('C17-2', 'token conservation: put_end moves exactly one token and enqueues exactly one marker; a consumed marker either is re-put or moves exactly one token; renew removes one marker and recycles exactly num_suppliers tokens (COUNT)', minimum=3)
    ck.rule('C17-3', 'responsive waits: blocking get/put of ResponsiveQueue wait in slices bounded by wait_interval_seconds and test the stop event after every expiry; IterableQueue wraps the queue whenever a stop event is given (EXITS)', minimum=3)
    mod = ck.repo.module(QUEUE)
    cls = mod.cls('IterableQueue')
    ck.rule('C17-4', 'configuration travels with the object: every attribute set by __init__ of ResponsiveQueue / IterableQueue is carried by __getstate__ and restored by __setstate__ in the same order (AGREE)', minimum=2)
    check_pickle_state(ck, 'C17-4', mod.cls('ResponsiveQueue'))
    check_pickle_state(ck, 'C17-4', cls)
    # the iteration ends silently on exhaustion only: a stop request raised inside __next__ leaves the for-loop as
    # StopRequested (C17-3's clause "raise StopRequested instead of blocking on" as seen by a for-loop consumer)
    it = cls.method('__iter__')
    hs = [h for n in walk_shallow_func(it.node) if isinstance(n, ast.Try) for h in n.handlers]
    from mpsa.exc import ExcLattice

    caught = sorted({c for h in hs for c in (ExcLattice.names_of(h.type) if h.type is not None else ['BaseException'])})
    okh = caught == ['StopIteration']
    ck.ob('C17-3', it, hs[0] if hs else it.node, okh, '__iter__ ends on StopIteration only' if okh else f'__iter__ ends its loop on {caught}: a consumer blocked in a for-loop when stop is requested ends silently — as if all suppliers had finished — instead of raising StopRequested')
    ck.rule('C17-6', 'token arithmetic: the three token queues hold exactly `num_suppliers` tokens (`used.full()` IS the test "every supplier has finished") and exactly `num_suppliers` spare tokens are created (LINEAR)', minimum=7)
    from .linear import linear_form

    init = cls.method('__init__')
    n_q = 0
    for n in walk_deep_func(init.node):
        if isinstance(n, ast.Assign) and isinstance(n.value, ast.Call) and dotted(n.targets[0]) in ('self._spare_lids', 'self._applied_lids', 'self._used_lids'):
            arg = kwarg(n.value, 'maxsize') or (n.value.args[0] if n.value.args else None)
            lf = linear_form(arg, init) if arg is not None else None
            ok = lf is not None and lf[0] == 1 and lf[1] == 0 and lf[2] == 'num_suppliers'
            n_q += 1
            ck.ob('C17-6', init, n, ok, f'`{dotted(n.targets[0])}` holds exactly num_suppliers tokens' if ok else f'`{dotted(n.targets[0])}` is created with `{norm_text(arg) if arg is not None else "no bound"}`, not `num_suppliers`: `full()` no longer means "all suppliers have finished" — consumers end early or never')
    fills = [n for n in walk_deep_func(init.node) if isinstance(n, ast.For) and isinstance(n.iter, ast.Call) and dotted(n.iter.func) == 'range' and any(isinstance(y, ast.Call) and method_of(y)[1] == 'put' and dotted(method_of(y)[0]) == 'self._spare_lids' for b in n.body for y in ast.walk(b))]
    okf = len(fills) == 1 and len(fills[0].iter.args) == 1 and linear_form(fills[0].iter.args[0], init) is not None and linear_form(fills[0].iter.args[0], init)[:3] == (1, 0, 'num_suppliers')
    ck.ob('C17-6', init, fills[0] if fills else init.node, okf, 'exactly num_suppliers spare tokens are created' if okf else 'the number of spare tokens created is not `num_suppliers`')
    ck.need(n_q >= 6, f'{init.key}: only {n_q} token queue constructions found')
    # ------------------------------------------------------------------ C17-7
    ck.rule('C17-7', 'the object travels wherever its queue travels: helper queues and the lock of the thread-only kind (queue.Queue, threading.Lock — not picklable) are created only where a positive isinstance test has identified the queue as a thread queue; any other queue (a multiprocessing queue, or the ResponsiveQueue wrapper put around either kind) gets the multiprocessing kind, which works everywhere (GUARD)', minimum=1)
    THREAD_Q = {'queue.Queue', 'queue.SimpleQueue', 'Queue', 'SimpleQueue', 'queue.LifoQueue', 'queue.PriorityQueue'}

    def reach_condition(target, body, conds):
        """list of (test, polarity) under which `target` (a statement) is reached inside `body`"""
        for st in body:
            if st is target:
                return conds
            if isinstance(st, ast.If):
                r = reach_condition(target, st.body, conds + [(st.test, True)])
                if r is None:
                    r = reach_condition(target, st.orelse, conds + [(st.test, False)])
                if r is not None:
                    return r
            for fld in ('body', 'orelse', 'finalbody'):
                sub = getattr(st, fld, None)
                if isinstance(sub, list) and not isinstance(st, ast.If):
                    r = reach_condition(target, sub, conds)
                    if r is not None:
                        return r
        return None

    thread_kind = [n for n in walk_deep_func(init.node) if isinstance(n, ast.Assign) and isinstance(n.value, ast.Call) and (dotted(n.value.func) or '') in ('threading.Lock', 'threading.RLock', 'queue.Queue', 'queue.SimpleQueue') and (dotted(n.targets[0]) or '').startswith('self._')]
    ck.need(thread_kind, f'{init.key}: no thread-kind helper construction found')
    probs = []
    for n in thread_kind:
        conds = reach_condition(n, init.node.body, []) or []
        positive = False
        for t, pol in conds:
            neg = not pol
            while isinstance(t, ast.UnaryOp) and isinstance(t.op, ast.Not):
                t, neg = t.operand, not neg
            ii = is_isinstance(t) if 'is_isinstance' in globals() else None
            if ii is None and isinstance(t, ast.Call) and dotted(t.func) == 'isinstance' and len(t.args) == 2:
                cl = t.args[1]
                ii = (t.args[0], [dotted(e) or '?' for e in (cl.elts if isinstance(cl, ast.Tuple) else [cl])])
            if ii and not neg and set(ii[1]) <= THREAD_Q:
                positive = True
        if not positive:
            probs.append(f'L{n.lineno}: `{norm_text(n)[:60]}` is reached without a positive `isinstance(q, (queue.Queue, queue.SimpleQueue))`: a multiprocessing queue (in particular one wrapped in ResponsiveQueue because a stop event was given) gets thread-only helpers, and the object can no longer be sent to another process (cannot pickle \'_thread.lock\')')
    ck.ob('C17-7', init, thread_kind[0], not probs, probs[0] if probs else f'{len(thread_kind)} thread-kind helpers, each created under a positive isinstance test for the thread queue classes; every other queue gets multiprocessing helpers')
    # ------------------------------------------------------------------ C17-10
    ck.rule('C17-10', 'the responsive wrappers keep the meaning of their slices: ResponsiveQueue.put retries on queue.Full and get on queue.Empty (AGREE) — with the classes exchanged a put that stays blocked for one slice raises Full although no timeout was given, the supplier dies under back-pressure and its end marker never arrives', minimum=2)
    rq10 = ck.repo.cls(QUEUE, 'ResponsiveQueue')
    for mname10, want10 in (('put', 'Full'), ('get', 'Empty')):
        m10 = rq10.method(mname10)
        calls10 = [c for c in ast.walk(m10.node) if isinstance(c, ast.Call) and method_of(c)[1] == '_get_put']
        ok10 = bool(calls10) and all(len(c.args) >= 3 and (dotted(c.args[2]) or '').split('.')[-1] == want10 for c in calls10)
        ck.ob('C17-10', m10, calls10[0] if calls10 else m10.node, ok10, f'{mname10} retries on {want10}' if ok10 else f'`{norm_text(calls10[0])[:70] if calls10 else mname10}` does not hand `{want10}` to the retry loop: the slice that expires is not recognised as "still blocked", the caller sees a queue exception it never asked for')
    # ------------------------------------------------------------------ C17-9
    ck.rule('C17-9', 'no wait for an item under the token lock: the end markers (the extra one that renew removes included) are put on the data queue by consumers *while they hold* `_lids_lock`; a get on the data queue under that lock waits for an item whose producer needs the lock — both hang (WAITFOR)', minimum=1)
    bad9 = []
    n_regions = 0
    for m_ in cls.methods():
        for w_ in [n for n in ast.walk(m_.node) if isinstance(n, (ast.With, ast.AsyncWith)) and any(dotted(i.context_expr) == 'self._lids_lock' for i in n.items)]:
            n_regions += 1
            for c_ in [c for b_ in w_.body for c in ast.walk(b_) if isinstance(c, ast.Call) and method_of(c)[1] in ('get',) and dotted(method_of(c)[0]) == 'self._q']:
                bad9.append((m_, c_))
        # acquire()/release() form
        if any(isinstance(c, ast.Call) and method_of(c)[1] == 'acquire' and dotted(method_of(c)[0]) == 'self._lids_lock' for c in ast.walk(m_.node)):
            n_regions += 1
            for c_ in [c for c in ast.walk(m_.node) if isinstance(c, ast.Call) and method_of(c)[1] == 'get' and dotted(method_of(c)[0]) == 'self._q']:
                bad9.append((m_, c_))
    # (no region at all is C17-1's finding, not an anchor problem of this rule)
    nx_ = cls.method('__next__')
    ck.ob('C17-9', bad9[0][0] if bad9 else nx_, bad9[0][1] if bad9 else (nx_.node.lineno, 'token lock regions'), not bad9, f'{n_regions} region(s) of `_lids_lock`, none waits on the data queue' if not bad9 else f'{bad9[0][0].qualname} L{bad9[0][1].lineno}: `{norm_text(bad9[0][1])}` waits for an item of the data queue while holding `_lids_lock`; the consumer that is about to put that item (the extra end marker, after it moved the last token) needs the lock first: it waits for the lock, this waits for the item — that consumer never finishes and this call never returns')
    # ------------------------------------------------------------------ C17-8
    ck.rule('C17-8', 'a supplier waiting for the next round stays responsive: every get on the spare-token queue in put_end carries a numeric timeout (never None / a value that can be None), and a get that is retried in a loop tests the stop event after every expiry and raises StopRequested (EXITS)', minimum=2)
    pe = cls.method('put_end')
    scp = Scope(pe)

    def extra8(node, a):
        return {'Empty'} if any(method_of(c)[1] == 'get' and dotted(method_of(c)[0]) == 'self._spare_lids' for c in calls_in(a)) else set()

    cfg8 = build_cfg(pe, ck.repo, make_fallible(scp, iters=set(), calls=set(), extra=extra8))
    ck.analysed_func(pe, cfg8)
    gets8 = [(n, c) for n in cfg8.nodes if header_expr(n) is not None for c in calls_in(header_expr(n)) if method_of(c)[1] == 'get' and dotted(method_of(c)[0]) == 'self._spare_lids']
    ck.need(gets8, f'{pe.key}: no get on the spare-token queue')
    for n, c in gets8:
        probs8 = []
        tv = kwarg(c, 'timeout') or (c.args[1] if len(c.args) > 1 else None)
        if tv is None:
            probs8.append('the wait for a spare token has no timeout')
        elif not (isinstance(tv, ast.Constant) and isinstance(tv.value, (int, float)) and not isinstance(tv.value, bool) and tv.value > 0):
            if any(isinstance(x, ast.Constant) and x.value is None for x in ast.walk(tv)) or not isinstance(tv, ast.Constant):
                probs8.append(f'the timeout `{norm_text(tv)}` can be None (or is not a positive number): the supplier then waits for the next round without bound and without ever looking at the stop event — after a stop request it blocks on for ever instead of raising StopRequested')
        if n.loops:
            # the stop test, possibly split: `if self._to_stop is not None:` / `if self._to_stop.is_set():`
            stops8 = {k.id for k in cfg8.nodes if k.kind == 'test' and ('is_set' in norm_text(k.ast) or '_to_stop' in norm_text(k.ast))}
            for e in cfg8.succ[n.id]:
                if e.kind == 'exc' and path_avoiding(cfg8, [e], {n.id}, avoid=stops8) is not None:
                    probs8.append('after an expired wait the get is retried without testing the stop event')
            if not any(isinstance(k.ast, ast.Raise) and k.ast.exc is not None and 'StopRequested' in norm_text(k.ast.exc) for k in cfg8.nodes):
                probs8.append('a set stop event does not raise StopRequested')
        ck.ob('C17-8', pe, c, not probs8, '; '.join(sorted(set(probs8))) if probs8 else f'`{norm_text(c)[:50]}`: bounded' + (', retried only after the stop event was tested' if n.loops else ''))
    ck.rule('C17-5', 'timeouts of put/get reach the underlying queue operation as given (0 = do not wait is legal): re-bound only under `is None`, never replaced through truthiness (GUARD)', minimum=3)
    from .common import check_timeout_passthrough

    check_timeout_passthrough(ck, 'C17-5', [m for c in (mod.cls('ResponsiveQueue'), cls) for m in c.methods()])
    # ------------------------------------------------------------------ C17-1
    f = cls.method('__next__')
    sc = Scope(f)

    def extra(node, a):
        return {'Exception'} if _calls(node, DATA, ('get',), sc) else set()

    cfg = build_cfg(f, ck.repo, make_fallible(sc, iters=set(), calls=set(), extra=extra))
    ck.analysed_func(f, cfg)
    held = held_locks(cfg, sc.canon)
    A = [n for n in cfg.nodes if _calls(n, APPLIED, ('get',), sc)]
    B = [n for n in cfg.nodes if _calls(n, USED, ('put',), sc)]
    F = [n for n in cfg.nodes if _calls(n, USED, ('full',), sc)]
    ck.need(A and B and F, f'{f.key}: token move / full test not found')
    # the full() evaluations that can follow the move of a token in the same activation
    after = reachable(cfg, [e.dst for b in B for e in cfg.normal_succ(b.id)])
    F_after = [n for n in F if n.id in after]
    probs = []
    locks = None
    for n in A + B + F_after:
        h = held.get(n.id, frozenset())
        locks = h if locks is None else (locks & h)
    locks = locks or frozenset()
    if not F_after:
        probs.append('no evaluation of used.full() follows the token move')
    if not locks:
        probs.append('`applied.get()`, `used.put()` and the following `used.full()` are not inside one lock region: two consumers can both move their token and then both see the used queue full, and both add the extra end marker (which survives renew() and ends the next round early)')
    else:
        L = sorted(locks)[0]
        exits = {n.id for n in cfg.nodes if n.kind == 'with_exit' and sc.canon(n.ast.context_expr) == L}
        for a_ in A:
            for fa in F_after:
                mid = reachable(cfg, [a_.id]) & reachable(cfg, [fa.id], forward=False)
                if mid & exits:
                    probs.append(f'`{L}` is released between the token move and the full() test')
        # the "already complete?" test must be in the same region as the move it guards
        F_before = [n for n in F if n.id not in after and A[0].id in reachable(cfg, [n.id])]
        guarded = [n for n in F_before if L in held.get(n.id, frozenset())]
        if F_before and not guarded:
            pass  # an unlocked early-out is allowed as long as a locked re-test exists (checked next)
    ck.ob('C17-1', f, B[0].ast, not probs, '; '.join(sorted(set(probs))) if probs else f'token move and completion test are one region of `{sorted(locks)[0]}` ({len(A)}+{len(B)}+{len(F_after)} sites)')
    # the lock travels with the object
    if locks:
        L = sorted(locks)[0]
        attr = L.split('.', 1)[1] if L.startswith('self.') else L
        init = cls.method('__init__')
        assigns = [n for n in walk_shallow_func(init.node) if isinstance(n, ast.Assign) and any(dotted(t) == L for t in n.targets)]
        kinds = sorted({(dotted(n.value.func) or '?') for n in assigns if isinstance(n.value, ast.Call)})
        gs, ss = cls.method('__getstate__'), cls.method('__setstate__')
        g_names = [dotted(e) for n in walk_shallow_func(gs.node) if isinstance(n, ast.Return) and isinstance(n.value, ast.Tuple) for e in n.value.elts]
        s_names = [dotted(e) for n in walk_shallow_func(ss.node) if isinstance(n, ast.Assign) and isinstance(n.targets[0], ast.Tuple) for e in n.targets[0].elts]
        p2 = []
        if len(assigns) < 2 or not any('multiprocessing' in k for k in kinds):
            p2.append(f'`{L}` is not created as a threading lock for thread queues and a multiprocessing lock for process queues ({kinds})')
        if L not in g_names or L not in s_names:
            p2.append(f'`{L}` is not carried in __getstate__/__setstate__: a consumer in another process would use a different lock')
        elif g_names != s_names:
            p2.append('__getstate__ and __setstate__ disagree on the order of the state tuple')
        ck.ob('C17-1', init, (init.node.lineno, f'{L} identity'), not p2, '; '.join(p2) if p2 else f'`{L}` is a {"/".join(kinds)} created next to the token queues and restored by __setstate__ at the same tuple position')
    # ------------------------------------------------------------------ C17-2 (__next__)
    tests = [n for n in cfg.nodes if n.kind == 'test' and isinstance(n.ast, ast.Compare) and isinstance(n.ast.ops[0], ast.Is) and is_none(n.ast.comparators[0]) and isinstance(n.ast.left, ast.Name)]
    ck.need(tests, f'{f.key}: `z is None` test not found')
    t = tests[0]
    w_get = lambda n: len(_calls(n, APPLIED, ('get',), sc))
    w_put = lambda n: len(_calls(n, USED, ('put',), sc))
    w_mark = lambda n: len(_marker_puts(n, sc))
    se = lambda e: e.kind == 'T'
    probs = []
    diff = count_minmax(cfg, t.id, lambda n: w_get(n) - w_put(n), start_edges=se, back='skip')
    for term, v in diff.items():
        if v != (0, 0) and term != ('node', cfg.exit_raise) or (term == ('node', cfg.exit_raise) and v != (0, 0)):
            probs.append(f'a path moves tokens unevenly (applied.get − used.put = {v})')
    for nm, w in (('applied.get', w_get), ('used.put', w_put), ('end-marker put', w_mark)):
        res = count_minmax(cfg, t.id, w, start_edges=se, back='skip')
        for term, (lo, hi) in res.items():
            if hi > 1:
                probs.append(f'a path performs up to {hi} `{nm}` for one consumed marker')
    # a consumed marker with no token moved must be re-put
    movers = {n.id for n in A}
    markers = {n.id for n in cfg.nodes if _marker_puts(n, sc)}
    g = Guard(cfg, cfg.lat)
    p = g.feasible_path([e for e in cfg.succ[t.id] if e.kind == 'T'], {cfg.exit_return, cfg.exit_raise}, avoid=movers | markers)
    if p is not None:
        probs.append('a consumed end marker can vanish: neither a token is moved nor the marker re-put')
    ck.paths_examined += len(diff)
    ck.ob('C17-2', f, t.ast, not probs, '; '.join(sorted(set(probs))) if probs else 'per consumed marker: either it is re-put (set complete) or exactly one token moves applied→used, plus at most one extra marker')
    # ------------------------------------------------------------------ C17-2 (put_end)
    f2 = cls.method('put_end')
    sc2 = Scope(f2)

    def extra2(node, a):
        R = set()
        for c in _calls(node, SPARE, ('get',), sc2):
            if has_timeout(c):
                R.add('Empty')
        return R

    cfg2 = build_cfg(f2, ck.repo, make_fallible(sc2, iters=set(), calls=set(), extra=extra2))
    ck.analysed_func(f2, cfg2)
    probs = []
    for nm, w, want in (('spare.get', lambda n: len(_calls(n, SPARE, ('get',), sc2)), (1, 1)), ('applied.put', lambda n: len(_calls(n, APPLIED, ('put',), sc2)), (1, 1)), ('end-marker put', lambda n: len(_marker_puts(n, sc2)), (1, 1))):
        res = count_minmax(cfg2, cfg2.entry, w, back='skip')
        for term, v in res.items():
            if term == ('node', cfg2.exit_return) and v != want:
                probs.append(f'put_end returns after {v[0]}..{v[1]} `{nm}` (must be exactly one)')
            if term[0] == 'loop':
                probs.append(f'`{nm}` can repeat in a loop')
            if term == ('node', cfg2.exit_raise) and nm != 'spare.get' and v[1] != 0:
                probs.append(f'put_end can raise after `{nm}` already happened')
    ck.ob('C17-2', f2, (f2.node.lineno, 'put_end'), not probs, '; '.join(sorted(set(probs))) if probs else 'every returning path takes one spare token, puts one applied token and one end marker; raising paths have moved nothing')
    # ------------------------------------------------------------------ C17-2 (renew)
    f3 = cls.method('renew')
    sc3 = Scope(f3)
    cfg3 = build_cfg(f3, ck.repo, None)
    ck.analysed_func(f3, cfg3)
    probs = []
    res = count_minmax(cfg3, cfg3.entry, lambda n: len(_calls(n, DATA, ('get',), sc3)), back='skip')
    if res.get(('node', cfg3.exit_return)) != (1, 1):
        probs.append(f'renew removes {res.get(("node", cfg3.exit_return))} markers from the data queue (must be exactly one)')
    loops = [n for n in cfg3.nodes if n.kind == 'for']
    if not loops:
        probs.append('no recycling loop')
    else:
        lp = loops[0]
        it = lp.ast.iter
        if not (isinstance(it, ast.Call) and dotted(it.func) == 'range' and len(it.args) == 1 and dotted(it.args[0]) == 'self._num_suppliers'):
            probs.append(f'recycling loop runs `{norm_text(it)}` times, not num_suppliers')
        stop = lambda nid: lp.id not in cfg3.nodes[nid].loops and nid != lp.id
        for nm, w in (('used.get', lambda n: len(_calls(n, USED, ('get',), sc3)) if n.id != lp.id else 0), ('spare.put', lambda n: len(_calls(n, SPARE, ('put',), sc3)) if n.id != lp.id else 0)):
            r = count_minmax(cfg3, lp.id, w, stop=stop, start_edges=lambda e: e.kind == 'iter')
            for term, v in r.items():
                if term[0] == 'back' and v != (1, 1):
                    probs.append(f'an iteration performs {v} `{nm}`')
    # the round's extra marker is taken off the data queue BEFORE any token goes back to spare: once a token is
    # recycled the used queue is no longer full, and a consumer that holds the relayed marker would try to move a
    # token that is no longer there (it blocks for ever holding the lids lock, and renew blocks on the data queue)
    mk = {n.id for n in cfg3.nodes if _calls(n, DATA, ('get',), sc3)}
    rec = [n for n in cfg3.nodes if _calls(n, USED, ('get',), sc3) or _calls(n, SPARE, ('put',), sc3)]
    for rn in rec:
        if path_avoiding(cfg3, [cfg3.entry], {rn.id}, avoid=mk) is not None:
            probs.append('tokens are recycled before the extra end marker is removed from the data queue: a peer consumer that already took the relayed marker then waits for ever for an applied token (holding the lids lock), and renew() waits for ever for the marker')
            break
    ck.ob('C17-2', f3, (f3.node.lineno, 'renew'), not probs, '; '.join(probs) if probs else 'renew takes exactly one marker off the data queue, then moves exactly num_suppliers tokens used→spare')
    # ------------------------------------------------------------------ C17-3
    rq = mod.cls('ResponsiveQueue')
    gp = rq.method('_get_put')
    scg = Scope(gp)

    def extra4(node, a):
        return {'Exception'} if any(isinstance(c.func, ast.Name) and c.func.id == 'func' for c in calls_in(a)) else set()

    cfg4 = build_cfg(gp, ck.repo, make_fallible(scg, iters=set(), calls=set(), extra=extra4))
    ck.analysed_func(gp, cfg4)
    probs = []
    waits = [n for n in cfg4.nodes if header_expr(n) is not None and any(isinstance(c.func, ast.Name) and c.func.id == 'func' for c in calls_in(header_expr(n)))]
    ck.need(waits, f'{gp.key}: the delegated blocking call was not found')
    wn = waits[0]
    call = [c for c in calls_in(header_expr(wn)) if isinstance(c.func, ast.Name) and c.func.id == 'func'][0]
    tm = kwarg(call, 'timeout')
    if tm is None or 'wait_interval_seconds' not in {scg.canon(x) and scg.canon(x).split('.')[-1] for x in ast.walk(tm) if isinstance(x, (ast.Name, ast.Attribute))}:
        probs.append('each individual wait is not bounded by wait_interval_seconds')
    elif not any(isinstance(x, ast.Call) and dotted(x.func) == 'min' for x in ast.walk(tm)):
        probs.append('the slice is not min(wait interval, remaining time)')
    if not wn.loops:
        probs.append('the bounded wait is not retried in a loop')
    else:
        # every path from an expired wait back to the next wait passes the stop test
        stops = {n.id for n in cfg4.nodes if n.kind == 'test' and any(method_of(c)[1] == 'is_set' for c in calls_in(n.ast))}

        def set_label(nid):
            t, neg = cfg4.nodes[nid].ast, False
            while isinstance(t, ast.UnaryOp) and isinstance(t.op, ast.Not):
                neg, t = not neg, t.operand
            return 'F' if neg else 'T'

        for e in cfg4.succ[wn.id]:
            if e.kind == 'exc':
                p = path_avoiding(cfg4, [e], {wn.id}, avoid=stops)
                if p is not None:
                    probs.append('after an expired slice the wait is retried without testing the stop event')
        for sid in stops:
            raises = [k for k in cfg4.nodes if isinstance(k.ast, ast.Raise) and k.ast.exc is not None and 'StopRequested' in norm_text(k.ast.exc)]
            if not raises or raises[0].id not in reachable(cfg4, [e.dst for e in cfg4.succ[sid] if e.kind == set_label(sid)], avoid={wn.id}):
                probs.append('a set stop event does not raise StopRequested')
        if not stops:
            probs.append('the stop event is never tested')
    # the remaining time is *recomputed* from the total and the clock in every pass: `rem = total - (clock() - t0)`.
    # A running decrement by the time since t0 (`rem -= clock() - t0`, t0 never reset) subtracts the whole elapsed time
    # again on every pass: the budget shrinks quadratically with the number of polls, and an untimed get/put that stays
    # blocked long enough raises Empty / Full although nobody asked it to stop
    rem_names = {x.id for x in ast.walk(tm) if isinstance(x, ast.Name)} if tm is not None else set()
    loop_ids = set(wn.loops)
    for n in cfg4.nodes:
        if not (set(n.loops) & loop_ids):
            continue
        a_ = n.ast
        if isinstance(a_, ast.AugAssign) and isinstance(a_.target, ast.Name) and a_.target.id in rem_names:
            clockish = any(isinstance(c, ast.Call) and (dotted(c.func) or '').split('.')[-1] in ('perf_counter', 'monotonic', 'time') for c in ast.walk(a_.value))
            starts = {x.id for x in ast.walk(a_.value) if isinstance(x, ast.Name)}
            reset = any(isinstance(k.ast, ast.Assign) and any(isinstance(t_, ast.Name) and t_.id in starts for t_ in k.ast.targets) and (set(k.loops) & loop_ids) for k in cfg4.nodes)
            if clockish and not reset:
                probs.append(f'L{n.lineno}: `{norm_text(a_)}` takes the time since the start off the remaining time on every pass (the start `{sorted(starts - {"perf_counter", "time"})[0] if starts else "?"}` is never reset): the budget shrinks quadratically — a get/put without timeout that stays blocked for a few hundred polls raises Empty / Full with no stop requested')
        if isinstance(a_, ast.Assign) and any(isinstance(t_, ast.Name) and t_.id in rem_names for t_ in a_.targets):
            if any(isinstance(x, ast.Name) and x.id in rem_names and isinstance(x.ctx, ast.Load) for x in ast.walk(a_.value)):
                probs.append(f'L{n.lineno}: `{norm_text(a_)[:60]}` computes the remaining time from its own previous value and the clock: elapsed time is counted more than once')
    # every normal exit returns the result of the delegated call: the loop cannot be left any other way
    for e in cfg4.pred[cfg4.exit_return]:
        src = cfg4.nodes[e.src]
        if not (isinstance(src.ast, ast.Return) and isinstance(src.ast.value, ast.Call) and isinstance(src.ast.value.func, ast.Name) and src.ast.value.func.id == 'func'):
            probs.append(f'_get_put can return (via L{src.lineno}) without having performed the operation: an expired timeout would be reported as success (a put silently drops its item, a get returns None)')
    # expiry of the caller's timeout re-raises the queue's own Full/Empty
    rer = [k for k in cfg4.nodes if isinstance(k.ast, ast.Raise) and k.ast.exc is None]
    if not rer:
        probs.append('when the caller\'s timeout expires the queue\'s Full/Empty is not re-raised')
    ck.ob('C17-3', gp, wn.ast, not probs, '; '.join(sorted(set(probs))) if probs else 'waits in slices of min(wait_interval_seconds, remaining); after each expiry the stop event is tested and StopRequested raised when set')
    # get/put go through _get_put when blocking
    for meth in ('get', 'put'):
        m = rq.method(meth)
        rets = [n for n in walk_shallow_func(m.node) if isinstance(n, ast.Return)]
        via = [r for r in rets if isinstance(r.value, ast.Call) and dotted(r.value.func) == 'self._get_put']
        direct = [r for r in rets if isinstance(r.value, ast.Call) and dotted(r.value.func) in (f'self.queue.{meth}',)]
        guarded = all(any(isinstance(i, ast.If) and isinstance(i.test, ast.UnaryOp) and dotted(i.test.operand) == 'block' and any(x is r for b in i.body for x in ast.walk(b)) for i in walk_shallow_func(m.node)) for r in direct)
        ok = bool(via) and guarded
        ck.ob('C17-3', m, (m.node.lineno, f'ResponsiveQueue.{meth}'), ok, f'blocking {meth} goes through the responsive loop; only `block=False` calls the queue directly' if ok else f'a blocking {meth} can bypass the responsive loop')
    # IterableQueue wraps whenever to_stop is given
    init = cls.method('__init__')
    cfgi = build_cfg(init, ck.repo, None)
    wraps = {n.id for n in cfgi.nodes if isinstance(n.ast, ast.Assign) and isinstance(n.ast.value, ast.Call) and dotted(n.ast.value.func) == 'ResponsiveQueue'}
    store = [n for n in cfgi.nodes if isinstance(n.ast, ast.Assign) and any(dotted(t) == 'self._q' for t in n.ast.targets)]
    tests_ = [n for n in cfgi.nodes if n.kind == 'test' and isinstance(n.ast, ast.Compare) and is_name(n.ast.left, 'to_stop') and isinstance(n.ast.ops[0], ast.IsNot)]
    ok = bool(wraps) and bool(store) and bool(tests_)
    if ok:
        # on every path where `to_stop is not None` held (T edge) and that stores self._q, the wrap is passed or a ValueError raised
        tids = {t.id for t in tests_}
        for t_ in tests_:
            p = path_avoiding(cfgi, [e for e in cfgi.succ[t_.id] if e.kind == 'T'], {store[0].id}, avoid=wraps)
            if p is not None:
                ok = False
    ck.ob('C17-3', init, (init.node.lineno, 'IterableQueue wrap'), ok, 'whenever a stop event is given the data queue is wrapped in ResponsiveQueue (or the combination is rejected)' if ok else 'a stop event can be given without the queue being wrapped: blocked gets/puts would not notice the stop request')


def check_pickle_state(ck: Checker, rid: str, cls):
    """Every attribute __init__ sets travels with the object: __getstate__ returns them all, __setstate__ restores the
    same sequence (or re-runs __init__ with as many values as __init__ has parameters, in parameter order)."""
    init, gs, ss = cls.method('__init__'), cls.method('__getstate__'), cls.method('__setstate__')
    attrs = []
    for n in walk_deep_func(init.node):
        if isinstance(n, ast.Assign):
            for t in n.targets:
                d = dotted(t)
                if d and d.startswith('self.') and d.count('.') == 1 and d not in attrs:
                    attrs.append(d)
    rets = [n for n in walk_shallow_func(gs.node) if isinstance(n, ast.Return)]
    probs = []
    carried = []
    if len(rets) != 1 or not isinstance(rets[0].value, ast.Tuple):
        probs.append('__getstate__ does not return one tuple of attributes')
    else:
        carried = [dotted(e) for e in rets[0].value.elts]
        missing = [a for a in attrs if a not in carried]
        if missing:
            probs.append(f'{missing} set by __init__ do(es) not travel in __getstate__: in a child process the object falls back to a default / a fresh object instead of what was configured (for a lock: the processes no longer exclude each other; for the wait interval: stop requests are noticed late)')
    sp = ss.params()
    restored = None
    for n in walk_shallow_func(ss.node):
        if isinstance(n, ast.Assign) and isinstance(n.targets[0], ast.Tuple) and len(sp) > 1 and is_name(n.value, sp[1]):
            restored = [dotted(e) for e in n.targets[0].elts]
        if isinstance(n, ast.Call) and dotted(n.func) == 'self.__init__':
            # re-initialisation: as many values as parameters, in order
            ip = init.params()[1:]
            want = [f'self.{p}' for p in ip]
            ok_map = all(any(isinstance(k, ast.Assign) and dotted(k.targets[0]) == f'self.{p}' and is_name(k.value, p) for k in walk_shallow_func(init.node)) for p in ip)
            restored = carried if (ok_map and carried == want and len(n.args) == 1 and isinstance(n.args[0], ast.Starred)) else ['<__init__ with fewer / other values than __getstate__ carries>']
    if carried and restored != carried:
        probs.append(f'__setstate__ restores {restored}, __getstate__ carries {carried}')
    ck.ob(rid, gs, rets[0] if rets else gs.node, not probs, '; '.join(probs) if probs else f'all {len(attrs)} attributes set by __init__ travel through __getstate__/__setstate__ in the same order')
