"""C03 -- operator-level necessary conditions of "the pipeline equals its sequential meaning".

These do not decide value-level equivalence.  They decide, on all CFG paths of each operator's
generator, the bookkeeping every such equivalence rests on:

* conservation  -- an element pulled from the input is, on every path of its iteration, stored in the
                   operator's container or yielded (operators that drop by definition are tabled);
* container typestate -- a container that received elements is yielded / flushed before the stream
                   ends, an empty batch is never yielded, a batch is not yielded twice;
* head count    -- the counter compared with the limit equals the number of elements yielded so far,
                   starts at 0, moves by one, and the comparison leaves the loop at `count >= n`;
* tail window   -- the window keeps exactly `n` elements;
* relay         -- Buffer / AsyncBuffer / SyncIter hand every element over once, the consumer yields
                   the dequeued element itself once and ends only on the producer's end marker.
"""

from __future__ import annotations

import ast

from mpsa.cfg import CFG, Node, calls_in, header_expr, walk_shallow
from mpsa.flow import INF, count_minmax, fmt_path, forward, path_avoiding
from mpsa.loader import dotted, norm_text
from mpsa.match import has_timeout, is_name, is_none, method_of, unwrap_await, walk_shallow_func
from mpsa.report import Checker

from . import fifo
from .common import build_cfg, make_fallible, resolve_local

SRC = 'self._instream'

# operators whose definition drops elements (no conservation obligation)
DROPPING = {'Filter': 'keeps only elements the predicate accepts', 'AsyncFilter': 'keeps only elements the predicate accepts', 'Header': 'ignores everything after the first n', 'AsyncHeader': 'ignores everything after the first n'}
# operators that rely on a library combinator for the element bookkeeping
DELEGATING = {'Grouper', 'AsyncGrouper'}


def _yield_value(n: Node):
    """value expression of a `yield v` statement node (None if the node is not a plain yield statement)"""
    a = n.ast
    if n.kind == 'stmt' and isinstance(a, ast.Expr) and isinstance(a.value, ast.Yield):
        return a.value.value
    return None


def _yield_from(n: Node):
    a = n.ast
    if n.kind == 'stmt' and isinstance(a, ast.Expr) and isinstance(a.value, ast.YieldFrom):
        return a.value.value
    return None


def _containers(f, cfg: CFG):
    """locals bound to an empty list / a deque and later appended to"""
    out = {}
    for n in cfg.nodes:
        a = n.ast
        if n.kind == 'stmt' and isinstance(a, ast.Assign) and len(a.targets) == 1 and isinstance(a.targets[0], ast.Name):
            v = a.value
            if (isinstance(v, ast.List) and not v.elts) or (isinstance(v, ast.Call) and (dotted(v.func) or '').split('.')[-1] == 'deque'):
                out.setdefault(a.targets[0].id, []).append(n)
    keep = {}
    for name, defs in out.items():
        if any(header_expr(n) is not None and any(method_of(c)[1] in ('append', 'appendleft') and is_name(method_of(c)[0], name) for c in calls_in(header_expr(n))) for n in cfg.nodes):
            keep[name] = defs
    return keep


def _flushes(cfg: CFG, n: Node, B: str) -> bool:
    """`yield from B`, or the header of `for v in B:` whose body yields v"""
    yf = _yield_from(n)
    if yf is not None and is_name(yf, B):
        return True
    if n.kind == 'for' and is_name(n.ast.iter, B) and isinstance(n.ast.target, ast.Name):
        v = n.ast.target.id
        return any(isinstance(x, ast.Yield) and is_name(x.value, v) for b in n.ast.body for x in ast.walk(b))
    return False


def _len_test(t, B):
    """(op, negated) if t is `len(B) <op> k`"""
    if isinstance(t, ast.Compare) and len(t.ops) == 1 and isinstance(t.left, ast.Call) and dotted(t.left.func) == 'len' and t.left.args and is_name(t.left.args[0], B):
        return t.ops[0]
    return None


def check_container_typestate(ck: Checker, rid: str, f, label: str):
    """E(mpty) / P(ending) / Y(ielded) typestate of each accumulating container of the operator."""
    cfg = build_cfg(f, ck.repo, None, gen_throw=False)
    ck.analysed_func(f, cfg)
    conts = _containers(f, cfg)
    if not conts:
        return 0
    for B, defs in conts.items():
        viol = []

        def node_effect(n: Node, S: frozenset):
            a = n.ast
            if n.kind == 'stmt' and isinstance(a, ast.Assign) and any(is_name(t, B) for t in a.targets):
                v = a.value
                if (isinstance(v, ast.List) and not v.elts) or (isinstance(v, ast.Call) and (dotted(v.func) or '').split('.')[-1] == 'deque' and not v.args):
                    return frozenset({'E'})
                if isinstance(v, ast.List) and v.elts:
                    return frozenset({'P'})
                return frozenset({'U'})
            h = header_expr(n)
            if h is not None and n.kind in ('stmt', 'test'):
                for c in calls_in(h):
                    r, me = method_of(c)
                    if r is not None and is_name(r, B):
                        if me in ('append', 'appendleft', 'extend', 'add', 'insert'):
                            S = frozenset(('P' if s in ('E', 'P') else s) for s in S)
                        elif me == 'clear':
                            if 'P' in S:
                                viol.append((n, f'`{B}.clear()` discards elements that were never yielded'))
                            S = frozenset({'E'})
                        elif me in ('pop', 'popleft', 'remove'):
                            S = frozenset({'U'})
            yv = _yield_value(n)
            if yv is not None and is_name(yv, B):
                if 'E' in S:
                    viol.append((n, f'`yield {B}` can be reached with `{B}` empty: an empty batch is emitted (e.g. for an empty input, or right after a full batch was emitted)'))
                if 'Y' in S:
                    viol.append((n, f'`{B}` can be yielded twice without being rebound: the same elements are emitted again'))
                S = frozenset(('Y' if s in ('E', 'P', 'Y') else s) for s in S)
            if _flushes(cfg, n, B):
                S = frozenset(('Y' if s == 'P' else s) for s in S)
            return S

        def refine(n: Node, kind: str, S: frozenset):
            if n.kind != 'test' or kind not in ('T', 'F'):
                return S
            t, lab = n.ast, kind
            while isinstance(t, ast.UnaryOp) and isinstance(t.op, ast.Not):
                t, lab = t.operand, ('F' if lab == 'T' else 'T')
            if is_name(t, B):
                return S - {'E'} if lab == 'T' else frozenset(s for s in S if s in ('E', 'U'))
            op = _len_test(t, B)
            if op is not None:
                k = t.comparators[0]
                kv = k.value if isinstance(k, ast.Constant) and isinstance(k.value, int) and not isinstance(k.value, bool) else None
                if kv is None:
                    # k is a positive size in all these operators (asserted in the constructors)
                    nonempty_when = {ast.Eq: 'T', ast.GtE: 'T', ast.Gt: 'T', ast.Lt: 'F', ast.NotEq: 'F'}.get(type(op))
                    if nonempty_when == lab:
                        return S - {'E'}
                    return S
                # comparison with a literal: decide both branches
                sat_empty = {ast.Eq: 0 == kv, ast.NotEq: 0 != kv, ast.Gt: 0 > kv, ast.GtE: 0 >= kv, ast.Lt: 0 < kv, ast.LtE: 0 <= kv}.get(type(op))
                only_empty = {ast.Eq: kv == 0, ast.Lt: kv <= 1, ast.LtE: kv <= 0}.get(type(op), False)  # test true => empty
                only_empty_f = {ast.NotEq: kv == 0, ast.Gt: kv <= 0, ast.GtE: kv <= 1}.get(type(op), False)  # test false => empty
                if sat_empty is None:
                    return S
                if lab == 'T':
                    out = S if sat_empty else S - {'E'}
                    if only_empty:
                        out = frozenset(s for s in out if s in ('E', 'U'))
                else:
                    out = S - {'E'} if sat_empty else S
                    if only_empty_f:
                        out = frozenset(s for s in out if s in ('E', 'U'))
                return out
            return S

        def transfer(e, S):
            n = cfg.nodes[e.src]
            if e.is_exc and e.kind == 'exc':
                return S
            out = node_effect(n, S)
            out = refine(n, e.kind, out)
            return out if out else None

        viol.clear()
        st = forward(cfg, frozenset({'U'}), transfer, lambda a, b: a | b)
        # the effects were evaluated repeatedly during the fixpoint: recompute violations on the final states
        viol.clear()
        for n in cfg.nodes:
            if n.id in st:
                node_effect(n, st[n.id])
        seen = set()
        probs = []
        for n, msg in viol:
            if (n.id, msg) not in seen:
                seen.add((n.id, msg))
                probs.append(f'L{n.lineno}: {msg}')
        # normal end of the stream with elements still pending
        end_states = set()
        for e in cfg.pred[cfg.exit_return]:
            if e.src in st:
                out = transfer(e, st[e.src])
                if out:
                    end_states |= out
        if 'P' in end_states:
            probs.append(f'the stream can end while `{B}` still holds elements that were never yielded (no flush on that path): the tail of the stream is lost')
        ck.ob(rid, f, defs[0].ast, not probs, '; '.join(probs) if probs else f'{label}: `{B}` is never yielded empty nor twice, and is flushed (or proven empty) on every normal end of the stream')
    return len(conts)


def _input_loops(cfg: CFG):
    return [n for n in cfg.nodes if n.kind == 'for' and dotted(n.ast.iter) == SRC and isinstance(n.ast.target, ast.Name)]


def check_conservation(ck: Checker, rid: str, f, label: str):
    """Every element pulled from the input is stored or yielded on every path of its iteration, at most once."""
    cfg = build_cfg(f, ck.repo, None, gen_throw=False)
    loops = _input_loops(cfg)
    n_ob = 0
    for hn in loops:
        x = hn.ast.target.id
        # names the element flows into unchanged inside the iteration are not followed: the operators use `x` itself
        def consumes(n: Node, x=x, hn=hn):
            a = n.ast
            yv = _yield_value(n)
            if yv is not None:
                inner = unwrap_await(resolve_local(cfg, n, yv))
                if is_name(inner, x):
                    return 1
                if isinstance(inner, ast.Call) and any(is_name(arg, x) for arg in inner.args):
                    return 1  # yield func(x)
                if isinstance(inner, ast.Tuple) and any(is_name(el, x) for el in inner.elts):
                    return 1
            yf = _yield_from(n)
            if yf is not None and is_name(yf, x):
                return 1
            if n.kind == 'for' and n.id != hn.id and is_name(n.ast.iter, x) and isinstance(n.ast.target, ast.Name):
                v = n.ast.target.id
                if any(isinstance(y, ast.Yield) and is_name(y.value, v) for b in n.ast.body for y in ast.walk(b)):
                    return 1
            h = header_expr(n)
            if h is not None and n.kind == 'stmt':
                for c in calls_in(h):
                    r, me = method_of(c)
                    if me in ('append', 'appendleft', 'put', 'add') and r is not None and c.args and is_name(c.args[0], x):
                        return 1
                if isinstance(a, ast.Assign) and is_name(a.value, x) and any(isinstance(t, ast.Subscript) for t in a.targets):
                    return 1
            return 0

        cons = {n.id for n in cfg.nodes if hn.id in n.loops and consumes(n)}
        probs = []
        back = [(s, d) for (s, d) in cfg.back_edges if d == hn.id]
        # (1) no path of a completed iteration avoids every consuming construct
        tails = {s for (s, d) in back}
        p = None
        if not cons:
            probs.append(f'the element `{x}` is neither stored nor yielded anywhere in the loop')
        else:
            # reach the back edge source without passing a consuming node
            p = path_avoiding(cfg, [e for e in cfg.succ[hn.id] if e.kind == 'iter'], tails - cons, avoid=cons, edge_ok=lambda e: not e.is_exc and not ((e.src, e.dst) in cfg.back_edges and e.dst != hn.id and False))
            if p is not None:
                probs.append(f'an iteration can complete without storing or yielding the element `{x}`: it is dropped silently')
        # (2) at most once
        inner_headers = {n.id for n in cfg.nodes if n.kind == 'for' and n.id != hn.id and hn.id in n.loops}
        res = count_minmax(cfg, hn.id, lambda n: 1 if (n.id in cons and n.id not in inner_headers) else 0, stop=lambda nid: nid == hn.id, start_edges=lambda e: e.kind == 'iter')
        for term, (lo, hi) in res.items():
            if term[0] == 'back' and term[2] == hn.id and hi != INF and hi > 1:
                probs.append(f'the element `{x}` can be stored / yielded {hi} times in one iteration')
        # (3) an element read out of a container slot that is then overwritten (`y = B[i]; B[i] = x`) is displaced:
        #     it must be yielded before the iteration completes
        for n in cfg.nodes:
            a = n.ast
            if hn.id in n.loops and n.kind == 'stmt' and isinstance(a, ast.Assign) and len(a.targets) == 1 and isinstance(a.targets[0], ast.Name) and isinstance(a.value, ast.Subscript) and isinstance(a.value.value, ast.Name):
                y, B, idx = a.targets[0].id, a.value.value.id, norm_text(a.value.slice)
                over = [m for m in cfg.nodes if hn.id in m.loops and m.kind == 'stmt' and isinstance(m.ast, ast.Assign) and any(isinstance(t, ast.Subscript) and is_name(t.value, B) and norm_text(t.slice) == idx for t in m.ast.targets)]
                if not over:
                    continue
                yn = {m.id for m in cfg.nodes if hn.id in m.loops and _yield_value(m) is not None and is_name(_yield_value(m), y)}
                pp = path_avoiding(cfg, cfg.normal_succ(n.id), {hn.id}, avoid=yn, edge_ok=lambda e: not e.is_exc)
                if pp is not None:
                    probs.append(f'L{n.lineno}: the element `{y}` taken out of `{B}[{idx}]` (its slot is overwritten at L{over[0].lineno}) is not yielded on every path: it is lost')
        ck.paths_examined += len(res)
        n_ob += 1
        ck.ob(rid, f, hn.ast, not probs, '; '.join(sorted(set(probs))) if probs else f'{label}: on every path of a completed iteration the element `{x}` is stored or yielded, at most once', path=fmt_path(cfg, [hn.id] + p) if p else '')
    return n_ob


def check_head_count(ck: Checker, rid: str, f, label: str):
    """head(n): the counter tested against the limit equals the number of yields so far."""
    cfg = build_cfg(f, ck.repo, None, gen_throw=False)
    ck.analysed_func(f, cfg)
    loops = _input_loops(cfg)
    ck.need(loops, f'{f.key}: no loop over the input')
    hn = loops[0]
    x = hn.ast.target.id
    # the limit: self.n or a local alias of it
    limit = {'self.n'}
    for n in cfg.nodes:
        if n.kind == 'stmt' and isinstance(n.ast, ast.Assign) and dotted(n.ast.value) == 'self.n' and isinstance(n.ast.targets[0], ast.Name):
            limit.add(n.ast.targets[0].id)
    MIRROR = {ast.Lt: ast.Gt, ast.Gt: ast.Lt, ast.LtE: ast.GtE, ast.GtE: ast.LtE, ast.Eq: ast.Eq, ast.NotEq: ast.NotEq}
    tests = []
    oriented = {}
    for n in cfg.nodes:
        if n.kind == 'test' and hn.id in n.loops and isinstance(n.ast, ast.Compare) and len(n.ast.ops) == 1:
            l_, r_, o_ = n.ast.left, n.ast.comparators[0], type(n.ast.ops[0])
            if isinstance(l_, ast.Name) and dotted(r_) in limit:
                tests.append(n)
                oriented[n.id] = (l_.id, o_)
            elif isinstance(r_, ast.Name) and dotted(l_) in limit and r_.id not in limit and o_ in MIRROR:
                tests.append(n)  # `limit <= counter`: read as `counter >= limit`
                oriented[n.id] = (r_.id, MIRROR[o_])
    probs = []
    if len(tests) != 1:
        ck.ob(rid, f, hn.ast, False, f'{len(tests)} comparisons of a counter with the limit `self.n` found in the loop (expected one)')
        return
    t = tests[0]
    cnt, op = oriented[t.id]
    leave = {ast.GtE: 'T', ast.Eq: 'T', ast.Lt: 'F', ast.NotEq: 'F'}.get(op)
    if leave is None:
        probs.append(f'the loop is left on `{norm_text(t.ast)}`: with `>`/`<=` one element too many (or too few) is yielded')
    inits = [n for n in cfg.nodes if n.kind == 'stmt' and isinstance(n.ast, ast.Assign) and any(is_name(tg, cnt) for tg in n.ast.targets)]
    if not (len(inits) == 1 and hn.id not in inits[0].loops and isinstance(inits[0].ast.value, ast.Constant) and inits[0].ast.value.value == 0 and not isinstance(inits[0].ast.value.value, bool)):
        probs.append(f'the counter `{cnt}` does not start at 0 (assigned exactly once, before the loop)')
    incs = {n.id for n in cfg.nodes if n.kind == 'stmt' and isinstance(n.ast, ast.AugAssign) and is_name(n.ast.target, cnt)}
    for i in incs:
        a = cfg.nodes[i].ast
        if not (isinstance(a.op, ast.Add) and isinstance(a.value, ast.Constant) and a.value.value == 1):
            probs.append(f'L{a.lineno}: the counter moves by `{norm_text(a)}`, not by one')
    ys = {n.id for n in cfg.nodes if hn.id in n.loops and _yield_value(n) is not None}
    for n in cfg.nodes:
        if n.id in ys and not is_name(_yield_value(n), x):
            probs.append(f'L{n.lineno}: head yields `{norm_text(_yield_value(n))}`, not the element itself')
    w = lambda n: (1 if n.id in ys else 0) - (1 if n.id in incs else 0)
    # (a) from the start of an iteration to the comparison: yields - increments == 0
    res = count_minmax(cfg, hn.id, w, stop=lambda nid: nid == t.id or nid == hn.id, start_edges=lambda e: e.kind == 'iter')
    v = res.get(('node', t.id))
    if v is None:
        probs.append('the comparison is not reached in every iteration')
    elif v != (0, 0):
        probs.append(f'when the counter is compared with the limit it is off by {v[0]}..{v[1]} from the number of elements yielded so far')
    for term, val in res.items():
        if term[0] == 'back' and term[2] == hn.id:
            probs.append('an iteration can complete without comparing the counter with the limit')
    # (b) from the comparison (staying in the loop) to the next iteration: again balanced
    if leave:
        stay = 'F' if leave == 'T' else 'T'
        res2 = count_minmax(cfg, t.id, w, stop=lambda nid: nid == hn.id, start_edges=lambda e: e.kind == stay)
        for term, val in res2.items():
            if term[0] == 'back' and term[2] == hn.id and val != (0, 0):
                probs.append(f'between the comparison and the next iteration yields and increments differ by {val[0]}..{val[1]}')
        # the leaving branch leaves the loop without yielding
        p = path_avoiding(cfg, [e for e in cfg.succ[t.id] if e.kind == leave], ys | {hn.id})
        q = path_avoiding(cfg, [e for e in cfg.succ[t.id] if e.kind == leave], ys | {hn.id}, avoid=set())
        inside = [nid for nid in (q or []) if nid in ys or nid == hn.id]
        if inside:
            probs.append('after the limit is reached the loop goes on (or yields once more)')
        # whole iteration balanced on the staying branch, and exactly one yield per completed iteration
        yres = count_minmax(cfg, hn.id, lambda n: 1 if n.id in ys else 0, stop=lambda nid: nid == hn.id, start_edges=lambda e: e.kind == 'iter')
        for term, val in yres.items():
            if term[0] == 'back' and term[2] == hn.id and val != (1, 1):
                probs.append(f'a completed iteration yields {val[0]}..{val[1]} elements')
        # no pull after the limit: between a yield and the next pull from the source (the loop header) the limit is
        # tested -- a loop that tests at the top of the next round has pulled element n+1 by then: if that pull raises
        # or blocks, head(n) raises or blocks after having delivered its n elements, and the element is lost to a
        # source that is shared
        p2 = None
        for y in ys:
            p2 = p2 or path_avoiding(cfg, cfg.normal_succ(y), {hn.id}, avoid={t.id})
        if p2 is not None:
            probs.append(f'after a yield the source is pulled again (L{hn.lineno}) before the counter is compared with the limit: head(n) takes n+1 elements out of its source — when that extra pull raises or blocks, so does head, after it has delivered all it was asked for')
    ck.ob(rid, f, t.ast, not probs, '; '.join(sorted(set(probs))) if probs else f'{label}: counter `{cnt}` starts at 0, equals the number of yielded elements whenever it is compared, and `{norm_text(t.ast)}` leaves the loop: exactly min(n, len) elements, and exactly that many pulls')


def check_tail_window(ck: Checker, rid: str, f, label: str):
    dq = [n for n in walk_shallow_func(f.node) if isinstance(n, ast.Call) and (dotted(n.func) or '').split('.')[-1] == 'deque']
    probs = []
    if len(dq) != 1:
        probs.append('tail does not keep its window in one deque')
    else:
        ml = [k.value for k in dq[0].keywords if k.arg == 'maxlen']
        if dq[0].args:
            probs.append('the window deque is pre-filled')
        if not ml:
            probs.append('the window deque is unbounded')
        elif dotted(ml[0]) != 'self.n':
            probs.append(f'the window keeps `{norm_text(ml[0])}` elements, not `self.n`')
    for n in walk_shallow_func(f.node):
        if isinstance(n, ast.Call) and method_of(n)[1] == 'appendleft':
            probs.append('elements are added at the left end: the window would keep the first n (reversed), not the last n')
    ck.ob(rid, f, dq[0] if dq else f.node, not probs, '; '.join(probs) if probs else f'{label}: the window is `deque(maxlen=self.n)` filled with append: the last n elements in order')


# ---------------------------------------------------------------------- relay (Buffer / AsyncBuffer / SyncIter)
def check_relay(ck: Checker, rid: str, p):
    """p: a c05.Pair of the class style."""
    # ---- producer: one blocking put of the loop variable per completed iteration
    fal = make_fallible(p.pscope, iters={p.in_expr}, calls=set())
    pcfg = build_cfg(p.prod, ck.repo, fal)
    ploops = [n for n in pcfg.nodes if n.kind == 'for' and dotted(n.ast.iter) == p.in_expr]
    ck.need(ploops, f'{p.prod.key}: input loop not found')
    hn = ploops[0]
    x = hn.ast.target.id if isinstance(hn.ast.target, ast.Name) else None
    puts = {}
    for n in pcfg.nodes:
        if hn.id not in n.loops:
            continue
        a = header_expr(n)
        for c, item in (fifo.put_sites(a, p.pscope, p.q) if a is not None else []):
            puts[n.id] = item
    probs = []
    for nid, item in puts.items():
        if not is_name(item, x):
            probs.append(f'L{pcfg.nodes[nid].lineno}: the producer hands over `{norm_text(item)}`, not the element `{x}` itself')
    res = count_minmax(pcfg, hn.id, lambda n: 1 if n.id in puts else 0, stop=lambda nid: nid == hn.id, start_edges=lambda e: e.kind == 'iter')
    for term, val in res.items():
        if term[0] == 'back' and term[2] == hn.id and val != (1, 1):
            probs.append(f'a completed producer iteration hands the element over {val[0]}..{val[1]} times')
    ck.paths_examined += len(res)
    ck.ob(rid, p.prod, hn.ast, not probs and bool(puts), '; '.join(sorted(set(probs))) if probs else f'{p.label}: every pulled element is handed over exactly once, unchanged')
    # ---- consumer
    def extra(node, a):
        R = set()
        for c in calls_in(a):
            r, me = method_of(c)
            if (me == 'get' and (has_timeout(c) or any(k.arg == 'block' for k in c.keywords))) or me == 'get_nowait':
                R.add('Empty')
        return R

    ccfg = build_cfg(p.cons, ck.repo, make_fallible(p.cscope, iters=set(), calls=set(), extra=extra), gen_throw=False)
    cands = []
    for n in ccfg.nodes:
        if n.pending is None and n.loops and n.kind == 'stmt' and isinstance(n.ast, ast.Assign) and isinstance(n.ast.targets[0], ast.Name):
            v = unwrap_await(n.ast.value)
            if isinstance(v, ast.Call) and fifo.get_sites(v, p.cscope, p.q):
                cands.append(n)
    if not cands:
        # the iterator method is not the generator that dequeues: the relay was started by a plain method that hands the
        # loop to someone else -- the producer then runs from the moment iter() is called, not from the first request
        ck.ob(rid, p.cons, p.cons.node, False, f'{p.cons.qualname} does not dequeue from `{p.q}` in a loop of its own: it is not the consumer generator of the relay (a plain method that starts the producer and returns another generator pulls the source as soon as iter() is called, before anything was requested)')
        return
    # the dequeue that starts an iteration (not the `e = q.get()` that fetches a forwarded exception to raise it)
    yielded = {(_yield_value(n).id if isinstance(_yield_value(n), ast.Name) else None) for n in ccfg.nodes if _yield_value(n) is not None}
    getn = next((n for n in cands if n.ast.targets[0].id in yielded), cands[0])
    z = getn.ast.targets[0].id
    loop = ccfg.nodes[getn.loops[-1]]
    if loop.kind != 'test':
        loop = ccfg.nodes[getn.loops[0]]
    fifo.check_loop_ends_on_marker(ck, rid, p.cons, ccfg, loop, z)
    ys = {n.id for n in ccfg.nodes if loop.id in n.loops and n.pending is None and _yield_value(n) is not None}
    probs = []
    for nid in ys:
        yv = _yield_value(ccfg.nodes[nid])
        if not is_name(yv, z):
            probs.append(f'L{ccfg.nodes[nid].lineno}: the consumer yields `{norm_text(yv)}`, not the dequeued element `{z}`')
    res = count_minmax(ccfg, getn.id, lambda n: 1 if n.id in ys else 0, stop=lambda nid: nid == loop.id, edge_ok=lambda e: not e.is_exc)
    for term, val in res.items():
        if term[0] == 'back' and term[2] == loop.id and val != (1, 1):
            probs.append(f'after a successful dequeue the iteration can complete having yielded the element {val[0]}..{val[1]} times')
    reassigned = [n for n in ccfg.nodes if loop.id in n.loops and n.id != getn.id and n.pending is None and n.kind == 'stmt' and isinstance(n.ast, (ast.Assign, ast.AugAssign)) and any(is_name(t, z) for t in (n.ast.targets if isinstance(n.ast, ast.Assign) else [n.ast.target]))]
    if reassigned:
        probs.append(f'L{reassigned[0].lineno}: `{z}` is re-bound between the dequeue and the yield')
    ck.paths_examined += len(res)
    ck.ob(rid, p.cons, getn.ast, not probs and bool(ys), '; '.join(sorted(set(probs))) if probs else f'{p.label}: every dequeued element that is not a marker is yielded itself, exactly once')


def check_classinfo_params(ck: Checker, rid: str, mod, clsname: str):
    """A user-supplied collection of exception classes that reaches `isinstance` as its second argument must be a class
    or a tuple by then: `isinstance(x, [ValueError])` and even `isinstance(x, [])` raise TypeError.  The operator methods
    that take such a parameter (documented as "() or []", annotated `Sequence[type]`) therefore turn a list into a tuple
    before the parameter is used -- otherwise the first exception object in the stream raises TypeError in place of the
    documented behaviour (drop / keep / raise the object itself)."""
    cls = mod.cls(clsname)
    n_ob = 0
    for m in cls.methods():
        params = set(m.params()) - {'self'}
        if not params:
            continue
        # names that carry a parameter into nested scopes: the parameter itself, or self._x = <param> in a nested class
        carriers = {p: p for p in params}
        for n in ast.walk(m.node):
            if isinstance(n, ast.Assign) and len(n.targets) == 1 and isinstance(n.value, ast.Name) and n.value.id in params and dotted(n.targets[0]):
                carriers[dotted(n.targets[0])] = n.value.id
        used = {}
        for n in ast.walk(m.node):
            if isinstance(n, ast.Call) and dotted(n.func) == 'isinstance' and len(n.args) == 2:
                d = dotted(n.args[1])
                if d in carriers:
                    used.setdefault(carriers[d], n)
        for p_, site in used.items():
            # a normalising assignment at the level of the method itself: p = tuple(p) (possibly under a list test), or (p,)
            norm = [n for n in walk_shallow_func(m.node) if isinstance(n, ast.Assign) and len(n.targets) == 1 and is_name(n.targets[0], p_) and isinstance(n.value, ast.Call) and dotted(n.value.func) == 'tuple' and n.value.args and is_name(n.value.args[0], p_)]
            n_ob += 1
            ck.ob(rid, m, site, bool(norm), f'`{p_}` is turned into a tuple (L{norm[0].lineno}) before it reaches `{norm_text(site)[:50]}`' if norm else f'`{p_}` reaches `{norm_text(site)[:60]}` as given: a list — which the documentation of {m.name}() allows, the empty list included — makes isinstance raise TypeError at the first exception object in the stream, in place of dropping / keeping / raising that object')
    return n_ob
