"""C05 -- streams end cleanly on early stop or failure (structural clauses).

Producer/consumer pairs: a producer thread/task walks the source and puts on a bounded queue;
the consumer generator gets from it.  Pairs are located by role (who is spawned, which queue is
shared, which Event is polled).
"""

from __future__ import annotations

import ast
from dataclasses import dataclass

from mpsa.cfg import CFG, Node, calls_in, header_expr, walk_shallow
from mpsa.exc import ExcLattice
from mpsa.flow import INF, count_minmax, fmt_path, path_avoiding, reachable
from mpsa.loader import AnchorError, ClassInfo, FuncInfo, dotted, norm_text
from mpsa.match import (
    Scope,
    binding_names,
    call_dotted,
    ctor_tags,
    has_timeout,
    is_name,
    is_none,
    kwarg,
    local_ctor,
    method_of,
    spawn_sites,
    unwrap_await,
    walk_deep_func,
    walk_shallow_func,
)
from mpsa.report import Checker

from . import fifo
from .common import STREAMER, STREAMER_ASYNC, USER_RAISES, build_cfg, is_isinstance, make_fallible
from .linear import linear_lower_bound


@dataclass
class Pair:
    label: str
    cons: FuncInfo
    prod: FuncInfo
    cscope: Scope
    pscope: Scope
    q: str
    flag: str
    worker: str
    q_ctor: ast.Call
    q_ctor_owner: FuncInfo
    fin: FuncInfo | None  # finalizer method (class style) or None (inline cleanup)
    in_expr: str  # producer-side expression iterated
    calls: set
    bound_param: str | None  # parameter that bounds the queue (for LINEAR)


PER_RUN: dict = {}


def _class_pair(ck, rel, clsname, iter_name, start='_start', fin='_finalize') -> Pair:
    cls = ck.repo.cls(rel, clsname)
    st = cls.method(start)
    qattr = flag = worker = prod = None
    qctor = None
    created_in = {}
    holders = [st] + ([cls.method('__init__')] if '__init__' in {m.name for m in cls.methods()} else [])
    for holder in holders:
        for n in walk_shallow_func(holder.node):
            if isinstance(n, ast.Assign) and len(n.targets) == 1 and isinstance(n.value, ast.Call):
                t = dotted(n.targets[0])
                d = call_dotted(n.value) or ''
                last = d.split('.')[-1]
                if t and t.startswith('self.'):
                    if (fifo.QUEUE_CTORS.get(d) or fifo.QUEUE_CTORS.get(last)) and qattr is None:
                        qattr, qctor = t, n.value
                        created_in[t] = (holder, n)
                    elif last == 'Event' and flag is None:
                        flag = t
                        created_in[t] = (holder, n)
                    elif last == 'Thread' and worker is None:
                        worker = t
                        created_in[t] = (holder, n)
                        tgt = kwarg(n.value, 'target')
                        if tgt is not None and dotted(tgt) and dotted(tgt).startswith('self.'):
                            prod = cls.method(dotted(tgt).split('.', 1)[1])
    ck.need(qattr and flag and worker and prod, f'{cls.qualname}.{start}: queue / stop flag / worker thread not identified')
    PER_RUN[cls.qualname] = (cls, st, created_in)
    # async producers: the thread target only runs `asyncio.run(main())`
    loops = [n for n in walk_shallow_func(prod.node) if isinstance(n, (ast.For, ast.AsyncFor))]
    if not loops:
        nested = [f for f in cls.module.functions.values() if f.parent is prod]
        ck.need(len(nested) == 1, f'{prod.key}: producer loop not found')
        prod = nested[0]
    loops = [n for n in walk_shallow_func(prod.node) if isinstance(n, (ast.For, ast.AsyncFor))]
    ck.need(loops, f'{prod.key}: no input loop')
    cons = cls.method(iter_name)
    return Pair(cls.qualname, cons, prod, Scope(cons), Scope(prod), qattr, flag, worker, qctor, st, cls.method(fin), dotted(loops[0].iter), set(), 'maxsize')


def _fifo_pair(ck, name) -> Pair:
    outer = ck.repo.func(STREAMER, name)
    m = fifo.discover(ck.repo, outer)
    ck.need(m.stop, f'{outer.key}: stop flag not found')
    # the worker handle: local assigned from the spawn call
    worker = None
    for n in walk_shallow_func(outer.node):
        if isinstance(n, ast.Assign) and n.value is m.spawn.call and isinstance(n.targets[0], ast.Name):
            worker = n.targets[0].id
    ck.need(worker, f'{outer.key}: feeder handle not bound to a name')
    return Pair(name, outer, m.feeder, m.oscope, m.fscope, m.q, m.stop, worker, m.q_ctor[1], outer, None, m.in_param, {m.func_param, m.pre_param} - {None}, 'capacity')


def pairs(ck: Checker):
    return [
        _fifo_pair(ck, 'fifo_stream'),
        _fifo_pair(ck, 'async_fifo_stream'),
        _class_pair(ck, STREAMER, 'Buffer', '__iter__'),
        _class_pair(ck, STREAMER_ASYNC, 'AsyncBuffer', '__aiter__'),
        _class_pair(ck, STREAMER_ASYNC, 'SyncIter', '__iter__'),
    ]


# ----------------------------------------------------------------------
def prod_cfg(ck: Checker, p: Pair) -> CFG:
    fal = make_fallible(p.pscope, iters={p.in_expr, p.pscope.canon(p.in_expr)}, calls=p.calls)
    cfg = build_cfg(p.prod, ck.repo, fal)
    ck.analysed_func(p.prod, cfg)
    return cfg


def _puts(n: Node, sc: Scope, q: str):
    a = header_expr(n)
    return fifo.put_sites(a, sc, q) if a is not None else []


def _gets(n: Node, sc: Scope, q: str):
    a = header_expr(n)
    return fifo.get_sites(a, sc, q) if a is not None else []


def _input_loop(cfg: CFG, p: Pair) -> Node:
    for n in cfg.nodes:
        if n.kind == 'for' and dotted(n.ast.iter) == p.in_expr:
            return n
    raise AnchorError(f'{p.prod.key}: input loop not found')


def _flag_tests(cfg: CFG, sc: Scope, flag: str):
    """test nodes involving `flag.is_set()` -> the edge label the test takes whenever the flag IS set
    (`if flag.is_set()`, `if not flag.is_set()`, `if flag.is_set() or other`, `if not flag.is_set() and ...`)."""

    def implied(t):
        if isinstance(t, ast.Call) and method_of(t)[1] == 'is_set' and sc.canon(method_of(t)[0]) == flag:
            return 'T'
        if isinstance(t, ast.UnaryOp) and isinstance(t.op, ast.Not):
            v = implied(t.operand)
            return {'T': 'F', 'F': 'T'}.get(v)
        if isinstance(t, ast.BoolOp):
            vs = [implied(v) for v in t.values]
            if isinstance(t.op, ast.Or):
                return 'T' if 'T' in vs else ('F' if all(v == 'F' for v in vs) else None)
            return 'F' if 'F' in vs else ('T' if all(v == 'T' for v in vs) else None)
        return None

    out = {}
    for n in cfg.nodes:
        if n.kind != 'test':
            continue
        lab = implied(n.ast)
        if lab is not None:
            out[n.id] = lab
    return out


def _raises_next_item(body):
    """`raise q.get()`, or `e = q.get()` (possibly awaited) directly followed by `raise e`.  The get must be the
    blocking one: the producer puts the marker and the exception in two steps, a non-blocking get can find the
    queue still empty."""

    def blocking_get(v):
        v = unwrap_await(v)
        return isinstance(v, ast.Call) and method_of(v)[1] == 'get' and not any(k.arg == 'block' for k in v.keywords) and len(v.args) == 0

    got = None
    for b in body:
        if isinstance(b, ast.Raise) and b.exc is not None:
            if blocking_get(b.exc):
                return True
            v = unwrap_await(b.exc)
            return isinstance(v, ast.Name) and v.id == got
        if isinstance(b, ast.Assign) and len(b.targets) == 1 and isinstance(b.targets[0], ast.Name):
            got = b.targets[0].id if blocking_get(b.value) else None
        elif not isinstance(b, ast.Expr):
            got = None
    return False


def check_terminal_item(ck: Checker, rid: str, p: Pair):
    cfg = prod_cfg(ck, p)
    loop = _input_loop(cfg, p)
    term_puts = {n.id for n in cfg.nodes if _puts(n, p.pscope, p.q) and loop.id not in n.loops}
    ck.need(term_puts, f'{p.prod.key}: no terminal put after the input loop')
    # exits exempt: reached after observing the consumer's own stop flag set and never processing again
    flag_tests = _flag_tests(cfg, p.pscope, p.flag)
    probs = []
    # consumer-side get must be untimed for this rule to matter (else the consumer polls liveness)
    for e in cfg.exits():
        # path from entry to this exit edge avoiding terminal puts
        src = e.src
        pth = path_avoiding(cfg, [cfg.entry], {src}, avoid=term_puts)
        if pth is None and src not in term_puts:
            continue
        if src in term_puts:
            continue
        # exempt if every such path passes through a flag test on its "set" branch
        set_edges_dst = set()
        for tid, lab in flag_tests.items():
            for fe in cfg.succ[tid]:
                if fe.kind == lab:
                    set_edges_dst.add((tid, fe.dst))
        # remove "flag set" edges and try again
        pth2 = path_avoiding(cfg, [cfg.entry], {src}, avoid=term_puts, edge_ok=lambda x: not (x.src in flag_tests and x.kind == flag_tests[x.src]))
        if pth2 is None:
            continue
        if e.is_exc:
            what = f'`{"/".join(sorted(e.data))}` escaping from L{cfg.nodes[src].lineno}'
        else:
            what = f'the exit at L{cfg.nodes[src].lineno}'
        probs.append((what, pth2 + [e.dst]))
    ck.paths_examined += len(cfg.exits())
    if probs:
        what, pth = probs[0]
        ck.ob(rid, p.prod, (p.prod.node.lineno, f'{p.label} producer exits'), False, f'{what} ends the producer without a terminal item on `{p.q}`: the consumer blocks for ever in its untimed get' + (f' (+{len(probs) - 1} more exits)' if len(probs) > 1 else ''), path=fmt_path(cfg, pth))
    else:
        ck.ob(rid, p.prod, (p.prod.node.lineno, f'{p.label} producer exits'), True, f'all {len(cfg.exits())} exits (exhaustion, stop flag, Exception and StopRequested from source / worker function / preprocessor) put a terminal item, or follow the consumer\'s own stop flag')


# ----------------------------------------------------------------------
def check_vocabulary(ck: Checker, rid: str, p: Pair):
    cfg = prod_cfg(ck, p)
    loop = _input_loop(cfg, p)
    lat = cfg.lat
    # what the producer can send as terminal items
    sent_none = sent_consts = False
    consts = []
    forwarded = set()  # exception classes forwarded as objects
    after_marker = set()  # put nodes that directly follow a marker put (marker protocol: marker, then the exception)
    for n in cfg.nodes:
        if loop.id in n.loops:
            continue
        its = _puts(n, p.pscope, p.q)
        if its and isinstance(its[0][1], ast.Name) and not [h for h in cfg.nodes if h.kind == 'except' and h.ast.name == its[0][1].id]:
            for e in cfg.normal_succ(n.id):
                after_marker.add(e.dst)
    for n in cfg.nodes:
        if loop.id in n.loops:
            continue
        for c, item in _puts(n, p.pscope, p.q):
            if is_none(item):
                sent_none = True
            elif isinstance(item, ast.Name):
                hs = [h for h in cfg.nodes if h.kind == 'except' and h.ast.name == item.id]
                if hs:
                    if n.id in after_marker:
                        continue
                    for h in hs:
                        forwarded |= set(h.extra.get('caught') or ())
                else:
                    consts.append(item.id)
    # consumer recognisers (main loop and cleanup loop)
    csrc = [p.cons] + ([p.fin] if p.fin else [])
    is_none_tests = 0
    inst_sets = []
    eq_names = set()
    raise_get_after = {}
    for f in csrc:
        for n in walk_shallow_func(f.node):
            if isinstance(n, ast.If):
                t = n.test
                if isinstance(t, ast.Compare) and isinstance(t.ops[0], ast.Is) and is_none(t.comparators[0]):
                    is_none_tests += 1
                ii = is_isinstance(t)
                if ii:
                    inst_sets.append((n, ii[1]))
                if isinstance(t, ast.Compare) and isinstance(t.ops[0], (ast.Eq, ast.Is)) and isinstance(t.comparators[0], ast.Name):
                    eq_names.add(t.comparators[0].id)
                    raise_get_after[t.comparators[0].id] = _raises_next_item(n.body)
    probs = []
    detail = []
    if sent_none:
        if not is_none_tests:
            probs.append('producer ends with `None` but the consumer never tests `is None`')
        detail.append('None↔`is None`')
    if forwarded:
        if not inst_sets:
            probs.append('producer forwards exception objects but the consumer has no isinstance test')
        for node, names in inst_sets:
            for k in sorted(forwarded):
                if not lat.covers(names, k):
                    probs.append(f'producer forwards `{k}` objects but the consumer test at L{node.lineno} recognises only {names}: the object is treated as a data item')
        detail.append(f'{sorted(forwarded)} objects↔isinstance')
    if consts:
        # constants: resolve consumer aliases  finished = FINISHED
        amap = {}
        for f in csrc:
            for n in walk_shallow_func(f.node):
                if isinstance(n, ast.Assign) and isinstance(n.targets[0], ast.Name) and isinstance(n.value, ast.Name):
                    amap[n.targets[0].id] = n.value.id
        recognised = {amap.get(x, x) for x in eq_names}
        for c in consts:
            if c not in recognised:
                probs.append(f'producer sends marker `{c}` which the consumer never compares against')
        # marker followed by the exception: consumer must raise the next item
        seq = [item.id for n in cfg.nodes if loop.id not in n.loops for _, item in _puts(n, p.pscope, p.q) if isinstance(item, ast.Name)]
        for n in cfg.nodes:
            if n.kind == 'except' and loop.id not in n.loops:
                # puts in handler order
                hp = []
                cur = n.id
                seen = set()
                while True:
                    nxt = cfg.normal_succ(cur)
                    if len(nxt) != 1 or nxt[0].dst in seen:
                        break
                    cur = nxt[0].dst
                    seen.add(cur)
                    for _, item in _puts(cfg.nodes[cur], p.pscope, p.q):
                        hp.append(item)
                if len(hp) >= 1 and isinstance(hp[0], ast.Name) and hp[0].id in consts:
                    marker = hp[0].id
                    if not (len(hp) == 2 and isinstance(hp[1], ast.Name) and hp[1].id == n.ast.name):
                        probs.append(f'failure marker `{marker}` is not followed by exactly the caught exception')
                    alias = [k for k, v in amap.items() if v == marker] + [marker]
                    if not any(raise_get_after.get(a) for a in alias):
                        probs.append(f'consumer does not `raise <queue>.get()` on marker `{marker}`')
        detail.append(f'{sorted(set(consts))}↔marker tests')
    ck.ob(rid, p.cons, (p.cons.node.lineno, f'{p.label} vocabulary'), not probs, '; '.join(probs) if probs else 'terminal vocabulary agrees: ' + ', '.join(detail))


# ----------------------------------------------------------------------
def _setter_calls(p: Pair):
    """Predicate: does CFG node (of the consumer) set the stop flag (directly or via the finalizer)?"""
    fin_sets = False
    if p.fin is not None:
        fsc = Scope(p.fin)
        fcfg = CFG(p.fin.node, ExcLattice(), None)
        sets = {n.id for n in fcfg.nodes if header_expr(n) is not None and any(method_of(c)[1] == 'set' and fsc.canon(method_of(c)[0]) == p.flag for c in calls_in(header_expr(n)))}
        # every path through the finalizer sets the flag, except the "already finalized" guard
        guard = {n.id for n in fcfg.nodes if n.kind == 'test' and isinstance(n.ast, ast.Compare) and dotted(n.ast.left) == p.flag and isinstance(n.ast.ops[0], ast.Is)}
        pth = path_avoiding(fcfg, [fcfg.entry], {fcfg.exit_return}, avoid=sets, edge_ok=lambda e: not (e.src in guard and e.kind == 'T'))
        fin_sets = bool(sets) and pth is None

    def pred(n: Node):
        a = header_expr(n)
        if a is None:
            return False
        for c in calls_in(a):
            r, me = method_of(c)
            if me == 'set' and r is not None and p.cscope.canon(r) == p.flag:
                return True
            if p.fin is not None and fin_sets and dotted(c.func) == f'self.{p.fin.name}':
                return True
        return False

    return pred


def cons_cfg(ck: Checker, p: Pair) -> CFG:
    def extra(node, a):
        R = set()
        if node.pending is not None:
            return R  # cleanup code: the rule is about what leads *into* the cleanup
        for c in calls_in(a):
            r, me = method_of(c)
            if me == 'result':
                R |= {'Exception'}
        for x in walk_shallow(a):
            if isinstance(x, ast.Await) and isinstance(x.value, ast.Name):
                R |= {'Exception', 'CancelledError'}
        if isinstance(a, ast.Raise) and a.exc is not None:
            R |= set(USER_RAISES)
        return R

    cfg = build_cfg(p.cons, ck.repo, make_fallible(p.cscope, iters=set(), calls=set(), extra=extra))
    ck.analysed_func(p.cons, cfg)
    return cfg


def _start_nodes(cfg: CFG, p: Pair):
    out = []
    for n in cfg.nodes:
        a = header_expr(n)
        if a is None:
            continue
        for c in calls_in(a):
            if dotted(c.func) == 'self._start' or (method_of(c)[1] == 'start' and p.cscope.canon(method_of(c)[0]) == p.worker):
                out.append(n.id)
        if isinstance(n.ast, ast.Assign) and isinstance(n.ast.targets[0], ast.Name) and n.ast.targets[0].id == p.worker and isinstance(unwrap_await(n.ast.value), ast.Call) and (call_dotted(unwrap_await(n.ast.value)) or '').endswith('create_task'):
            out.append(n.id)
    return out


def check_stop_flag(ck: Checker, rid: str, p: Pair):
    cfg = cons_cfg(ck, p)
    is_setter = _setter_calls(p)
    setters = {n.id for n in cfg.nodes if is_setter(n)}
    # main consumer loop nodes (not cleanup copies)
    started = _start_nodes(cfg, p)
    ck.need(started, f'{p.cons.key}: the point where the producer is started was not found')
    after_start = reachable(cfg, started)
    srcs = []
    for n in cfg.nodes:
        if n.pending is not None or n.id not in after_start or not any(e.kind == 'exc' for e in cfg.succ[n.id]):
            continue
        if path_avoiding(cfg, [cfg.entry], {n.id}, avoid=setters) is None:
            continue  # the flag is already set on every path to this node (e.g. the re-raise after set())
        srcs.append(n)
    ck.need(any(n.extra.get('yield') for n in srcs), f'{p.cons.key}: no yield with a thrown-in edge')
    probs = []
    n_checked = 0
    for n in srcs:
        for e in cfg.succ[n.id]:
            if e.kind != 'exc':
                continue
            n_checked += 1
            pth = path_avoiding(cfg, [e], {cfg.exit_raise}, avoid=setters)
            if pth is not None:
                probs.append((n, e, pth))
    ck.paths_examined += n_checked
    if probs:
        n, e, pth = probs[0]
        kind = 'the consumer stops early at the yield' if n.extra.get('yield') else 'an exception'
        ck.ob(rid, p.cons, (p.cons.node.lineno, f'{p.label} consumer exits'), False, f'when {kind} at L{n.lineno} ({"/".join(sorted(e.data))}) the generator is left without setting the stop flag `{p.flag}`: the producer keeps pulling the source' + (f' (+{len(probs) - 1} more)' if len(probs) > 1 else ''), path=fmt_path(cfg, [n.id] + pth))
    else:
        ck.ob(rid, p.cons, (p.cons.node.lineno, f'{p.label} consumer exits'), True, f'all {n_checked} abnormal exits (close()/GeneratorExit at each yield, failures) set `{p.flag}` before leaving')
    # producer polls that same flag on every iteration before processing further
    pcfg = prod_cfg(ck, p)
    loop = _input_loop(pcfg, p)
    tests = _flag_tests(pcfg, p.pscope, p.flag)
    work = set()
    for n in pcfg.nodes:
        if loop.id not in n.loops or n.id == loop.id:
            continue
        if _puts(n, p.pscope, p.q):
            work.add(n.id)
        a = header_expr(n)
        if a is not None and any((p.pscope.canon(c.func) or '') in p.calls or dotted(c.func) in p.calls for c in calls_in(a)):
            work.add(n.id)
    pth = path_avoiding(pcfg, [e for e in pcfg.succ[loop.id] if e.kind == 'iter'], work, avoid=set(tests))
    ok = pth is None and bool(tests)
    # and the set-branch must not reach work
    if ok:
        for tid, lab in tests.items():
            p2 = path_avoiding(pcfg, [e for e in pcfg.succ[tid] if e.kind == lab], work, avoid={loop.id})
            if p2 is not None:
                ok = False
                pth = [tid] + p2
    ck.ob(rid, p.prod, loop.ast.iter, ok, f'the producer tests `{p.flag}` in every iteration before it processes or hands off the element, and stops when set' if ok else f'the producer can process / hand off an element without (or in spite of) testing the stop flag `{p.flag}`', path=fmt_path(pcfg, pth) if pth else '')


# ----------------------------------------------------------------------
def check_join_safety(ck: Checker, rid: str, p: Pair):
    """C05-4: the join of the producer cannot wedge on a full queue."""
    f = p.fin or p.cons
    sc = Scope(f)
    cfg = build_cfg(f, ck.repo, make_fallible(sc, iters=set(), calls=set()), gen_throw=False) if p.fin else cons_cfg(ck, p)
    ck.analysed_func(f, cfg)

    def is_join(n: Node):
        a = header_expr(n)
        if a is None:
            return False
        for c in calls_in(a):
            if method_of(c)[1] == 'join' and sc.canon(method_of(c)[0]) == p.worker:
                return True
        for x in walk_shallow(a):
            if isinstance(x, ast.Await) and sc.canon(x.value) == p.worker:
                return True
        return False

    joins = [n for n in cfg.nodes if is_join(n)]
    ck.need(joins, f'{f.key}: the producer `{p.worker}` is never joined')
    # drain loops: loops whose body gets from the queue
    drain_loops = []
    for n in cfg.nodes:
        if n.kind == 'test' and n.extra.get('loop'):
            body = [k for k in cfg.nodes if n.id in k.loops]
            if any(_gets(k, sc, p.q) for k in body):
                # consumer's main loop is not a drain loop: it contains a yield
                if any(k.extra.get('yield') for k in body):
                    continue
                drain_loops.append(n)
    probs = []
    idiom = None
    # every join must be preceded by a drain loop
    dl_ids = {n.id for n in drain_loops}
    for j in joins:
        pth = path_avoiding(cfg, [cfg.entry], {j.id}, avoid=dl_ids, edge_ok=(lambda e: not (p.fin is not None and cfg.nodes[e.src].kind == 'test' and isinstance(cfg.nodes[e.src].ast, ast.Compare) and dotted(cfg.nodes[e.src].ast.left) == p.flag and e.kind == 'T')))
        if pth is not None and j.pending != ('fall',):
            probs.append(f'the join at L{j.lineno} can be reached without draining `{p.q}` first')
            break
    # the stop flag must be set BEFORE the drain (otherwise the producer keeps refilling the queue while
    # and after it is drained, and blocks in put): on abnormal exits for inline cleanups, always for finalisers
    def sets_flag(n: Node):
        a = header_expr(n)
        return a is not None and any(method_of(c)[1] == 'set' and method_of(c)[0] is not None and sc.canon(method_of(c)[0]) == p.flag for c in calls_in(a))

    setters = {n.id for n in cfg.nodes if sets_flag(n)}
    for dl in drain_loops:
        abnormal = p.fin is not None or (dl.pending is not None and dl.pending[0] == 'exc')
        if not abnormal:
            continue
        guard_ok = (lambda e: not (p.fin is not None and cfg.nodes[e.src].kind == 'test' and isinstance(cfg.nodes[e.src].ast, ast.Compare) and dotted(cfg.nodes[e.src].ast.left) == p.flag and e.kind == 'T'))
        pth = path_avoiding(cfg, [cfg.entry], {dl.id}, avoid=setters, edge_ok=guard_ok)
        if pth is not None:
            probs.append(f'the queue is drained (L{dl.lineno}) before the stop flag `{p.flag}` is set: the producer keeps pulling and refilling the queue during and after the drain, can block in put on the full queue, and the join never returns')
            break
    # idiom (i): drain loop conditioned on producer liveness with timed gets
    def live_cond(n: Node):
        t = n.ast
        return isinstance(t, ast.Call) and method_of(t)[1] in ('is_alive',) and sc.canon(method_of(t)[0]) == p.worker or (isinstance(t, ast.UnaryOp) and isinstance(t.op, ast.Not) and isinstance(t.operand, ast.Call) and method_of(t.operand)[1] == 'done' and sc.canon(method_of(t.operand)[0]) == p.worker)

    for dl in drain_loops:
        if live_cond(dl):
            body = [k for k in cfg.nodes if dl.id in k.loops]
            gets = [c for k in body for c in _gets(k, sc, p.q)]
            if gets and all(has_timeout(c) or method_of(c)[1] == 'get_nowait' for c in gets):
                idiom = '(i) the drain loop runs while the producer is alive, with timed gets'
            else:
                probs.append(f'the drain loop at L{dl.lineno} is conditioned on producer liveness but its get is untimed: it can block after the producer\'s last put')
    if idiom is None and not probs:
        # idiom (iii): counting argument
        pcfg = prod_cfg(ck, p)
        loop = _input_loop(pcfg, p)
        w = lambda n: len(_puts(n, p.pscope, p.q))
        per_iter = count_minmax(pcfg, loop.id, lambda n: w(n) if n.id != loop.id else 0, stop=lambda nid: loop.id not in pcfg.nodes[nid].loops and nid != loop.id, start_edges=lambda e: e.kind == 'iter')
        n_iter = max([hi for t, (lo, hi) in per_iter.items()] or [0])
        # max terminal puts: count over whole function with in-loop puts weighted 0
        whole = count_minmax(pcfg, pcfg.entry, lambda n: w(n) if loop.id not in n.loops else 0, back='skip')
        n_term = max([hi for t, (lo, hi) in whole.items()] or [0])
        lb = linear_lower_bound(p.q_ctor, p.q_ctor_owner, p.bound_param, assume_param_min=1)
        need = n_iter + n_term
        if lb is None:
            probs.append(f'cannot bound the size of `{p.q}` from below')
        elif need > lb:
            probs.append(f'after the stop flag is set the producer may still put {n_iter} (element in hand) + {n_term} (terminal items) = {need} items, but `{p.q}` is only guaranteed {lb} slot(s) and the finaliser drains it once before `join`: the producer blocks in put and the join never returns')
        else:
            idiom = f'(iii) counting: at most {n_iter} + {n_term} = {need} puts after the drain ≤ {lb} guaranteed slots'
    ck.ob(rid, f, joins[0].ast, not probs and idiom is not None, '; '.join(probs) if probs else f'join of the producer cannot wedge: {idiom}')


# ----------------------------------------------------------------------
def check_helpers_released(ck: Checker, rid: str):
    """C05-5: threads started / executors created in a stream generator are joined / shut down on all exits."""
    targets = [
        (STREAMER, 'Parmapper.__iter__'),
        (STREAMER, 'ParmapperAsync.__iter__'),
        (STREAMER_ASYNC, 'AsyncParmapper.__aiter__'),
        (STREAMER, 'fifo_stream'),
        (STREAMER, 'async_fifo_stream'),
    ]
    for rel, q in targets:
        f = ck.repo.func(rel, q)
        sc = Scope(f)

        def extra(node, a):
            R = set()
            for c in calls_in(a):
                if method_of(c)[1] == 'result':
                    R.add('Exception')
            for x in walk_shallow(a):
                if isinstance(x, ast.Await) and isinstance(x.value, ast.Name):
                    R |= {'Exception', 'CancelledError'}
                if isinstance(x, ast.YieldFrom):
                    R |= {'Exception', 'StopRequested'}
            if node.kind == 'for' and isinstance(node.ast, ast.AsyncFor):
                R |= {'Exception', 'StopRequested', 'CancelledError', 'GeneratorExit'}
            return R

        cfg = build_cfg(f, ck.repo, make_fallible(sc, iters=set(), calls=set(), extra=extra))
        ck.analysed_func(f, cfg)
        found = 0
        # executors
        for n in cfg.nodes:
            if isinstance(n.ast, ast.Assign) and isinstance(n.ast.value, ast.Call) and (call_dotted(n.ast.value) or '').endswith('PoolExecutor') and isinstance(n.ast.targets[0], ast.Name):
                found += 1
        ex_names = {n.ast.targets[0].id for n in cfg.nodes if isinstance(n.ast, ast.Assign) and isinstance(n.ast.value, ast.Call) and (call_dotted(n.ast.value) or '').endswith('PoolExecutor') and isinstance(n.ast.targets[0], ast.Name)}
        for ex in sorted(ex_names):
            enters = [n for n in cfg.nodes if n.kind == 'with_enter' and is_name(n.ast.context_expr, ex)]
            ynodes = [n for n in cfg.nodes if n.extra.get('yield') or (n.kind == 'for' and isinstance(n.ast, ast.AsyncFor))]
            ok = bool(enters)
            if ok:
                # every yield lies inside the with region: dominated by with_enter and any exit passes with_exit
                exits_ = {n.id for n in cfg.nodes if n.kind == 'with_exit' and is_name(n.ast.context_expr, ex)}
                for y in ynodes:
                    p1 = path_avoiding(cfg, [cfg.entry], {y.id}, avoid={e.id for e in enters})
                    p2 = path_avoiding(cfg, list(cfg.succ[y.id]), {cfg.exit_return, cfg.exit_raise}, avoid=exits_)
                    if p1 is not None or p2 is not None:
                        ok = False
            ck.ob(rid, f, (f.node.lineno, f'executor `{ex}`'), ok, f'executor `{ex}` is used as a context manager around the whole iteration: shut down on every exit' if ok else f'executor `{ex}` is not shut down on every exit of the generator')
        # threads / tasks started here
        for sp in spawn_sites(f):
            if sp.kind not in ('thread', 'task'):
                continue
            handle = None
            for n in walk_shallow_func(f.node):
                if isinstance(n, ast.Assign) and n.value is sp.call and isinstance(n.targets[0], ast.Name):
                    handle = n.targets[0].id
            if handle is None:
                ck.ob(rid, f, sp.call, False, 'a helper thread/task is started without keeping a handle to join')
                continue
            found += 1
            if sp.kind == 'thread':
                starts = [n for n in cfg.nodes if header_expr(n) is not None and any(method_of(c)[1] == 'start' and is_name(method_of(c)[0], handle) for c in calls_in(header_expr(n)))]
            else:
                starts = [n for n in cfg.nodes if isinstance(n.ast, ast.Assign) and n.ast.value is sp.call]
            def _waits(c, n):
                # a timed join returns silently with the thread still running (mpservice.threading.Thread.join included):
                # it counts only inside a loop that re-tests is_alive()
                if not (c.args or c.keywords) or (len(c.args) == 1 and not c.keywords and isinstance(c.args[0], ast.Constant) and c.args[0].value is None):
                    return True
                return any(cfg.nodes[l].kind == 'while' and 'is_alive' in norm_text(cfg.nodes[l].ast.test if hasattr(cfg.nodes[l].ast, 'test') else cfg.nodes[l].ast) for l in n.loops)

            timed = [n for n in cfg.nodes if header_expr(n) is not None and any(method_of(c)[1] == 'join' and is_name(method_of(c)[0], handle) and not _waits(c, n) for c in calls_in(header_expr(n)))]
            joins = {n.id for n in cfg.nodes if header_expr(n) is not None and (any(method_of(c)[1] == 'join' and is_name(method_of(c)[0], handle) and _waits(c, n) for c in calls_in(header_expr(n))) or any(isinstance(x, ast.Await) and is_name(x.value, handle) for x in walk_shallow(header_expr(n))))}
            if timed and not joins:
                ck.ob(rid, f, timed[0].ast, False, f'L{timed[0].lineno}: `{norm_text(timed[0].ast)[:50]}` is a timed join of helper `{handle}`: when the helper has not ended by then (a slow source element) the generator is closed with the thread still running and still pulling the source')
                continue
            ok = bool(starts) and bool(joins)
            pth = None
            if ok:
                for s in starts:
                    pth = path_avoiding(cfg, cfg.normal_succ(s.id), {cfg.exit_return, cfg.exit_raise}, avoid=joins)
                    if pth is not None:
                        ok = False
                        break
            ck.ob(rid, f, sp.call, ok, f'helper `{handle}` is joined/awaited on every exit after it was started' if ok else f'helper `{handle}` is not joined on every exit of the generator (thread/task leaks when the consumer stops early or a stage raises)', path=fmt_path(cfg, pth) if pth else '')
        ck.need(found >= 1, f'{f.key}: no helper thread / executor found')
    # class-style: the finalizer joins the worker and the generator calls it in a finally
    for p in pairs(ck):
        if p.fin is None:
            continue
        ccfg = cons_cfg(ck, p)
        fin_calls = {n.id for n in ccfg.nodes if header_expr(n) is not None and any(dotted(c.func) == f'self.{p.fin.name}' for c in calls_in(header_expr(n)))}
        starts = [n for n in ccfg.nodes if header_expr(n) is not None and any(dotted(c.func) == 'self._start' for c in calls_in(header_expr(n)))]
        ok = bool(starts) and bool(fin_calls)
        pth = None
        if ok:
            pth = path_avoiding(ccfg, ccfg.normal_succ(starts[0].id), {ccfg.exit_return, ccfg.exit_raise}, avoid=fin_calls)
            ok = pth is None
        fsc = Scope(p.fin)
        fj = [n for n in walk_shallow_func(p.fin.node) if isinstance(n, ast.Call) and method_of(n)[1] == 'join' and fsc.canon(method_of(n)[0]) == p.worker]
        ok = ok and bool(fj)
        ck.ob(rid, p.cons, (p.cons.node.lineno, f'{p.label} worker released'), ok, f'every exit after `_start()` runs `{p.fin.name}()`, which joins `{p.worker}`' if ok else f'an exit of the generator does not run the finaliser that joins `{p.worker}`', path=fmt_path(ccfg, pth) if pth else '')


def check_async_driver(ck: Checker, rid: str):
    """A worker thread that iterates an async source runs it with `asyncio.run` (which, after the coroutine is done or
    was left early, finalises the async generators still suspended in the upstream chain -- `shutdown_asyncgens` -- so
    that *their* `finally` blocks stop their worker threads and pools), or does the same explicitly."""
    n_ob = 0
    for p in pairs(ck):
        if p.fin is None or not p.prod.is_async:
            continue
        driver = p.prod.parent  # the thread target
        ck.need(driver is not None, f'{p.prod.key}: async producer is not nested in its thread target')
        calls = [n for n in walk_shallow_func(driver.node) if isinstance(n, ast.Call)]
        runs = [c for c in calls if any(isinstance(a, ast.Call) and is_name(a.func, p.prod.name) for a in c.args)]
        ck.need(runs, f'{driver.key}: the call that runs `{p.prod.name}()` was not found')
        c = runs[0]
        d = dotted(c.func) or ''
        n_ob += 1
        if d in ('asyncio.run', 'run'):
            ck.ob(rid, driver, c, True, f'`{p.prod.name}()` is run by asyncio.run: suspended upstream async generators are finalised when the worker ends')
            continue
        fin = [k for k in calls if method_of(k)[1] == 'run_until_complete' and k.args and isinstance(k.args[0], ast.Call) and method_of(k.args[0])[1] == 'shutdown_asyncgens']
        ok = bool(fin)
        if ok:
            dcfg = build_cfg(driver, ck.repo, lambda node: {'Exception'} if header_expr(node) is not None and any(x is c for x in calls_in(header_expr(node))) else set())
            fin_nodes = {n.id for n in dcfg.nodes if header_expr(n) is not None and any(x in fin for x in calls_in(header_expr(n)))}
            run_nodes = [n for n in dcfg.nodes if header_expr(n) is not None and any(x is c for x in calls_in(header_expr(n)))]
            ok = bool(run_nodes) and all(path_avoiding(dcfg, list(dcfg.succ[r.id]), {dcfg.exit_return, dcfg.exit_raise}, avoid=fin_nodes) is None for r in run_nodes)
        ck.ob(rid, driver, c, ok, f'`{p.prod.name}()` is run by `{d}` and the loop finalises its async generators (`shutdown_asyncgens`) on every exit' if ok else f'`{p.prod.name}()` is run by `{d}(…)` without `shutdown_asyncgens` on every exit: when the consumer stops early the upstream async generators stay suspended for ever — their clean-up never runs, their worker threads and pools leak')
    ck.need(n_ob >= 2, f'only {n_ob} async producers found')


def check_no_prefetch(ck: Checker, rid: str):
    f = ck.repo.cls(STREAMER_ASYNC, 'AsyncIter').method('__aiter__')
    calls = [n for n in walk_shallow_func(f.node) if isinstance(n, ast.Call) and method_of(n)[1] == 'run_in_executor' and any(is_name(a_, 'next') or dotted(a_) == 'next' for a_ in n.args)]
    ck.need(calls, f'{f.key}: the executor call that pulls the sync source was not found')
    awaited = {id(n.value) for n in walk_shallow_func(f.node) if isinstance(n, ast.Await)}
    bad = [c for c in calls if id(c) not in awaited]
    ck.ob(rid, f, calls[0], not bad, 'every pull of the sync source is awaited where it is started: nothing is in flight while the generator is suspended at its yield' if not bad else f'L{bad[0].lineno}: the pull `{norm_text(bad[0])[:60]}` is started without being awaited in place (kept for later): it runs ahead of the consumer — after an early stop a helper thread is still inside the source, one element beyond those delivered is taken and lost, and the event loop cannot shut its executor down')



MARKER_NAMES = ('FINISHED', 'STOPPED')


def check_marker_identity(ck: Checker, rid: str):
    """The end / failure markers of the in-process relays are module constants that travel through a queue of the same
    process, next to the user's elements.  They are told apart from elements by identity: `z == FINISHED` asks the
    *element's* `__eq__` (str.__eq__ declines a non-str and Python falls back to the reflected call), so an element
    that equals everything (mock.ANY) ends the stream early and silently, and an array-like element whose `==` is
    element-wise makes the test raise."""
    n_sites = 0
    for rel in (STREAMER, STREAMER_ASYNC):
        mod = ck.repo.module(rel)
        consts = {t.id for st in mod.tree.body if isinstance(st, ast.Assign) for t in st.targets if isinstance(t, ast.Name) and t.id in MARKER_NAMES}
        if not consts:
            continue
        for f in mod.functions.values():
            amap = {c: c for c in consts}
            for n in walk_shallow_func(f.node):
                if isinstance(n, ast.Assign) and len(n.targets) == 1 and isinstance(n.targets[0], ast.Name) and isinstance(n.value, ast.Name) and n.value.id in consts:
                    amap[n.targets[0].id] = n.value.id
            for n in walk_shallow_func(f.node):
                if isinstance(n, ast.Compare) and len(n.ops) == 1:
                    sides = [n.left, n.comparators[0]]
                    mk = [amap[x.id] for x in sides if isinstance(x, ast.Name) and x.id in amap]
                    if not mk:
                        continue
                    n_sites += 1
                    ident = isinstance(n.ops[0], (ast.Is, ast.IsNot))
                    ck.ob(rid, f, n, ident, f'`{norm_text(n)}`: the marker {mk[0]} is recognised by identity' if ident else f'`{norm_text(n)}` compares a stream element with the marker {mk[0]} by equality: the element\'s own `__eq__` decides — an element equal to everything (mock.ANY) ends the stream early and silently, an array-like element (element-wise `==`) makes the test raise; the marker never leaves the process, identity is exact')
    ck.need(n_sites >= 5, f'marker identity: only {n_sites} marker comparisons found')


def check_per_run_state(ck: Checker, rid: str):
    """The hand-off queue, the stop flag and the worker thread of a relay class belong to one consumption: they are
    created by `_start`, which the iterator calls before anything else.  State created by the constructor is shared by
    every pass over the same Stream object: what an aborted pass left behind (buffered elements, the end marker, a set
    stop flag) is then seen by the next pass, which ends at once or replays stale elements."""
    pairs(ck)
    for qual, (cls, st, created_in) in PER_RUN.items():
        bad = [f'`{attr}` is created in {holder.qualname} (L{n.lineno})' for attr, (holder, n) in created_in.items() if holder is not st]
        ck.ob(rid, st, (st.node.lineno, f'{qual} per-run state'), not bad, '; '.join(bad) + ': state of one consumption outlives it — after an early stop or a failure the next pass over the same stream finds the leftovers' if bad else f'{sorted(created_in)} are created by `{st.name}` for each consumption')


def run(ck: Checker):
    ck.rule('C05-6', 'async producers are driven by asyncio.run (or an explicit shutdown_asyncgens on every exit): async generators of the upstream chain left suspended by an early stop are finalised (PAIR)', minimum=2)
    ck.rule('C05-1', 'terminal item on every producer exit: exhaustion, stop flag, Exception and StopRequested from source / function / preprocessor (EXITS)', minimum=5)
    ck.rule('C05-2', 'terminal vocabulary agreement between producer and consumer (AGREE)', minimum=5)
    ck.rule('C05-3', 'stop flag set on every abnormal consumer exit (GeneratorExit thrown in at each yield, failures); producer polls that flag every iteration before processing (EXITS)', minimum=10)
    ck.rule('C05-4', 'the join of the producer cannot wedge on a full queue: liveness-conditioned timed drain, or counting argument puts-after-drain ≤ guaranteed slots (COUNT+LINEAR)', minimum=5)
    ck.rule('C05-5', 'helper threads/tasks/executors started inside a stream generator are joined / shut down on all exits (EXITS/PAIR)', minimum=8)
    for p in pairs(ck):
        check_terminal_item(ck, 'C05-1', p)
        check_vocabulary(ck, 'C05-2', p)
        check_stop_flag(ck, 'C05-3', p)
        check_join_safety(ck, 'C05-4', p)
    check_marker_identity(ck, 'C05-2')
    ck.rule('C05-10', 'the first failure reaches the consumer: the consumer of fifo_stream / async_fifo_stream leaves its loop normally only after it has dequeued the end marker — a loop that also ends on a timeout plus "the feeder is gone" swallows a forwarded source failure (or the last elements) that was enqueued just before the feeder ended (the C01-3 consumer obligations)', minimum=6)
    for q_ in ('fifo_stream', 'async_fifo_stream'):
        fifo.check_consumer_pairing(ck, 'C05-10', fifo.discover(ck.repo, ck.repo.func(STREAMER, q_)))
    check_helpers_released(ck, 'C05-5')
    ck.rule('C05-9', 'per-consumption state: the hand-off queue, stop flag and worker thread of Buffer / AsyncBuffer / SyncIter are created when an iteration starts, never by the constructor (leftovers of an aborted pass are not seen by the next) (ORIGIN)', minimum=3)
    check_per_run_state(ck, 'C05-9')
    check_async_driver(ck, 'C05-6')
    ck.rule('C05-11', 'every executor thread and worker process has exited when the iterator is closed: leaving `with executor:` waits for the calls still running — the pool classes of the package keep the standard exit, or every shutdown they issue waits (an early stop or a failure is an exception thrown into the with body)', minimum=2)
    from .c08 import check_pool_release_semantics

    check_pool_release_semantics(ck, 'C05-11')
    from . import c12 as _c12

    with ck.as_rule('C05-12', 'join() of a helper thread means the thread has ended: the join of mpservice.threading.Thread (which the stream generators use for their feeders and workers) returns normally only after the OS-level join — an outcome that is already known is no reason to skip it (the C12-4 obligations of the accessors)', minimum=3):
        _c12.check_accessors(ck, 'C12-4')
    ck.rule('C05-13', 'stopping early ends every stage: the __iter__ / __aiter__ of every streamlet over an upstream (`self._instream`) is a generator function — closing it (or dropping it) closes the upstream, and a failure of the user function ends the iteration; a plain iterator object (`map(...)`, `filter(...)`) has no close(), keeps going after a failure, and leaves the helper threads of upstream stages alive', minimum=10)
    for rel13 in (STREAMER, STREAMER_ASYNC):
        for c13 in ck.repo.module(rel13).classes.values():
            for m13 in c13.methods():
                if m13.name not in ('__iter__', '__aiter__'):
                    continue
                if not any(isinstance(x, ast.Attribute) and dotted(x) == 'self._instream' for x in ast.walk(m13.node)):
                    continue
                own13 = [x for x in walk_shallow_func(m13.node) if isinstance(x, (ast.Yield, ast.YieldFrom))]
                rets13 = [r for r in walk_shallow_func(m13.node) if isinstance(r, ast.Return) and r.value is not None]
                # delegation to another streamlet / generator of the package is a generator as well
                deleg13 = [r for r in rets13 if isinstance(r.value, ast.Call) and (dotted(r.value.func) or '').split('.')[-1] not in ('map', 'filter', 'iter', 'zip', 'enumerate', 'list', 'tuple') ]
                ok13 = bool(own13) or (bool(rets13) and len(deleg13) == len(rets13))
                ck.ob('C05-13', m13, rets13[0] if rets13 and not ok13 else m13.node, ok13, 'a generator function' if ok13 else f'`{norm_text(rets13[0])[:60] if rets13 else m13.qualname}` hands out a plain iterator: it cannot be closed, it goes on after a failure of the user function, and the upstream stages are not ended when the consumer stops')
    ck.rule('C05-7', 'no source pull is in flight while a stream generator is suspended: the sync-to-async adapter awaits each `run_in_executor(None, next, source)` in the statement that starts it — a pull started ahead of the consumer\'s request is still running in a helper thread after an early stop (one element is taken and lost, the source generator cannot be closed, the default executor cannot shut down)')
    check_no_prefetch(ck, 'C05-7')
    ck.rule('C05-8', 'the hand-off queue cannot lose a wake-up: the SingleLane obligations (C01-4, C09-6) decided here, because a lost wake-up leaves the producer parked in put() while the finaliser of buffer / fifo_stream waits for it for ever', minimum=3)
    from . import c01, c09
    from .common import QUEUES

    c01.check_singlelane(ck, 'C05-8')
    c09.check_wait_discipline(ck, 'C05-8', modules=(QUEUES,), minimum=2)
