"""C08 -- streaming has bounded look-ahead and bounded concurrency (structural clauses)."""

from __future__ import annotations

import ast

from mpsa.cfg import calls_in, header_expr, walk_shallow
from mpsa.loader import dotted, norm_text
from mpsa.match import Scope, call_dotted, has_timeout, is_name, kwarg, method_of, names_in, walk_deep_func, walk_shallow_func
from mpsa.report import Checker

from . import c05, fifo
from .common import STREAMER, STREAMER_ASYNC, build_cfg
from .linear import linear_form, param_lower_bound


def run(ck: Checker):
    ck.rule('C08-1', 'bounded hand-off: the queue between producer and consumer is constructed with a size a*p + b over the bound parameter with a <= 1, b <= 1 and a lower bound >= 1 (0 would mean unbounded) (LINEAR)', minimum=4)
    ck.rule('C08-2', 'blocking, single store: the producer hands elements over with the blocking put only; pulled elements are held nowhere else (no side container) (WHO/taint)', minimum=4)
    ck.rule('C08-3', 'pool size and capacity: the executor is created with max_workers = concurrency, released waiting for running calls, and the fifo capacity is 2*concurrency (LINEAR)', minimum=6)
    ck.rule('C08-4', 'invocation bound: an implementation that starts the worker invocation at submission time must gate invocations with a semaphore of size `concurrency` (otherwise up to capacity+3 run at once)', minimum=2)
    ps = c05.pairs(ck)
    for p in ps:
        if p.label == 'SyncIter':
            continue
        # ---------------------------------------------------------------- C08-1
        check_queue_bound(ck, 'C08-1', p)
        # ---------------------------------------------------------------- C08-2
        probs = []
        sc = p.pscope
        loopvars = set()
        for n in walk_shallow_func(p.prod.node):
            if isinstance(n, (ast.For, ast.AsyncFor)) and dotted(n.iter) == p.in_expr and isinstance(n.target, ast.Name):
                loopvars.add(n.target.id)
                loop = n
        ck.need(loopvars, f'{p.prod.key}: input loop variable not found')
        derived = set(loopvars)
        for n in ast.walk(loop):
            if isinstance(n, ast.Assign) and len(n.targets) == 1 and isinstance(n.targets[0], ast.Name) and names_in(n.value) & derived:
                derived.add(n.targets[0].id)
        for n in ast.walk(loop):
            if isinstance(n, ast.Call):
                r, me = method_of(n)
                if r is not None and sc.canon(r) == p.q:
                    if me == 'put_nowait' or (me == 'put' and (has_timeout(n, pos_index=2) or (kwarg(n, 'block') is not None))):
                        probs.append(f'the hand-off at L{n.lineno} is not the plain blocking put: when the queue is full the element must go somewhere else')
                elif me in ('append', 'appendleft', 'add', 'extend', 'insert', 'put', 'put_nowait', 'setdefault') and any(names_in(a) & derived for a in n.args):
                    probs.append(f'pulled elements are also stored in `{dotted(r) or norm_text(r)}` (L{n.lineno})')
            if isinstance(n, (ast.Assign, ast.AugAssign)):
                tg = n.targets if isinstance(n, ast.Assign) else [n.target]
                for t in tg:
                    if isinstance(t, ast.Subscript) and names_in(n.value) & derived:
                        probs.append(f'pulled elements are also stored in `{norm_text(t.value)}` (L{n.lineno})')
        ck.ob('C08-2', p.prod, loop.iter, not probs, '; '.join(sorted(set(probs))) if probs else f'elements flow only to the worker function / preprocessor and the blocking `{p.q}.put`')
        # ... and on the consumer side: what is taken off the hand-off queue goes to the consumer, not into a second
        # container (every slot freed that way is refilled by the producer: the look-ahead doubles)
        cprobs = []
        csc = p.cscope
        got = set()
        body_c = [n for n in walk_shallow_func(p.cons.node)]
        for n in body_c:
            if isinstance(n, ast.Assign) and len(n.targets) == 1 and isinstance(n.targets[0], ast.Name):
                v = n.value.value if isinstance(n.value, ast.Await) else n.value
                if isinstance(v, ast.Call) and method_of(v)[1] in ('get', 'get_nowait') and method_of(v)[0] is not None and csc.canon(method_of(v)[0]) == p.q:
                    got.add(n.targets[0].id)
        for n in body_c:
            if isinstance(n, ast.Call):
                r, me = method_of(n)
                if me in ('append', 'appendleft', 'add', 'extend', 'insert', 'put', 'put_nowait') and r is not None and csc.canon(r) != p.q:
                    for a in n.args:
                        inner_get = any(isinstance(c_, ast.Call) and method_of(c_)[1] in ('get', 'get_nowait') and method_of(c_)[0] is not None and csc.canon(method_of(c_)[0]) == p.q for c_ in ast.walk(a))
                        if inner_get or (names_in(a) & got):
                            cprobs.append(f'L{n.lineno}: `{norm_text(n)[:60]}` moves elements from the hand-off queue into `{dotted(r) or norm_text(r)}`: the slots freed are refilled by the producer while the consumer still holds the moved elements — the look-ahead is no longer bounded by the queue')
        if p.fin is None or p.cons is not p.fin:
            ck.ob('C08-2', p.cons, (p.cons.node.lineno, 'consumer side containers'), not cprobs, '; '.join(sorted(set(cprobs))) if cprobs else f'what the consumer takes off `{p.q}` is stored nowhere else')
    # -------------------------------------------------------------------- C08-3
    check_private_pool(ck, 'C08-3')
    check_pool_size(ck, 'C08-3')
    check_pool_release_semantics(ck, 'C08-3')
    for rel, cname, itname in ((STREAMER, 'Parmapper', '__iter__'), (STREAMER_ASYNC, 'AsyncParmapper', '__aiter__')):
        cls = ck.repo.cls(rel, cname)
        f = cls.method(itname)
        ex = [n for n in walk_shallow_func(f.node) if isinstance(n, ast.Call) and (call_dotted(n) or '').endswith('PoolExecutor')]
        # the pool is released WAITING for the calls still running (context manager / shutdown(wait=True)):
        # otherwise calls of an abandoned iteration overlap those of the next one and `concurrency` is exceeded
        sc_ = Scope(f)
        exn = {n.targets[0].id for n in walk_shallow_func(f.node) if isinstance(n, ast.Assign) and n.value in ex and isinstance(n.targets[0], ast.Name)}
        withs = [n for n in walk_shallow_func(f.node) if isinstance(n, (ast.With, ast.AsyncWith)) and any(isinstance(i.context_expr, ast.Name) and i.context_expr.id in exn for i in n.items)]
        shut = [n for n in walk_shallow_func(f.node) if isinstance(n, ast.Call) and method_of(n)[1] == 'shutdown' and isinstance(method_of(n)[0], ast.Name) and method_of(n)[0].id in exn]
        nowait = [n for n in shut if any(k.arg == 'wait' and isinstance(k.value, ast.Constant) and k.value.value is False for k in n.keywords) or (n.args and isinstance(n.args[0], ast.Constant) and n.args[0].value is False)]
        okr = (bool(withs) or bool(shut)) and not nowait
        ck.ob('C08-3', f, (withs[0].lineno if withs else (shut[0].lineno if shut else f.node.lineno), 'executor release'), okr, 'the pool is released through its context manager / shutdown(wait=True): no call outlives the iteration' if okr else 'the pool is shut down without waiting for the calls still running: after an early stop they keep running next to the calls of the next iteration — more than `concurrency` invocations at once')
        # capacity handed to the fifo function
        calls = [n for n in walk_shallow_func(f.node) if isinstance(n, ast.Call) and (dotted(n.func) or '') in ('fifo_stream', 'async_fifo_stream')]
        ck.need(calls, f'{f.key}: fifo call not found')
        cap = kwarg(calls[0], 'capacity')
        lf = linear_form(cap, f) if cap is not None else None
        ok = lf is not None and lf[:3] == (2, 0, 'concurrency')
        ck.ob('C08-3', f, calls[0], ok, 'fifo capacity = 2*concurrency' if ok else f'fifo capacity `{norm_text(cap) if cap is not None else "default"}` = {lf[:3] if lf else "?"}, not 2*concurrency')
    # the parmappers read their source directly: an extra buffering stage in front of the fifo function adds its own look-ahead
    for rel, cname, itname in ((STREAMER, 'Parmapper', '__iter__'), (STREAMER_ASYNC, 'AsyncParmapper', '__aiter__'), (STREAMER, 'ParmapperAsync', '__iter__'), (STREAMER_ASYNC, 'AsyncParmapperAsync', '__aiter__')):
        f = ck.repo.cls(rel, cname).method(itname)
        calls = [n for n in walk_deep_func(f.node) if isinstance(n, ast.Call) and (dotted(n.func) or '') in ('fifo_stream', 'async_fifo_stream')]
        if not calls:
            continue
        a0 = calls[0].args[0] if calls[0].args else kwarg(calls[0], 'instream')
        ok0 = a0 is not None and dotted(a0) == 'self._instream'
        ck.ob('C08-3', f, calls[0], ok0, 'the fifo function reads `self._instream` itself' if ok0 else f'the fifo function reads `{norm_text(a0)[:50] if a0 is not None else "?"}`, not the source itself: a stage in between (a buffer) pulls ahead on its own account and the documented bound capacity+3 no longer holds')
    # the async-worker parmappers hand a capacity to the same fifo functions: 2*concurrency as well (a capacity that can
    # reach -1 makes the hand-off queue `maxsize=0`, which both queue kinds read as unbounded)
    for rel, cname, itname in ((STREAMER, 'ParmapperAsync', '__iter__'), (STREAMER_ASYNC, 'AsyncParmapperAsync', '__aiter__')):
        f = ck.repo.cls(rel, cname).method(itname)
        calls = [n for n in walk_deep_func(f.node) if isinstance(n, ast.Call) and (dotted(n.func) or '') in ('fifo_stream', 'async_fifo_stream')]
        ck.need(calls, f'{f.key}: fifo call not found')
        cap = kwarg(calls[0], 'capacity')
        lf = linear_form(cap, f) if cap is not None else None
        ok = lf is not None and lf[:3] == (2, 0, 'concurrency')
        ck.ob('C08-3', f, calls[0], ok, 'fifo capacity = 2*concurrency' if ok else f'fifo capacity `{norm_text(cap) if cap is not None else "default"}` = {lf[:3] if lf else "not one linear form of concurrency (several definitions, or a conditional)"}, not 2*concurrency: for a small explicit `concurrency` the hand-off queue is created with maxsize <= 0, i.e. unbounded — the whole source is pulled at once')
    # the worker function of AsyncParmapper runs on the pool sized by `concurrency`, nowhere else: the loop's default executor
    # (run_in_executor(None, ...)) is used only to wait for a future of that pool, never to run the worker itself
    apf = ck.repo.func(STREAMER_ASYNC, 'AsyncParmapper.__aiter__.func')
    badrun = []
    for c_ in [x for x in ast.walk(apf.node) if isinstance(x, ast.Call) and method_of(x)[1] == 'run_in_executor']:
        for a_ in c_.args[1:]:
            if any(isinstance(x, ast.Attribute) and dotted(x) == 'self._func' for x in ast.walk(a_)):
                badrun.append(c_)
    ck.ob('C08-3', apf, badrun[0] if badrun else apf.node, not badrun, 'the worker function is submitted to the pool created with max_workers = concurrency' if not badrun else f'L{badrun[0].lineno}: `{norm_text(badrun[0])[:70]}` runs the worker function on the event loop\'s default executor, which is not sized by `concurrency`: up to the look-ahead window of calls run at once')
    # -------------------------------------------------------------------- C08-4
    for rel, q in ((STREAMER, 'ParmapperAsync.__iter__.func'), (STREAMER_ASYNC, 'AsyncParmapperAsync.__aiter__.func')):
        f = ck.repo.func(rel, q)
        starts = [n for n in walk_deep_func(f.node) if isinstance(n, ast.Call) and (dotted(n.func) or '').split('.')[-1] in ('run_coroutine_threadsafe', 'create_task', 'ensure_future')]
        ck.need(starts, f'{f.key}: submission call not found')
        inner = starts[0].args[0] if starts[0].args else None
        direct = isinstance(inner, ast.Call) and dotted(inner.func) == 'self._func'
        # gated: the coroutine submitted is a wrapper that acquires a semaphore bounded by concurrency
        outer = f.parent
        sems = [n for n in walk_deep_func(outer.node) if isinstance(n, ast.Call) and (dotted(n.func) or '').split('.')[-1] in ('Semaphore', 'BoundedSemaphore')]
        gated = False
        if sems and not direct:
            lf = linear_form(sems[0].args[0], outer) if sems[0].args else None
            gated = lf is not None and lf[0] <= 1 and lf[2] == 'concurrency'
        ok = gated
        ck.ob('C08-4', f, starts[0], ok, 'invocations are gated by a semaphore of size concurrency' if ok else f'`{norm_text(starts[0])[:60]}` starts the user coroutine at submission time: the number of running invocations is bounded only by the look-ahead window (2*concurrency + 3), not by `concurrency`')

    # the bound of the hand-off queue is only a bound if the queue blocks correctly, and a source pull started ahead of the
    # consumer is look-ahead the queue does not count
    from . import c01, c09
    from .common import QUEUES

    with ck.as_rule('C08-5', 'the bounded hand-off really blocks and nothing is pulled outside it: SingleLane obligations (one lock region per operation, opposite ends, predicate of every wait under the lock — C01-4 / C09-6) and no source pull in flight across a yield of the sync-to-async adapter (C05-7)', minimum=4):
        c01.check_singlelane(ck, 'C01-4')
        c09.check_wait_discipline(ck, 'C09-6', modules=(QUEUES,), minimum=2)
        c05.check_no_prefetch(ck, 'C05-7')
    # an early stop must stop the look-ahead: while the clean-up drains the hand-off queue the feeder refills every freed
    # slot from the source unless the stop flag was set first
    with ck.as_rule('C08-6', 'the look-ahead ends with the consumer: the stop flag is set on every abnormal consumer exit before the clean-up drains the queue, the producer polls it in every iteration, and the join of the producer cannot wedge (the C05-3/-4 obligations of all five producer/consumer pairs)', minimum=10):
        for p in ps:
            c05.check_stop_flag(ck, 'C05-3', p)
            c05.check_join_safety(ck, 'C05-4', p)


def check_private_pool(ck: Checker, rid: str):
    """The executor a parmapper submits to is created by that very iteration: every definition that can reach the
    `<pool>.submit(...)` of the worker wrapper is a `ThreadPoolExecutor(...)` / `ProcessPoolExecutor(...)` call made in
    the iterator method (directly, or as the context manager bound by `with ... as`).  A pool shared with other
    parmappers (a module-level or named shared pool) is not bounded by this stream's `concurrency`, is not released with
    the iteration, and deadlocks when a worker function itself runs a parmap on the same pool (every pool thread waits
    for an inner call that can never get a thread): the outer stream then yields nothing."""
    from .common import STREAMER, STREAMER_ASYNC

    for rel, cname, itname in ((STREAMER, 'Parmapper', '__iter__'), (STREAMER_ASYNC, 'AsyncParmapper', '__aiter__')):
        f = ck.repo.cls(rel, cname).method(itname)
        subs = [n for n in walk_deep_func(f.node) if isinstance(n, ast.Call) and method_of(n)[1] == 'submit' and isinstance(method_of(n)[0], ast.Name)]
        if not subs:
            ck.ob(rid, f, f.node, False, f'{f.qualname} contains no `<pool>.submit(...)` of its own: the calls are submitted by code outside this iteration (a method working on an attribute), so the pool is not the one this iteration constructed — two passes over the same stream share / overwrite it')
            continue
        pool = method_of(subs[0])[0].id

        def defs_of(name, seen=()):
            """expressions that can be bound to `name` in the iterator method (flow-insensitive)"""
            out = []
            for n in walk_shallow_func(f.node):
                if isinstance(n, ast.Assign) and any(isinstance(t, ast.Name) and t.id == name for t in n.targets):
                    out.append(n.value)
                if isinstance(n, (ast.With, ast.AsyncWith)):
                    for it in n.items:
                        if isinstance(it.optional_vars, ast.Name) and it.optional_vars.id == name:
                            out.append(it.context_expr)
            res = []
            for e in out:
                if isinstance(e, ast.Name) and e.id not in seen:
                    inner = defs_of(e.id, seen + (name,))
                    res += inner if inner else [e]  # a name bound outside the iterator method: not made here
                else:
                    res.append(e)
            return res

        ds = defs_of(pool)
        # a keyword parameter of the nested wrapper (executor=executor handed through fifo kwargs) resolves to the outer name
        if not ds:
            for n in walk_deep_func(f.node):
                if isinstance(n, ast.keyword) and n.arg == pool and isinstance(n.value, ast.Name):
                    ds = defs_of(n.value.id)
                    break
        bad = [e for e in ds if not (isinstance(e, ast.Call) and (call_dotted(e) or '').endswith('PoolExecutor'))]
        ck.ob(rid, f, subs[0], bool(ds) and not bad, f'`{pool}` is one of {len(ds)} executors constructed by this iteration' if ds and not bad else (f'`{pool}` can be `{norm_text(bad[0])[:70]}`, which this iteration did not construct: a pool shared between streams is not bounded by this stream\'s concurrency, outlives the iteration, and deadlocks when a worker function runs a parmap on the same pool (nested parmap: every pool thread waits for an inner call that never gets a thread)' if bad else f'the origin of `{pool}` is not visible in {f.name}'))


def check_queue_bound(ck: Checker, rid: str, p):
    """C08-1 for one producer/consumer pair"""
    ctor = p.q_ctor
    arg = ctor.args[0] if ctor.args else kwarg(ctor, 'maxsize')
    probs = []
    if arg is None:
        probs.append(f'`{norm_text(ctor)}` has no size argument: the queue default is (practically) unbounded')
    else:
        lf = linear_form(arg, p.q_ctor_owner)
        if lf is None:
            probs.append(f'cannot express the queue size `{norm_text(arg)}` as a*{p.bound_param} + b')
        else:
            a, b, param, pf = lf
            if param is None:
                probs.append(f'queue size is the constant {b}, independent of `{p.bound_param}`') if b != 0 else probs.append('queue size 0 means unbounded')
            else:
                if param != p.bound_param:
                    probs.append(f'queue size depends on `{param}`, not on `{p.bound_param}`')
                if a > 1 or b > 1:
                    probs.append(f'queue size is {a}*{param} + {b}: look-ahead exceeds the documented bound ({p.bound_param}+3 for fifo, n+2 for buffer)')
                lo = param_lower_bound(pf, param)
                lo = max(lo if lo is not None else 1, 1)
                if a * lo + b < 1:
                    probs.append(f'queue size {a}*{param} + {b} can be 0 (= unbounded) when {param} = {lo}')
    ck.ob(rid, p.q_ctor_owner, ctor, not probs, '; '.join(probs) if probs else f'`{norm_text(ctor)}`: size = {lf[0]}*{lf[2]} + {lf[1]} ≥ 1')


def check_pool_size(ck: Checker, rid: str):
    """The pool of a parmapper has exactly `concurrency` workers, whatever the input: the bound on concurrent calls
    (C08), and -- a size computed from the input is 0 for an empty one, and the pool constructor raises ValueError where
    an empty stream is the answer (C01)."""
    from .common import STREAMER, STREAMER_ASYNC

    for rel, cname, itname in ((STREAMER, 'Parmapper', '__iter__'), (STREAMER_ASYNC, 'AsyncParmapper', '__aiter__')):
        cls = ck.repo.cls(rel, cname)
        f = cls.method(itname)
        ex = [n for n in walk_shallow_func(f.node) if isinstance(n, ast.Call) and (call_dotted(n) or '').endswith('PoolExecutor')]
        ck.need(len(ex) >= 1, f'{f.key}: executor constructors not found')
        probs = []
        for e in ex:
            mw = e.args[0] if e.args else kwarg(e, 'max_workers')
            lf = linear_form(mw, f) if mw is not None else None
            if lf is None or lf[:3] != (1, 0, 'concurrency'):
                probs.append(f'`{call_dotted(e)}` is created with max_workers `{norm_text(mw) if mw is not None else None}` = {lf[:3] if lf else "?"}, not 1*concurrency')
        ck.ob(rid, f, ex[0], not probs, '; '.join(probs) if probs else f'{len(ex)} executors, each with max_workers = concurrency')


def check_pool_release_semantics(ck: Checker, rid: str):
    """`with executor:` around the iteration means "wait for the calls still running": the pool classes of this package keep
    the standard `__exit__` / `shutdown`, or every shutdown they issue waits (wait omitted or True).  A pool that is left
    without waiting when the body raised -- an early stop is GeneratorExit thrown into the body -- returns control while
    calls of this iteration are still running: threads outlive the closed iterator (C05) and overlap the next one (C08)."""
    from .common import FUTURES

    mod = ck.repo.module(FUTURES)
    for cname in ('ThreadPoolExecutor', 'ProcessPoolExecutor'):
        cls = mod.cls(cname)
        probs = []
        site = cls.node
        for st in cls.node.body:
            fn = None
            if isinstance(st, (ast.FunctionDef, ast.AsyncFunctionDef)) and st.name in ('__exit__', 'shutdown'):
                fn = st
            elif isinstance(st, ast.Assign) and any(isinstance(t, ast.Name) and t.id in ('__exit__', 'shutdown') for t in st.targets):
                tgt = dotted(st.value)
                fn = mod.functions[tgt].node if tgt in mod.functions else None
                if fn is None:
                    probs.append(f'L{st.lineno}: `{norm_text(st)[:60]}` replaces the release of the pool by something this analysis cannot read')
                    site = st
                    continue
            if fn is None:
                continue
            for c in ast.walk(fn):
                if not isinstance(c, ast.Call):
                    continue
                me = method_of(c)[1]
                if me != 'shutdown':
                    continue
                w = kwarg(c, 'wait') if kwarg(c, 'wait') is not None else (c.args[0] if c.args else None)
                if w is not None and not (isinstance(w, ast.Constant) and w.value is True):
                    if isinstance(w, ast.Name) and fn.name == 'shutdown' and w.id in [a.arg for a in fn.args.args + fn.args.kwonlyargs]:
                        continue  # the caller's own choice handed through
                    probs.append(f'L{c.lineno}: `{norm_text(c)[:70]}` in `{cname}.{st.name if hasattr(st, "name") else "__exit__"}`: the pool is left without waiting for the calls still running when `{norm_text(w)}` is false — leaving a `with executor:` block on an early stop or a failure returns while calls of this iteration are running')
                    site = c
        ck.ob(rid, cls.methods()[0] if cls.methods() else ck.repo.func(FUTURES, '_loud_thread_function'), site, not probs, '; '.join(probs) if probs else f'`{cname}` keeps the standard context-manager exit (shutdown(wait=True))')
