"""C10 -- tee forks see identical streams and cannot wedge each other (structural clauses)."""

from __future__ import annotations

import ast

from mpsa.cfg import CFG, Node, calls_in, const_truth, header_expr, walk_shallow
from mpsa.flow import fmt_path, held_locks, path_avoiding, reachable
from mpsa.loader import dotted, norm_text
from mpsa.match import Scope, has_timeout, is_name, is_none, kwarg, method_of, walk_deep_func, walk_shallow_func
from mpsa.report import Checker

from .common import TEE, build_cfg, make_fallible

LOCK = 'self.instream_lock'
SRC = 'self.instream'
BUF = 'self.buffer'


def run(ck: Checker):
    ck.rule('C10-1', 'the source lock is released on every exit of the fork step, including when the source raises (EXITS+HELD)')
    ck.rule('C10-2', 'no cycle of unbounded waits between the source lock and the window slots: no untimed lock acquisition precedes the consume step while a put under the lock can block (WAITFOR)')
    ck.rule('C10-3', 'link before publish: the new element is linked into the list before the blocking put into the window (PRECEDE)')
    ck.rule('C10-4', 'pull once: every pull from the source happens under the source lock after an under-lock re-test of the emptiness predicate (HELD+MUSTPASS)', minimum=2)
    ck.rule('C10-6', 'the source\'s failure is not swallowed: an Exception / StopRequested raised by a pull leaves the pulling fork\'s step as an exception on every path (EXITS)', minimum=2)
    ck.rule('C10-5', 'atomic count-and-pop: the per-element counter increment, its comparison with the number of forks and the window pop are one region of the element lock (HELD)')
    f = ck.repo.func(TEE, 'Fork.__next__')
    sc = Scope(f)
    fal = make_fallible(sc, iters={SRC}, calls=set())
    cfg = build_cfg(f, ck.repo, fal)
    ck.analysed_func(f, cfg)
    canon = sc.canon

    # ------------------------------------------------------------ C10-1
    may = held_locks(cfg, canon, mode='may')
    # precise: per exit edge, is the lock possibly held when taking it?  Re-run the may analysis
    # restricted: a path from an acquisition to this exit avoiding releases
    acquires = set()
    releases = set()
    for n in cfg.nodes:
        a = header_expr(n)
        if n.kind == 'with_enter' and canon(n.ast.context_expr) == LOCK:
            acquires.add(n.id)
        if n.kind == 'with_exit' and canon(n.ast.context_expr) == LOCK:
            releases.add(n.id)
        if a is not None and n.kind in ('stmt', 'test'):
            for c in calls_in(a):
                r, me = method_of(c)
                if r is not None and canon(r) == LOCK:
                    if me == 'acquire':
                        acquires.add(n.id)
                    elif me == 'release':
                        releases.add(n.id)
    ck.need(acquires, f'{f.key}: no acquisition of {LOCK}')
    witness = None
    for ex in (cfg.exit_return, cfg.exit_raise):
        if LOCK not in may.get(ex, frozenset()):
            continue
        for e in cfg.pred[ex]:
            # the lock is (possibly) held when this edge is taken: held at the source's entry and the
            # source is not a release that completed
            if LOCK in may.get(e.src, frozenset()) and not (e.src in releases and e.kind != 'exc'):
                witness = (e, ex)
                break
        if witness:
            break
    if witness:
        e, ex = witness
        how = f'`{"/".join(sorted(e.data))}` raised at L{cfg.nodes[e.src].lineno}' if e.kind == 'exc' else f'the exit at L{cfg.nodes[e.src].lineno}'
        ck.ob('C10-1', f, (f.node.lineno, 'source lock pairing'), False, f'{how} leaves the fork step with `{LOCK}` still held: every other fork then spins (or blocks) on the lock for ever')
    else:
        ck.ob('C10-1', f, (f.node.lineno, 'source lock pairing'), True, f'{len(acquires)} acquisition site(s), {len(releases)} release site(s): no exit (return, StopIteration, Exception/StopRequested from the source) is reached with `{LOCK}` held')

    # ... and only what is held is released: on every path that reaches a `release()` this activation holds the lock.
    # A release on the path on which a timed acquire FAILED (the acquire moved inside the try whose finally releases)
    # releases the lock of the peer that holds it: two forks are inside the source at once, elements are lost, all hang
    must0 = held_locks(cfg, canon, mode='must')
    stray = [cfg.nodes[r] for r in sorted(releases) if cfg.nodes[r].kind != 'with_exit' and LOCK not in must0.get(r, frozenset())]
    ck.ob('C10-1', f, stray[0].ast if stray else (f.node.lineno, 'releases'), not stray, f'every one of the {len(releases)} release site(s) is reached only with `{LOCK}` held by this activation' if not stray else f'L{stray[0].lineno}: `{LOCK}.release()` can be reached on a path on which this fork does not hold the lock (its timed acquire failed, or it was never attempted): it releases the lock a peer is holding — both are then inside the source at the same time (elements are skipped, the forks wedge), or the release raises RuntimeError')
    # ------------------------------------------------------------ C10-2
    must = held_locks(cfg, canon, mode='must')
    # blocking puts under the lock
    B = []
    for n in cfg.nodes:
        a = header_expr(n)
        if a is None:
            continue
        for c in calls_in(a):
            r, me = method_of(c)
            if me == 'put' and r is not None and canon(r) == BUF and not has_timeout(c, pos_index=2) and LOCK in may.get(n.id, frozenset()):
                B.append(n)
    # consume step: buffer.get()
    C = {n.id for n in cfg.nodes if header_expr(n) is not None and any(method_of(c)[1] in ('get', 'get_nowait') and method_of(c)[0] is not None and canon(method_of(c)[0]) == BUF for c in calls_in(header_expr(n)))}
    ck.need(C, f'{f.key}: no consume step ({BUF}.get) found')
    # untimed acquisitions
    A = []
    for n in cfg.nodes:
        if n.kind == 'with_enter' and canon(n.ast.context_expr) == LOCK:
            A.append((n, 'with'))
        a = header_expr(n)
        if a is not None and n.kind in ('stmt', 'test'):
            for c in calls_in(a):
                r, me = method_of(c)
                if me == 'acquire' and r is not None and canon(r) == LOCK:
                    if not has_timeout(c, pos_index=1):
                        A.append((n, 'acquire()'))
                    else:
                        # timed: must sit in a loop that re-tests a (non-constant) predicate other than the acquire
                        ok_loop = False
                        for h in reversed(n.loops):
                            hn = cfg.nodes[h]
                            if hn.kind == 'test' and const_truth(hn.ast) is None and not any(method_of(cc)[1] == 'acquire' for cc in calls_in(hn.ast)):
                                ok_loop = True
                                break
                        if not ok_loop:
                            A.append((n, 'timed acquire retried without re-testing the predicate'))
    cyc = []
    if B:
        for an, how in A:
            # does this thread have to pass the acquisition before it can consume (free a slot)?
            reach = reachable(cfg, [an.id])
            # a tail call `return self.__next__()` continues in the next activation of this same step
            if any(isinstance(cfg.nodes[k].ast, ast.Return) and isinstance(cfg.nodes[k].ast.value, ast.Call) and dotted(cfg.nodes[k].ast.value.func) == f'self.{f.name}' for k in reach):
                reach |= reachable(cfg, [cfg.entry])
            if C & reach:
                cyc.append((an, how))
    if cyc:
        an, how = cyc[0]
        ck.ob('C10-2', f, an.ast if an.kind != 'with_enter' else (an.lineno, f'with {LOCK}'), False, f'wait-for cycle: L{B[0].lineno} `{BUF}.put` blocks while holding `{LOCK}` until a slot is freed, a slot is freed only by the consume step at L{sorted(cfg.nodes[c].lineno for c in C)}, and this fork reaches that step only after the unbounded acquisition ({how}) at L{an.lineno}: two forks can wait on each other for ever')
    else:
        ck.ob('C10-2', f, (f.node.lineno, 'wait-for graph'), True, f'{len(B)} blocking put(s) under `{LOCK}`, {len(C)} consume site(s); every acquisition of `{LOCK}` before the consume step is timed inside a loop that re-tests its predicate: no cycle of unbounded waits')

    # ------------------------------------------------------------ C10-3
    n3 = 0
    for n in cfg.nodes:
        if isinstance(n.ast, ast.Assign) and len(n.ast.targets) == 1 and isinstance(n.ast.targets[0], ast.Attribute) and n.ast.targets[0].attr == 'next' and isinstance(n.ast.targets[0].value, ast.Attribute) and isinstance(n.ast.value, ast.Name):
            # link store  <...>.next.next = box
            box = n.ast.value.id
            creators = [k for k in cfg.nodes if isinstance(k.ast, ast.Assign) and is_name(k.ast.targets[0], box) and isinstance(k.ast.value, ast.Call)]
            puts = [k for k in cfg.nodes if header_expr(k) is not None and any(method_of(c)[1] == 'put' and method_of(c)[0] is not None and canon(method_of(c)[0]) == BUF and c.args and is_name(c.args[0], box) for c in calls_in(header_expr(k)))]
            # only the puts fed by the same creation as this link store
            for cr in creators:
                if n.id not in reachable(cfg, [cr.id]):
                    continue
                for pn in puts:
                    if pn.id not in reachable(cfg, [cr.id]):
                        continue
                    p = path_avoiding(cfg, cfg.normal_succ(cr.id), {pn.id}, avoid={n.id})
                    n3 += 1
                    ck.ob('C10-3', f, pn.ast, p is None, 'the element is linked (`.next.next = box`) before the blocking put into the window' if p is None else 'the element is put into the (possibly full) window before it is linked: a peer at the tail keeps spinning on the lock held by the blocked fork', path=fmt_path(cfg, [cr.id] + p) if p else '')
    ck.need(n3 >= 1, f'{f.key}: link store / publish pair not found')

    # ------------------------------------------------------------ C10-4
    pulls = [n for n in cfg.nodes if header_expr(n) is not None and any(dotted(c.func) == 'next' and c.args and canon(c.args[0]) == SRC for c in calls_in(header_expr(n)))]
    ck.need(len(pulls) >= 2, f'{f.key}: fewer than 2 pulls from the source')
    none_tests = {n.id for n in cfg.nodes if n.kind == 'test' and isinstance(n.ast, ast.Compare) and isinstance(n.ast.ops[0], (ast.Is, ast.IsNot)) and is_none(n.ast.comparators[0]) and LOCK in must.get(n.id, frozenset())}
    for pn in pulls:
        probs = []
        if LOCK not in must.get(pn.id, frozenset()):
            probs.append(f'the source is pulled without holding `{LOCK}` on some path')
        # from every acquisition to the pull, an under-lock emptiness test must be passed
        p = path_avoiding(cfg, [cfg.entry], {pn.id}, avoid=none_tests)
        if p is not None:
            probs.append('the source is pulled without re-testing, under the lock, that the element is still missing: two forks can both pull')
        ck.ob('C10-4', f, pn.ast, not probs, '; '.join(probs) if probs else f'pull under `{LOCK}` after an under-lock re-test of the emptiness predicate')

    # ------------------------------------------------------------ C10-6
    # a failure of the source leaves the pulling fork's step as that failure: it is not swallowed
    # (a `break`/`return` in a finally, or a too-wide handler, would turn it into a clean end of stream)
    for pn in pulls:
        probs = []
        for e in cfg.succ[pn.id]:
            if e.kind != 'exc':
                continue
            R = set(e.data or ()) & {'Exception', 'StopRequested'}
            if not R:
                continue
            # follow the exceptional flow: handler nodes that caught (part of) R, cleanup copies pending this exception
            seen, todo = set(), [e.dst]
            while todo:
                k = todo.pop()
                if k in seen:
                    continue
                seen.add(k)
                kn = cfg.nodes[k]
                if k == cfg.exit_raise:
                    continue
                if kn.kind == 'except':
                    caught = set(kn.extra.get('caught') or ()) & R
                    if caught:
                        # a handler for the source's failure: acceptable only if every path through it re-raises
                        if path_avoiding(cfg, [k], {cfg.exit_return} | {x.id for x in cfg.nodes if x.pending is None and x.kind not in ('except', 'exit_raise') and x.id not in reachable(cfg, [k], avoid={cfg.exit_raise}) - {k}}, avoid=set()) is not None and cfg.exit_raise not in reachable(cfg, [k]):
                            probs.append(f'the handler at L{kn.lineno} swallows `{"/".join(sorted(caught))}` raised by the source')
                        continue
                    continue
                if not (kn.pending and kn.pending[0] == 'exc'):
                    probs.append(f'`{"/".join(sorted(R))}` raised by the source is discarded at L{kn.lineno} (`{norm_text(kn.ast)[:30] if kn.ast is not None else kn.kind}`): the fork goes on and ends as if the source were exhausted, instead of raising the source\'s exception')
                    continue
                for e2 in cfg.succ[k]:
                    todo.append(e2.dst)
        ck.ob('C10-6', f, pn.ast, not probs, '; '.join(sorted(set(probs))) if probs else 'an Exception / StopRequested raised by the source propagates out of the step (after the lock is released)')

    # ------------------------------------------------------------ C10-5
    incs = [n for n in cfg.nodes if isinstance(n.ast, ast.AugAssign) and isinstance(n.ast.target, ast.Attribute) and n.ast.target.attr == 'n']
    ck.need(incs, f'{f.key}: per-element counter increment not found')
    inc = incs[0]
    owner = dotted(inc.ast.target.value)
    elock = f'{owner}.lock'
    # the comparison: directly in a test, or bound to a local first (`last = box.n == self.n_forks; if last:`)
    def _cmp(e):
        return e if isinstance(e, ast.Compare) and dotted(e.left) == f'{owner}.n' else None

    tests = [(n, n.ast) for n in cfg.nodes if n.kind == 'test' and _cmp(n.ast) is not None]
    for n in cfg.nodes:
        if isinstance(n.ast, ast.Assign) and len(n.ast.targets) == 1 and isinstance(n.ast.targets[0], ast.Name) and _cmp(n.ast.value) is not None:
            nm = n.ast.targets[0].id
            if any(t.kind == 'test' and isinstance(t.ast, ast.Name) and t.ast.id == nm for t in cfg.nodes):
                tests.append((n, n.ast.value))
    gets = [cfg.nodes[c] for c in C]
    probs = []
    if not tests:
        probs.append('the counter is not compared with the number of forks')
    for n in [inc] + [t for t, _ in tests] + gets:
        if elock not in must.get(n.id, frozenset()):
            probs.append(f'L{n.lineno} `{norm_text(n.ast)[:40]}` is outside `{elock}`')
    exits = {n.id for n in cfg.nodes if n.kind == 'with_exit' and canon(n.ast.context_expr) == elock}
    for t, cmp_ in tests:
        mid = reachable(cfg, [inc.id]) & reachable(cfg, [t.id], forward=False)
        if mid & exits:
            probs.append('the element lock is released between the increment and the comparison')
        if not (isinstance(cmp_.ops[0], ast.Eq) and dotted(cmp_.comparators[0]) == 'self.n_forks'):
            probs.append(f'the pop is guarded by `{norm_text(cmp_)}`, not by `count == number of forks`')
    ck.ob('C10-5', f, inc.ast, not probs, '; '.join(probs) if probs else f'increment, comparison with `self.n_forks` and window pop all inside one `{elock}` region')
    # ------------------------------------------------------------ C10-7
    ck.rule('C10-7', 'window size and exhaustion: the window queue has exactly `buffer_size` slots (the bound on how far the fastest fork can run ahead of the slowest), and the end of the source is recognised by StopIteration only — `next(source, default)` would take an element equal to the default (e.g. None) for the end, so that forks see different streams', minimum=2)
    from .linear import linear_form

    tf = ck.repo.func(TEE, 'tee')
    qc = [n for n in walk_shallow_func(tf.node) if isinstance(n, ast.Call) and (dotted(n.func) or '').split('.')[-1] in ('Queue', 'SingleLane')]
    ck.need(qc, f'{tf.key}: window queue not found')
    arg = qc[0].args[0] if qc[0].args else kwarg(qc[0], 'maxsize')
    lf = linear_form(arg, tf) if arg is not None else None
    okq = lf is not None and lf[0] == 1 and lf[1] == 0 and lf[2] == 'buffer_size'
    ck.ob('C10-7', tf, qc[0], okq, 'the window holds exactly `buffer_size` elements' if okq else f'the window queue is created with `{norm_text(arg) if arg is not None else "no size"}`, not `buffer_size`: the source can be pulled further ahead of the slowest fork than documented (or without bound)')
    nx = [n for n in walk_shallow_func(f.node) if isinstance(n, ast.Call) and dotted(n.func) == 'next' and n.args and (dotted(n.args[0]) or '').endswith('instream')]
    ck.need(nx, f'{f.key}: no pull from the source')
    bad = [n for n in nx if len(n.args) > 1 or n.keywords]
    ck.ob('C10-7', f, nx[0], not bad, f'all {len(nx)} pulls end on StopIteration only' if not bad else f'L{bad[0].lineno}: `{norm_text(bad[0])}` uses an in-band default: a source element equal to it is taken for exhaustion — the fork that pulled it ends early while its peers skip that element and go on (different streams, and the survivor blocks on the full window)')
    ck.rule('C10-8', 'the pop threshold is the number of forks: tee() binds the constructor parameter that becomes `self.n_forks` to the expression that bounds the fork-creation loop (AGREE)', minimum=1)
    check_fork_count(ck, 'C10-8')
    ck.rule('C10-11', 'each fork ends the way the source ended: the handler around the pull of the source that records "exhausted" catches StopIteration and nothing else — a source that fails with RuntimeError (or a subclass: NotImplementedError, RecursionError) must reach every fork as that failure, not as the clean end of a truncated stream')
    fn11 = ck.repo.func(TEE, 'Fork.__next__')
    probs11, n11 = [], 0
    for tr in [t for t in ast.walk(fn11.node) if isinstance(t, ast.Try)]:
        if any(isinstance(c, ast.Call) and dotted(c.func) == 'next' for b in tr.body for c in ast.walk(b)):
            for h in tr.handlers:
                names11 = [(dotted(e) or '?').split('.')[-1] for e in (h.type.elts if isinstance(h.type, ast.Tuple) else ([h.type] if h.type is not None else []))]
                if 'StopIteration' in names11 or h.type is None:
                    n11 += 1
                    if h.type is None or any(nm != 'StopIteration' for nm in names11):
                        probs11.append(f'L{h.lineno}: the handler that records the end of the source catches `{norm_text(h.type) if h.type is not None else "everything"}`: a failure of the source of that class is reported to every fork as clean exhaustion')
    ck.ob('C10-11', fn11, (fn11.node.lineno, 'end-of-source handlers'), not probs11 and n11 >= 1, '; '.join(probs11) if probs11 else f'{n11} handler(s) around the pull, each for StopIteration alone')
    ck.rule('C10-10', 'a fork ends by exhaustion only from its own position: an explicit `raise StopIteration` is reached only after the fork\'s own state showed that it has delivered elements (`self._state` tested non-zero); before its first element a fork ends only through the StopIteration of the pull itself (empty source) — a shared "exhausted" flag would end a fork that has not started although the window still holds every element for it (GUARD)', minimum=1)
    fn10 = ck.repo.func(TEE, 'Fork.__next__')
    cfg10 = build_cfg(fn10, ck.repo, None)
    raises10 = [n for n in cfg10.nodes if isinstance(n.ast, ast.Raise) and n.ast.exc is not None and 'StopIteration' in norm_text(n.ast.exc)]
    started_edges = set()
    for t in cfg10.nodes:
        if t.kind != 'test':
            continue
        c_, neg_ = t.ast, False
        while isinstance(c_, ast.UnaryOp) and isinstance(c_.op, ast.Not):
            c_, neg_ = c_.operand, not neg_
        if isinstance(c_, ast.Compare) and len(c_.ops) == 1 and dotted(c_.left) == 'self._state' and isinstance(c_.comparators[0], ast.Constant) and c_.comparators[0].value == 0:
            lab = 'F' if isinstance(c_.ops[0], ast.Eq) else ('T' if isinstance(c_.ops[0], (ast.NotEq, ast.Gt)) else None)
            if lab and neg_:
                lab = 'T' if lab == 'F' else 'F'
            if lab:
                started_edges.add((t.id, lab))
    probs10 = []
    for rn in raises10:
        p = path_avoiding(cfg10, [cfg10.entry], {rn.id}, edge_ok=lambda e: (e.src, e.kind) not in started_edges)
        if p is not None:
            probs10.append(f'L{rn.lineno}: `raise StopIteration` can be reached by a fork that has not delivered anything yet (no test of its own `_state` on the way): a fork that starts late, after a peer has run to the end of a source that fits into the window, yields nothing')
    ck.ob('C10-10', fn10, raises10[0].ast if raises10 else fn10.node, not probs10, '; '.join(probs10) if probs10 else f'{len(raises10)} explicit raise(s) of StopIteration, each behind the test that this fork has already delivered elements')
    ck.rule('C10-9', 'links are write-once: the `next` of an element box is assigned exactly once, by the prefetch step, to a freshly made box — never cleared or re-pointed (the forks read it without a lock) (WHO)', minimum=1)
    check_links_write_once(ck, 'C10-9')


def _default_of(a: ast.arguments, name: str) -> str:
    allpos = a.posonlyargs + a.args
    for x, d in zip(allpos[len(allpos) - len(a.defaults):], a.defaults):
        if x.arg == name:
            return norm_text(d)
    for x, d in zip(a.kwonlyargs, a.kw_defaults):
        if x.arg == name and d is not None:
            return norm_text(d)
    return 'a default number of'


def check_links_write_once(ck: Checker, rid: str):
    """The forks walk a singly linked list of element boxes without a lock: after a fork has counted an element it reads
    `box.next` to advance.  A link is therefore written once -- by the prefetch step, to a freshly made box -- and never
    cleared or re-pointed: a peer that has counted the element but not yet read its `next` would see None (and take it
    for the end of the source: it ends early, its partner fills the window and blocks) or skip an element."""
    f = ck.repo.func(TEE, 'Fork.__next__')
    stores = []
    for n in walk_deep_func(f.node):
        tgts = n.targets if isinstance(n, ast.Assign) else ([n.target] if isinstance(n, (ast.AugAssign, ast.AnnAssign)) else [])
        for t in tgts:
            if isinstance(t, ast.Attribute) and t.attr == 'next' and not is_name(t.value, 'self'):
                stores.append((n, t))
        if isinstance(n, ast.Delete):
            for t in n.targets:
                if isinstance(t, ast.Attribute) and t.attr == 'next' and not is_name(t.value, 'self'):
                    stores.append((n, t))
        if isinstance(n, ast.Call) and dotted(n.func) in ('setattr', 'delattr') and len(n.args) >= 2 and isinstance(n.args[1], ast.Constant) and n.args[1].value == 'next' and not is_name(n.args[0], 'self'):
            stores.append((n, n.args[0]))
    box_classes = set(f.module.classes)  # the element box is a class of this module, whatever it is called
    fresh = {n.targets[0].id for n in walk_deep_func(f.node) if isinstance(n, ast.Assign) and len(n.targets) == 1 and isinstance(n.targets[0], ast.Name) and isinstance(n.value, ast.Call) and (dotted(n.value.func) or '').split('.')[-1] in box_classes}
    probs = []
    links = 0
    for n, t in stores:
        v = n.value if isinstance(n, ast.Assign) else None
        if isinstance(v, ast.Name) and v.id in fresh:
            links += 1
            continue
        probs.append(f'L{n.lineno}: `{norm_text(n)[:50]}` clears or re-points the link of an element box: a peer that has counted this element and is about to read its `next` (no lock there) sees the end of the source mid-stream — it ends early and its partner fills the window and blocks — or skips an element')
    if links != 1:
        probs.append(f'{links} link steps found (expected exactly one: `<tail>.next = <fresh box>` in the prefetch)')
    ck.ob(rid, f, stores[0][0] if stores else f.node, not probs, '; '.join(probs) if probs else 'the link of an element box is written once, by the prefetch step, to a freshly made box')


def check_fork_count(ck: Checker, rid: str):
    """The window pops an element when `box.n == self.n_forks`.  That number must be the number of forks that exist:
    `tee()` binds the `n_forks` parameter of every `Fork(...)` it creates (through the signature of Fork.__init__,
    positionally or by keyword) to the very expression that bounds the creation loop, and the constructor stores it
    unchanged.  A default, a constant or another variable gives the same streams for the matching n and silently pops
    early (the window no longer bounds the lead over the slowest fork) or never (all forks block) for the others."""
    tf = ck.repo.func(TEE, 'tee')
    fk = ck.repo.cls(TEE, 'Fork')
    init = fk.method('__init__')
    a = init.node.args
    pos = [x.arg for x in a.posonlyargs + a.args][1:]
    kwo = [x.arg for x in a.kwonlyargs]
    # which parameter ends up in self.n_forks
    src = None
    for n in walk_shallow_func(init.node):
        if isinstance(n, ast.Assign) and len(n.targets) == 1 and dotted(n.targets[0]) == 'self.n_forks':
            src = n.value
    ck.need(src is not None, f'{init.key}: `self.n_forks` is not assigned')
    ok_store = isinstance(src, ast.Name) and src.id in pos + kwo
    calls = [n for n in ast.walk(tf.node) if isinstance(n, ast.Call) and dotted(n.func) == 'Fork']
    ck.need(calls, f'{tf.key}: no Fork(...) construction')
    for c in calls:
        probs = []
        if not ok_store:
            probs.append(f'Fork.__init__ stores `{norm_text(src)}` as the number of forks, not its parameter')
        else:
            pname = src.id
            given = None
            if pname in pos and pos.index(pname) < len(c.args) and not any(isinstance(x, ast.Starred) for x in c.args):
                given = c.args[pos.index(pname)]
            for k in c.keywords:
                if k.arg == pname:
                    given = k.value
            # the loop that creates the forks
            bound = None
            for n in ast.walk(tf.node):
                gens = n.generators if isinstance(n, (ast.GeneratorExp, ast.ListComp)) else []
                if gens and any(x is c for x in ast.walk(n)):
                    it = gens[0].iter
                    if isinstance(it, ast.Call) and dotted(it.func) == 'range' and len(it.args) == 1:
                        bound = it.args[0]
                if isinstance(n, ast.For) and any(x is c for x in ast.walk(n)) and isinstance(n.iter, ast.Call) and dotted(n.iter.func) == 'range' and len(n.iter.args) == 1:
                    bound = n.iter.args[0]
            if given is None:
                probs.append(f'`{norm_text(c)[:60]}` does not pass `{pname}`: every fork believes there are {_default_of(a, pname)} forks — with more forks an element leaves the window before the slowest fork has read it from there, so the source runs ahead without the documented bound; with fewer the window is never popped and all forks block')
            elif bound is None:
                probs.append('the loop that creates the forks is not a `range(<count>)` loop')
            elif norm_text(given) != norm_text(bound):
                probs.append(f'the forks are told there are `{norm_text(given)}` forks but `{norm_text(bound)}` are created')
        ck.ob(rid, tf, c, not probs, '; '.join(probs) if probs else f'every fork is told the number of forks that are created (`{norm_text(bound)}`), stored unchanged as `self.n_forks`')
