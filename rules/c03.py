"""C03 -- stream pipelines equal their sequential meaning (thin: structural clauses only).

Decided: laziness at build time, incremental consumption, operators wrap the previous
streamlet, helpers that must be identities, yielded batches are not mutated.
Declined: the value-level equivalence with the sequential meaning.
"""

from __future__ import annotations

import ast

from mpsa.cfg import CFG, Node, calls_in, header_expr, walk_shallow
from mpsa.flow import count_minmax, fmt_path, path_avoiding, reachable
from mpsa.loader import ClassInfo, FuncInfo, dotted, norm_text
from mpsa.match import Scope, is_name, is_none, method_of, names_in, walk_deep_func, walk_shallow_func
from mpsa.report import Checker

from .c19 import check_batch_ownership
from .common import STREAMER, STREAMER_ASYNC, TEE, build_cfg, resolve_local

CONSUMING = {'list', 'tuple', 'sorted', 'sum', 'set', 'dict', 'max', 'min', 'any', 'all', 'len', 'next', 'anext', 'deque', 'collections.deque', 'reversed', 'enumerate', 'zip', 'map', 'filter', 'frozenset'}
EAGER_CONSUMING = CONSUMING - {'enumerate', 'zip', 'map', 'filter', 'reversed'}
LAZY_COMBINATORS = {'itertools.groupby', 'asyncstdlib.itertools.groupby', 'fifo_stream', 'async_fifo_stream', 'iter', 'aiter'}


def _uses_consuming(f: FuncInfo, names: set[str]):
    """Places in f where one of the expressions (dotted strings) in `names` is iterated or consumed."""
    out = []
    for n in walk_deep_func(f.node):
        if isinstance(n, (ast.For, ast.AsyncFor)) and dotted(n.iter) in names:
            out.append((n, f'iterated at L{n.lineno}'))
        if isinstance(n, (ast.ListComp, ast.SetComp, ast.DictComp, ast.GeneratorExp)):
            for g in n.generators:
                if dotted(g.iter) in names and not isinstance(n, ast.GeneratorExp):
                    out.append((n, f'consumed by a comprehension at L{n.lineno}'))
        if isinstance(n, ast.Call):
            d = dotted(n.func) or ''
            if d in EAGER_CONSUMING and any(dotted(a) in names for a in n.args):
                out.append((n, f'passed to `{d}(…)` at L{n.lineno}'))
        if isinstance(n, (ast.YieldFrom,)) and dotted(n.value) in names:
            out.append((n, f'`yield from` at L{n.lineno}'))
        if isinstance(n, ast.Starred) and dotted(n.value) in names:
            out.append((n, f'unpacked with * at L{n.lineno}'))
    return out


def streamlet_classes(mod):
    """classes whose __init__ takes `instream` as first parameter"""
    out = []
    for c in mod.classes.values():
        if c.has_method('__init__'):
            ps = c.method('__init__').params()
            if len(ps) >= 2 and ps[1] == 'instream':
                out.append(c)
    return out


def run(ck: Checker):
    ck.rule('C03-1', 'lazy build: constructors and operator methods only store the incoming stream or hand it to a streamlet constructor — they never iterate it, call next() on it or pass it to a consuming builtin (taint)', minimum=40)
    ck.rule('C03-2', 'incremental consumption: an operator consumes its input only as the iterable of a loop whose body yields, or hands it to a lazy combinator; Mapper yields exactly func(element) once per element, Filter at most the element itself (shape+COUNT)', minimum=20)
    ck.rule('C03-3', 'wrap-previous: every operator method appends exactly one streamlet built on `self.streamlets[-1]` and returns self, or returns the result of another operator method (COUNT)', minimum=20)
    ck.rule('C03-4', 'identities: Peeker.__call__ returns its argument on every return path; the filter_exceptions predicate returns only booleans or raises its own argument', minimum=2)
    ck.rule('C03-5', 'batch ownership: a yielded batch list is never mutated afterwards', minimum=3)
    ck.rule('C03-6', 'element bookkeeping of the accumulating operators: every pulled element is stored or yielded on every path of its iteration (at most once); a container is never yielded empty or twice and is flushed on every normal end of the stream; head counts exactly; tail keeps a window of n (typestate+COUNT)', minimum=14)
    ck.rule('C03-7', 'relay exactness of buffer / SyncIter: the producer hands every element over once, unchanged; the consumer yields the dequeued element itself once and ends only on the end marker (COUNT+MUSTPASS)', minimum=9)
    smod, amod, tmod = ck.repo.module(STREAMER), ck.repo.module(STREAMER_ASYNC), ck.repo.module(TEE)
    # ------------------------------------------------------------------ C03-1 constructors
    for mod in (smod, amod, tmod):
        for c in streamlet_classes(mod):
            init = c.method('__init__')
            uses = _uses_consuming(init, {'instream'})
            # ... nor read it in any other way: a slice / index / len / method call at build time takes a snapshot of a source
            # that may be filled later (and is looked at again on every consumption)
            for n_ in walk_deep_func(init.node):
                if isinstance(n_, ast.Subscript) and is_name(n_.value, 'instream') and isinstance(n_.ctx, ast.Load):
                    uses.append((n_, f'indexed / sliced at L{n_.lineno} (`{norm_text(n_)}`): the operator works on a snapshot taken when the pipeline was built'))
                if isinstance(n_, ast.Call) and isinstance(n_.func, ast.Attribute) and is_name(n_.func.value, 'instream'):
                    uses.append((n_, f'called at L{n_.lineno} (`{norm_text(n_)[:40]}`)'))
                if isinstance(n_, ast.Call) and (dotted(n_.func) or '') in ('len', 'reversed', 'copy.copy', 'copy.deepcopy') and any(is_name(a_, 'instream') for a_ in n_.args):
                    uses.append((n_, f'passed to `{dotted(n_.func)}` at L{n_.lineno}'))
            ck.ob('C03-1', init, (init.node.lineno, f'{c.name}.__init__'), not uses, 'the incoming stream is only stored' if not uses else f'building the pipeline consumes the source: `instream` is {uses[0][1]}')
    # Stream / AsyncStream constructors and operator methods
    ops = []
    for mod, cname in ((smod, 'Stream'), (amod, 'AsyncStream')):
        cls = mod.cls(cname)
        for f in cls.methods():
            if f.name.startswith('__') and f.name not in ('__init__',):
                continue
            if f.name in ('drain', 'collect', '_choose_by_mode'):
                continue
            uses = _uses_consuming(f, {'instream', 'self.streamlets[-1]', 'self.streamlets', 'self'})
            # self.streamlets[-1] is a Subscript: check separately
            for n in walk_deep_func(f.node):
                if isinstance(n, (ast.For, ast.AsyncFor)) and (norm_text(n.iter).startswith('self.streamlets') or norm_text(n.iter) == 'self'):
                    uses.append((n, f'iterated at L{n.lineno}'))
                if isinstance(n, ast.Call) and (dotted(n.func) or '') in EAGER_CONSUMING and any(norm_text(a).startswith('self.streamlets') or norm_text(a) == 'self' for a in n.args):
                    uses.append((n, f'passed to `{dotted(n.func)}` at L{n.lineno}'))
            ck.ob('C03-1', f, (f.node.lineno, f'{cname}.{f.name}'), not uses, 'builds lazily: nothing is pulled from the previous streamlet' if not uses else f'the operator consumes the stream at build time: {uses[0][1]}')
            if f.name != '__init__':
                ops.append(f)
    tee = tmod.func('tee')
    uses = [u for u in _uses_consuming(tee, {'instream'})]
    ck.ob('C03-1', tee, (tee.node.lineno, 'tee'), not uses, 'tee only wraps the source in iter() (non-consuming) and shares it between the forks' if not uses else f'tee consumes the source when called: {uses[0][1]}')
    # ------------------------------------------------------------------ C03-3
    for f in ops:
        cfg = build_cfg(f, ck.repo, None)
        ck.analysed_func(f, cfg)

        def appends(n: Node):
            a = header_expr(n)
            if a is None:
                return 0
            return sum(1 for c in calls_in(a) if method_of(c)[1] == 'append' and dotted(method_of(c)[0]) == 'self.streamlets')

        res = count_minmax(cfg, cfg.entry, appends, back='skip')
        v = res.get(('node', cfg.exit_return))
        rets = [n for n in cfg.nodes if isinstance(n.ast, ast.Return)]
        probs = []
        delegating = all(isinstance(r.ast.value, ast.Call) and (dotted(r.ast.value.func) or '').startswith('self.') for r in rets) and bool(rets)
        if delegating:
            if v != (0, 0):
                probs.append('a delegating operator also appends a streamlet itself')
            names = {dotted(r.ast.value.func).split('.', 1)[1] for r in rets}
            cls = f.cls
            if not all(cls.has_method(nm) or nm in ('map', 'filter') for nm in names):
                probs.append(f'delegates to {sorted(names)}, not an operator method')
        else:
            if v != (1, 1):
                probs.append(f'appends {v} streamlets on some path (must be exactly one)')
            if not all(is_name(r.ast.value, 'self') for r in rets) or not rets:
                probs.append('does not return self on every path (chaining would build on a different object)')
            for n in cfg.nodes:
                a = header_expr(n)
                if a is None:
                    continue
                for c in calls_in(a):
                    if method_of(c)[1] == 'append' and dotted(method_of(c)[0]) == 'self.streamlets':
                        arg = c.args[0] if c.args else None
                        inner = arg
                        if isinstance(arg, ast.Name):
                            # the streamlet was bound to a local first
                            defs = [k for k in walk_shallow_func(f.node) if isinstance(k, ast.Assign) and len(k.targets) == 1 and is_name(k.targets[0], arg.id)]
                            if len(defs) == 1:
                                inner = defs[0].value
                        if not (isinstance(inner, ast.Call) and inner.args and norm_text(inner.args[0]) == 'self.streamlets[-1]'):
                            probs.append(f'the appended streamlet `{norm_text(arg)[:50]}` is not built on `self.streamlets[-1]`: the operator would not see the previous operators\' output')
        ck.ob('C03-3', f, (f.node.lineno, f'{f.cls.name}.{f.name}'), not probs, '; '.join(sorted(set(probs))) if probs else ('delegates to another operator method' if delegating else 'appends exactly one streamlet wrapping the previous one and returns self'))
    # ------------------------------------------------------------------ C03-2
    exempt = {'Tailer': 'must read everything by definition', 'AsyncTailer': 'must read everything by definition', 'Shuffler': 'keeps a bounded reservoir', 'AsyncShuffler': 'keeps a bounded reservoir'}
    for mod in (smod, amod):
        for c in streamlet_classes(mod):
            itn = '__iter__' if c.has_method('__iter__') else ('__aiter__' if c.has_method('__aiter__') else None)
            if itn is None or c.name in ('Buffer', 'AsyncBuffer', 'EagerBatcher', 'Stream', 'AsyncStream'):
                continue  # producer-thread streamlets: C05/C08; EagerBatcher reads a queue: C19
            f = c.method(itn)
            probs = []
            src = 'self._instream'
            loops = [n for n in walk_shallow_func(f.node) if isinstance(n, (ast.For, ast.AsyncFor)) and dotted(n.iter) == src]
            handed = [n for n in walk_shallow_func(f.node) if isinstance(n, ast.Call) and any(dotted(a) == src for a in n.args)]
            other = _uses_consuming(f, {src})
            other = [u for u in other if not any(u[0] is l for l in loops)]
            if c.name in exempt:
                # Tailer: bounded memory
                if 'Tailer' in c.name:
                    dq = [n for n in walk_shallow_func(f.node) if isinstance(n, ast.Call) and (dotted(n.func) or '').endswith('deque')]
                    if not dq or not any(k.arg == 'maxlen' for k in dq[0].keywords):
                        probs.append('tail keeps an unbounded deque')
                if 'Shuffler' in c.name:
                    pass
                ck.ob('C03-2', f, (f.node.lineno, c.name), not probs, f'exempt from incrementality ({exempt[c.name]}); memory is bounded' if not probs else '; '.join(probs))
                continue
            for u in other:
                if isinstance(u[0], ast.YieldFrom) and dotted(u[0].value) == src:
                    continue  # `yield from self._instream` is incremental
                probs.append(f'the input is consumed eagerly: {u[1]}')
            for h in handed:
                d = dotted(h.func) or ''
                if d in EAGER_CONSUMING:
                    continue  # already reported above
                if not (d in LAZY_COMBINATORS or d.endswith('groupby') or d.endswith('fifo_stream') or d in ('isiterable', 'isasynciterable', 'Parmapper', 'cls')):
                    probs.append(f'the input is handed to `{d}`, which is not a known lazy combinator' + (': the builtin runs the user callable inside its own __next__, so a StopIteration raised by the callable is taken for the end of the input and the stream is silently truncated (a generator body turns it into RuntimeError)' if d in ('map', 'filter') else ''))
            if not loops and not handed and not any(isinstance(n, ast.YieldFrom) and dotted(n.value) == src for n in walk_shallow_func(f.node)):
                probs.append('the input is not consumed at all')
            for lp in loops:
                # the body must be able to yield (incremental), or fill a structure that is yielded (Batcher)
                if not any(isinstance(x, (ast.Yield, ast.YieldFrom)) for b in lp.body for x in ast.walk(b)):
                    probs.append(f'the loop over the input at L{lp.lineno} never yields: all input is read before the first output')
            # Mapper / Filter exactness
            if c.name in ('Mapper', 'AsyncMapper', 'Filter', 'AsyncFilter'):
                cfg = build_cfg(f, ck.repo, None, gen_throw=False)
                for hn in [n for n in cfg.nodes if n.kind == 'for' and dotted(n.ast.iter) == src]:
                    v = hn.ast.target.id
                    isy = lambda n: 1 if n.extra.get('yield') or (isinstance(n.ast, ast.Expr) and isinstance(n.ast.value, ast.Yield)) else 0
                    res = count_minmax(cfg, hn.id, isy, stop=lambda nid: hn.id not in cfg.nodes[nid].loops and nid != hn.id, start_edges=lambda e: e.kind == 'iter')
                    for term, (lo, hi) in res.items():
                        if term[0] != 'back':
                            continue
                        if 'Mapper' in c.name and (lo, hi) != (1, 1):
                            probs.append(f'map yields {lo}..{hi} outputs for one element')
                        if 'Filter' in c.name and hi > 1:
                            probs.append(f'filter yields up to {hi} outputs for one element')
                    for n in cfg.nodes:
                        if hn.id in n.loops and isinstance(n.ast, ast.Expr) and isinstance(n.ast.value, ast.Yield):
                            yv = resolve_local(cfg, n, n.ast.value.value)
                            if 'Filter' in c.name and not is_name(yv, v):
                                probs.append(f'filter yields `{norm_text(yv)}`, not the element itself')
                            if 'Mapper' in c.name:
                                inner = yv.value if isinstance(yv, ast.Await) else yv
                                if not (isinstance(inner, ast.Call) and dotted(inner.func) == 'func' and len(inner.args) == 1 and is_name(inner.args[0], v)):
                                    probs.append(f'map yields `{norm_text(yv)}`, not func(element)')
            ck.ob('C03-2', f, (f.node.lineno, c.name), not probs, '; '.join(sorted(set(probs))) if probs else 'consumes its input incrementally (loop that yields / lazy combinator)')
    # ------------------------------------------------------------------ C03-4
    f = smod.func('Stream.peek.Peeker.__call__')
    rets = [n for n in walk_shallow_func(f.node) if isinstance(n, ast.Return)]
    p0 = f.params()[1]
    cfg = build_cfg(f, ck.repo, None)
    falls = [e for e in cfg.pred[cfg.exit_return] if not isinstance(cfg.nodes[e.src].ast, ast.Return)]
    reassigned = [n for n in walk_shallow_func(f.node) if isinstance(n, (ast.Assign, ast.AugAssign)) and any(is_name(t, p0) for t in (n.targets if isinstance(n, ast.Assign) else [n.target]))]
    ok = bool(rets) and all(is_name(r.value, p0) for r in rets) and not falls and not reassigned
    ck.ob('C03-4', f, (f.node.lineno, 'Peeker.__call__'), ok, f'all {len(rets)} return paths return the element unchanged' if ok else 'peek can alter the stream: a path returns something other than the element (or falls off the end, returning None)')
    f = smod.func('Stream.filter_exceptions.foo')
    rets = [n for n in walk_shallow_func(f.node) if isinstance(n, ast.Return)]
    raises = [n for n in walk_shallow_func(f.node) if isinstance(n, ast.Raise)]
    p0 = f.params()[0]
    cfg = build_cfg(f, ck.repo, None)
    falls = [e for e in cfg.pred[cfg.exit_return] if not isinstance(cfg.nodes[e.src].ast, ast.Return)]
    ok = all(isinstance(r.value, ast.Constant) and isinstance(r.value.value, bool) for r in rets) and all(is_name(r.exc, p0) for r in raises) and not falls
    # non-exceptions are always kept
    keep = [n for n in walk_shallow_func(f.node) if isinstance(n, ast.If) and 'isinstance' in norm_text(n.test) and 'BaseException' in norm_text(n.test)]
    ok = ok and bool(keep) and isinstance(f.node.body[-1], ast.Return) and isinstance(f.node.body[-1].value, ast.Constant) and f.node.body[-1].value.value is True
    ck.ob('C03-4', f, (f.node.lineno, 'filter_exceptions predicate'), ok, 'returns only booleans, raises only the element itself, keeps every non-exception' if ok else 'the filter_exceptions predicate can drop / alter non-exception elements or raise something else')
    # ------------------------------------------------------------------ C03-5
    for mod, cname, itn in ((smod, 'Batcher', '__iter__'), (amod, 'AsyncBatcher', '__aiter__'), (smod, 'EagerBatcher', '__iter__')):
        f = mod.cls(cname).method(itn)
        ck.need(check_batch_ownership(ck, 'C03-5', f), f'{f.key}: no `yield <batch>` found')
    # ------------------------------------------------------------------ C03-6
    from . import c03ops

    for mod in (smod, amod):
        for c in streamlet_classes(mod):
            itn = '__iter__' if c.has_method('__iter__') else ('__aiter__' if c.has_method('__aiter__') else None)
            if itn is None or c.name in ('Buffer', 'AsyncBuffer', 'EagerBatcher', 'Stream', 'AsyncStream', 'SyncIter', 'AsyncIter') or 'Parmapper' in c.name or c.name in c03ops.DELEGATING:
                continue
            f = c.method(itn)
            c03ops.check_container_typestate(ck, 'C03-6', f, c.name)
            if c.name not in c03ops.DROPPING:
                c03ops.check_conservation(ck, 'C03-6', f, c.name)
            if 'Header' in c.name:
                c03ops.check_head_count(ck, 'C03-6', f, c.name)
            if 'Tailer' in c.name:
                c03ops.check_tail_window(ck, 'C03-6', f, c.name)
    # ------------------------------------------------------------------ C03-8
    ck.rule('C03-8', 'the hand-off queue under buffer / parmap cannot lose an element or a wake-up: SingleLane inserts and removes at opposite ends inside one lock region each, signals the opposite condition, and evaluates the predicate of every wait under the lock (the C01-4 / C09-6 obligations of SingleLane) — otherwise a pipeline containing buffer or parmap never finishes', minimum=3)
    from . import c01, c09
    from .common import QUEUES

    c01.check_singlelane(ck, 'C03-8')
    c09.check_wait_discipline(ck, 'C03-8', modules=(QUEUES,), minimum=2)
    # ------------------------------------------------------------------ C03-7
    from . import c05

    for p in c05.pairs(ck):
        if p.fin is not None:  # the class-style pairs: Buffer, AsyncBuffer, SyncIter
            c03ops.check_relay(ck, 'C03-7', p)
    c05.check_per_run_state(ck, 'C03-7')
    c05.check_marker_identity(ck, 'C03-7')
    # ------------------------------------------------------------------ C03-9
    ck.rule('C03-11', 'accumulate: "no initializer given" is told apart from every value a user can give (None included, as documented) and from every value the running result can take: the default is a module-level `object()` sentinel and the test is an identity test against it (AGREE)', minimum=1)
    acc = smod.cls('Stream').method('accumulate')
    a_ = acc.node.args
    allp = a_.posonlyargs + a_.args
    dmap = {x.arg: d for x, d in zip(allp[len(allp) - len(a_.defaults):], a_.defaults)}
    dmap.update({x.arg: d for x, d in zip(a_.kwonlyargs, a_.kw_defaults) if d is not None})
    dflt = dmap.get('initializer')
    sentinels = {t.id for st_ in smod.tree.body if isinstance(st_, ast.Assign) and isinstance(st_.value, ast.Call) and dotted(st_.value.func) == 'object' and not st_.value.args for t in st_.targets if isinstance(t, ast.Name)}
    probs11 = []
    if not (isinstance(dflt, ast.Name) and dflt.id in sentinels):
        probs11.append(f'the default of `initializer` is `{norm_text(dflt) if dflt is not None else "absent"}`, not a private `object()` sentinel: a user who passes that very value (None is documented as a legal initializer) is treated as having passed nothing, and a running result equal to it restarts the accumulation from the raw element')
    else:
        tests11 = [n for n in ast.walk(acc.node) if isinstance(n, ast.Compare) and len(n.ops) == 1 and any(isinstance(x, ast.Name) and x.id == dflt.id for x in [n.left] + n.comparators)]
        if not tests11:
            probs11.append(f'the sentinel `{dflt.id}` is never tested')
        for t_ in tests11:
            if not isinstance(t_.ops[0], (ast.Is, ast.IsNot)):
                probs11.append(f'L{t_.lineno}: `{norm_text(t_)}` compares with the sentinel by equality: the running value\'s own __eq__ decides')
    ck.ob('C03-11', acc, dflt if dflt is not None else acc.node, not probs11, '; '.join(probs11) if probs11 else f'`initializer` defaults to the module-level sentinel `{dflt.id}` = object(), tested by identity')
    ck.rule('C03-10', 'class collections given by the user reach isinstance as a class or a tuple: the operator methods whose parameters end up as the second argument of isinstance (filter_exceptions, peek) turn a list into a tuple first (ORIGIN)', minimum=3)
    n10 = c03ops.check_classinfo_params(ck, 'C03-10', smod, 'Stream')
    ck.need(n10 >= 3, f'only {n10} class-collection parameters reaching isinstance found in Stream')
    ck.rule('C03-9', 'buffer and parmap inside a chain: stopping the consumer stops the producer of a buffer (incremental consumption: the stop flag is set on every abnormal consumer exit and polled by the producer every iteration — the C05-3 obligations of Buffer / AsyncBuffer / SyncIter), and parmap hands on what the worker returned as a value whatever its type (the consumer-pairing obligations C01-3 of fifo_stream / async_fifo_stream)', minimum=8)
    from . import fifo

    for p in c05.pairs(ck):
        if p.fin is not None:
            c05.check_stop_flag(ck, 'C03-9', p)
        else:
            # "taking the first k outputs": stopping a parmap stream early must return -- the stop flag is raised
            # before the drain, so that the join of the feeder cannot wedge on a refilled queue (the C05-3/-4 obligations)
            c05.check_stop_flag(ck, 'C03-9', p)
            c05.check_join_safety(ck, 'C03-9', p)
        # "pulls only a bounded number of source elements beyond k": the hand-off queue is bounded for every legal
        # parameter value (a size that can be 0 means unbounded -- buffer(1) would read the whole source ahead)
        if p.label != 'SyncIter':
            from .c08 import check_queue_bound

            check_queue_bound(ck, 'C03-9', p)
        # the stream ends the way the sequential meaning ends: the producer leaves a terminal item on every exit and the
        # consumer understands every item the producer can send (the C05-1/-2 obligations)
        c05.check_terminal_item(ck, 'C03-9', p)
        c05.check_vocabulary(ck, 'C03-9', p)
    for q in ('fifo_stream', 'async_fifo_stream'):
        m_ = fifo.discover(ck.repo, smod.func(q))
        fifo.check_consumer_pairing(ck, 'C03-9', m_)
        # parmap is map: the future enqueued with an element was made from that very element (after the preprocessor),
        # once -- an element that is passed through, or paired with another element's future, is not func(element)
        fifo.check_pair_freshness(ck, 'C03-9', m_)
        fifo.check_one_handoff(ck, 'C03-9', m_)
