"""C19 -- EagerBatcher partitions its input and waits no longer than told (structural clauses)."""

from __future__ import annotations

import ast

from mpsa.cfg import CFG, Node, calls_in, header_expr, walk_shallow
from mpsa.flow import count_minmax, fmt_path, path_avoiding, reachable
from mpsa.loader import dotted, norm_text
from mpsa.match import Scope, has_timeout, is_name, is_none, method_of, walk_shallow_func
from mpsa.report import Checker

from .c09 import check_deadline_shape, check_size_bound, check_wait_config
from .common import STREAMER, build_cfg, make_fallible


def check_batch_ownership(ck: Checker, rid: str, f):
    """After `yield batch` the name is rebound to a new list before any mutating call on it."""
    cfg = build_cfg(f, ck.repo, None, gen_throw=False)
    ck.analysed_func(f, cfg)
    ys = []
    for n in cfg.nodes:
        if isinstance(n.ast, ast.Expr) and isinstance(n.ast.value, ast.Yield) and isinstance(n.ast.value.value, ast.Name):
            ys.append((n, n.ast.value.value.id))
    if not ys:
        return False
    for yn, name in ys:
        mut = {k.id for k in cfg.nodes if header_expr(k) is not None and any(method_of(c)[1] in ('append', 'extend', 'clear', 'pop', 'insert', 'remove', 'sort', 'reverse') and is_name(method_of(c)[0], name) for c in calls_in(header_expr(k)))}
        mut |= {k.id for k in cfg.nodes if isinstance(k.ast, (ast.AugAssign,)) and is_name(k.ast.target, name)}
        mut |= {k.id for k in cfg.nodes if isinstance(k.ast, ast.Assign) and any(isinstance(t, ast.Subscript) and is_name(t.value, name) for t in k.ast.targets)}
        rebind = {k.id for k in cfg.nodes if isinstance(k.ast, ast.Assign) and any(is_name(t, name) for t in k.ast.targets) and isinstance(k.ast.value, (ast.List, ast.Call, ast.ListComp))}
        p = path_avoiding(cfg, cfg.normal_succ(yn.id), mut, avoid=rebind)
        ck.ob(rid, f, yn.ast, p is None, f'after `yield {name}` the name is rebound to a fresh list before it is modified again: a batch the consumer holds is never mutated' if p is None else f'the list `{name}` is modified after it was yielded: the consumer\'s batch changes under its hands', path=fmt_path(cfg, [yn.id] + p) if p else '')
    return True


def run(ck: Checker):
    ck.rule('C19-1', 'partition: every item that is not the end marker is placed in exactly one batch; the end marker (None or the custom one) is never placed; every batch is yielded exactly once, and the end marker flushes the open batch (COUNT+GUARD)', minimum=3)
    ck.rule('C19-2', 'size bound: a batch starts with one element, grows by one per counted iteration, under a strict `<` guard against batch_size (COUNT)')
    ck.rule('C19-3', 'deadline shape: only the first get of a batch is untimed; later gets are bounded by a deadline fixed after the first element from batch_wait_time; queue.Empty releases the batch at once')
    ck.rule('C19-4', 'batch ownership: a yielded batch is never mutated afterwards', minimum=2)
    f = ck.repo.func(STREAMER, 'EagerBatcher.__iter__')
    check_size_bound(ck, 'C19-2', f, 'self._batch_size')
    check_deadline_shape(ck, 'C19-3', f, queue='self._instream', wait_attr='self._batch_wait_time', size_attr='self._batch_size')
    check_wait_config(ck, 'C19-3', ck.repo.func(STREAMER, 'EagerBatcher.__init__'), param='batch_wait_time', attr='self._batch_wait_time')
    check_batch_ownership(ck, 'C19-4', f)
    # ------------------------------------------------------------------ C19-1
    sc = Scope(f)

    def extra(node, a):
        return {'Empty'} if any(method_of(c)[1] == 'get' and has_timeout(c) for c in calls_in(a)) else set()

    cfg = build_cfg(f, ck.repo, make_fallible(sc, iters=set(), calls=set(), extra=extra), gen_throw=False)
    ck.analysed_func(f, cfg)
    gets = [n for n in cfg.nodes if isinstance(n.ast, ast.Assign) and isinstance(n.ast.value, ast.Call) and method_of(n.ast.value)[1] == 'get' and sc.canon(method_of(n.ast.value)[0]) == 'self._instream']
    ck.need(len(gets) >= 2, f'{f.key}: fewer than two gets')
    end = None
    for n in walk_shallow_func(f.node):
        if isinstance(n, ast.Assign) and dotted(n.value) == 'self._endmarker' and isinstance(n.targets[0], ast.Name):
            end = n.targets[0].id
    ck.need(end, f'{f.key}: end marker alias not found')
    for g in gets:
        z = g.ast.targets[0].id
        place = set()
        for n in cfg.nodes:
            if isinstance(n.ast, ast.Assign) and isinstance(n.ast.value, ast.List) and len(n.ast.value.elts) == 1 and is_name(n.ast.value.elts[0], z):
                place.add(n.id)
            if header_expr(n) is not None and any(method_of(c)[1] == 'append' and c.args and is_name(c.args[0], z) for c in calls_in(header_expr(n))):
                place.add(n.id)
        # marker tests on z
        marker = {}
        mforms = {}
        mine = reachable(cfg, [e.dst for e in cfg.normal_succ(g.id)], avoid={k.id for k in gets})

        def marker_test(t):
            """(label on which `z` IS the end marker, forms recognised) or None"""
            if isinstance(t, ast.UnaryOp) and isinstance(t.op, ast.Not):
                r = marker_test(t.operand)
                return ({'T': 'F', 'F': 'T'}[r[0]], r[1]) if r else None
            if isinstance(t, ast.Compare) and len(t.ops) == 1 and is_name(t.left, z):
                op, r = t.ops[0], t.comparators[0]
                if isinstance(op, (ast.Is, ast.IsNot)) and is_none(r):
                    return ('T' if isinstance(op, ast.Is) else 'F', {'none'})
                if isinstance(op, (ast.Eq, ast.NotEq)) and is_name(r, end):
                    return ('T' if isinstance(op, ast.Eq) else 'F', {'custom'})
                return None
            if isinstance(t, ast.IfExp) and isinstance(t.test, ast.Compare) and len(t.test.ops) == 1 and is_name(t.test.left, end) and is_none(t.test.comparators[0]) and isinstance(t.test.ops[0], (ast.Is, ast.IsNot)):
                # `(z is None) if end is None else (z == end)`: the two forms selected by the configuration in one expression
                a, b = (t.body, t.orelse) if isinstance(t.test.ops[0], ast.Is) else (t.orelse, t.body)
                ra, rb = marker_test(a), marker_test(b)
                if ra and rb and ra[0] == rb[0] and ra[1] == {'none'} and rb[1] == {'custom'}:
                    return (ra[0], {'none', 'custom'})
            return None

        for n in cfg.nodes:
            if n.id in mine and n.kind == 'test':
                r = marker_test(n.ast)
                if r:
                    marker[n.id], mforms[n.id] = r
        others = {k.id for k in gets}
        stop_at = others | {cfg.exit_return, cfg.exit_raise}
        probs = []
        ident = [n for n in cfg.nodes if n.id in mine and n.kind == 'test' and isinstance(n.ast, ast.Compare) and is_name(n.ast.left, z) and isinstance(n.ast.ops[0], (ast.Is, ast.IsNot)) and is_name(n.ast.comparators[0], end)]
        if ident:
            probs.append(f'L{ident[0].lineno}: `{norm_text(ident[0].ast)}` compares the custom end marker by identity: an equal marker that is another object (e.g. after crossing a process queue) is treated as data and the iteration never ends')
        if not marker:
            probs.append(f'`{z}` is never compared with the end marker')
        # (1) the marker is never placed
        for tid, lab in marker.items():
            p = path_avoiding(cfg, [e for e in cfg.succ[tid] if e.kind == lab], place, avoid=others)
            if p is not None:
                probs.append(f'the end marker can be placed into a batch (via L{cfg.nodes[tid].lineno})')
        # both forms of the marker are tested: `is None` when no custom marker, `==` otherwise
        forms = {x for t in marker for x in mforms[t]}
        if forms != {'none', 'custom'}:
            probs.append(f'only the {sorted(forms)} form of the end marker is recognised after this get')
        # (2) a non-marker item is placed before the next get / exit
        p = path_avoiding(cfg, cfg.normal_succ(g.id), stop_at, avoid=place, edge_ok=lambda e: not (e.src in marker and e.kind == marker[e.src]))
        if p is not None:
            probs.append('an item that is not the end marker can be dropped (not placed in any batch)')
        # (3) at most one placement per item
        res = count_minmax(cfg, g.id, lambda n: 1 if n.id in place else 0, stop=lambda nid: nid in stop_at)
        if any(hi > 1 for (lo, hi) in res.values()):
            probs.append('an item can be placed twice')
        ck.paths_examined += len(res)
        ck.ob('C19-1', f, g.ast, not probs, '; '.join(sorted(set(probs))) if probs else f'`{z}`: end marker (both forms) never placed; any other item placed exactly once before the next get')
    # every batch is yielded exactly once
    creates = [n for n in cfg.nodes if isinstance(n.ast, ast.Assign) and isinstance(n.ast.value, ast.List) and len(n.ast.value.elts) == 1 and isinstance(n.ast.targets[0], ast.Name)]
    ck.need(creates, f'{f.key}: batch creation not found')
    b = creates[0].ast.targets[0].id
    isy = lambda n: 1 if (isinstance(n.ast, ast.Expr) and isinstance(n.ast.value, ast.Yield) and is_name(n.ast.value.value, b)) else 0
    res = count_minmax(cfg, creates[0].id, isy, stop=lambda nid: nid == creates[0].id or nid in (cfg.exit_return,), back='terminal')
    bad = []
    for term, (lo, hi) in res.items():
        if term[0] == 'node' and term[1] == cfg.exit_raise:
            continue
        if term[0] == 'back':
            # back edge of the outer loop: one batch per outer iteration
            if cfg.nodes[term[2]].id in creates[0].loops and (lo, hi) != (1, 1) and term[2] == creates[0].loops[0]:
                bad.append(f'a batch is yielded {lo}..{hi} times before the next one is started')
        elif (lo, hi) != (1, 1):
            bad.append(f'a batch is yielded {lo}..{hi} times before the iteration ends')
    ck.ob('C19-1', f, creates[0].ast, not bad, '; '.join(sorted(set(bad))) if bad else 'every batch that was started is yielded exactly once — when full, when the wait expires, or flushed by the end marker before returning')
