"""C02 -- server answers every request with its own result (structural clauses)."""

from __future__ import annotations

import ast

from mpsa.cfg import CFG, Node, calls_in, header_expr, walk_shallow
from mpsa.flow import count_minmax, definitely_assigned, fmt_path, path_avoiding, reaching_defs
from mpsa.loader import AnchorError, FuncInfo, dotted, norm_text
from mpsa.match import Scope, is_name, is_none, local_ctor, method_of, unwrap_await, walk_shallow_func
from mpsa.report import Checker

from . import server
from .common import SERVLET, WORKER, build_cfg, find_unpack, make_fallible, tuple_item
from .fifo import QUEUE_CTORS
from .fresh import _value_names, fresh_chain

# functions that contain service loops with (id, payload) puts
SERVICE_FUNCS = [
    (WORKER, 'Worker._start_single.get_input'),
    (WORKER, 'Worker._start_single'),
    (WORKER, 'Worker._start_batch'),
    (WORKER, 'Worker._build_input_batches'),
    (SERVLET, 'EnsembleServlet._enqueue'),
    (SERVLET, 'EnsembleServlet._dequeue'),
    (SERVLET, 'SwitchServlet._enqueue'),
]
SOURCES = ('self._get_input_batch',)


def run(ck: Checker):
    ck.rule('C02-1', 'id freshness: at every put of an (id, payload) message in a service loop, id and payload were obtained in the current iteration on every path (FRESH closure down to queue gets)', minimum=14)
    ck.rule('C02-2', 'side-queue pairing: exactly one id enqueued per input handed to Worker.stream, none on short-circuit paths; exactly one id dequeued per output; side queue is FIFO (COUNT)', minimum=6)
    ck.rule('C02-3', 'record-before-send: the ledger store dominates the put on the input queue (PRECEDE)', minimum=2)
    ck.rule('C02-4', 'non-recyclable ids: request ids come from a counter / uuid, never from builtin id() (ORIGIN)', minimum=2)
    ck.rule('C02-5', 'ensemble catalog: store dominates the member puts; lookup by this message\'s id; result slot = member index; one counter increment per stored slot, completion by counter == number of members; exactly one catalog pop before each emitted result; unknown id emits nothing; member queues built in one loop (PRECEDE+COUNT+AGREE)', minimum=6)
    ck.rule('C02-6', 'gather pairing: the future resolved is the one popped with this message\'s id, resolved with this message\'s payload (FRESH)', minimum=2)

    for name in server.SERVERS:
        s = server.discover(ck.repo, name)
        server.check_record_before_send(ck, 'C02-3', s)
        server.check_id_origin(ck, 'C02-4', s)
        server.check_gather_pairing(ck, 'C02-6', s)
    check_id_freshness(ck, 'C02-1')
    check_side_queues(ck, 'C02-2')
    check_ensemble(ck, 'C02-5')
    ck.rule('C02-7', 'routing threads stay alive: a compound servlet hands a value to a member stage or to the user\'s switch() only when it is proven not to be an exception value — switch() raising on one would end the routing thread and leave every later request unanswered (GUARD)', minimum=3)
    from .c04 import check_routing_sinks

    check_routing_sinks(ck, 'C02-7')
    # "every request gets exactly one answer" also needs the threads that carry the answers to survive and every
    # dequeued request to have exactly one destination
    from . import c09

    with ck.as_rule('C02-8', 'the answer path stays alive and loses nothing: the gather thread cannot be killed by a concurrently cancelled future or an unknown id (C07-1, C07-2), every message it pops is followed by one admission signal (C06-4), and the batching collector gives every dequeued request exactly one destination and hands every started batch over (C09-3, C09-7), and the worker queues keep their per-queue reader lock and their writer lock (C09-7: several workers write (id, value) messages to one pipe; without the writer lock the bytes of large messages interleave and the gather thread dies unpickling)', minimum=11):
        for name in server.SERVERS:
            s = server.discover(ck.repo, name)
            server.check_race_free_resolution(ck, 'C07-1', s)
            server.check_unknown_id_tolerated(ck, 'C07-2', s)
            server.check_slot_return(ck, 'C06-4', s)
        c09.check_one_destination(ck, 'C09-3')
        from .c04 import check_onboarding

        check_onboarding(ck, 'C04-11')  # the thread that feeds the first process stage survives an input that cannot be pickled
        from .c04 import check_containment

        check_containment(ck, 'C04-1')  # a failing preprocess / call becomes that request's answer; the service loops go on
        from .c04 import check_ensemble_slots

        check_ensemble_slots(ck, 'C04-2')  # a request that failed in every member is answered with EnsembleError, not with the list of its errors as a result
        from .c04 import check_worker_short_circuit

        check_worker_short_circuit(ck, 'C04-3')  # an upstream failure never becomes an element of somebody else's batch
        from .c04 import check_outcome_unpack
        from .c09 import BUF, check_deadline_shape
        from .common import WORKER

        check_outcome_unpack(ck, 'C04-10')  # ... and the worker loop is not ended by taking an exception outcome apart
        from .c04 import check_wrap_arguments

        for q_ in ('Worker._start_single', 'Worker._start_single.get_input', 'Worker._start_batch', 'Worker._build_input_batches'):
            check_wrap_arguments(ck, 'C04-2', ck.repo.func(WORKER, q_))  # ... nor by wrapping a wrapper
        # the batch consumer cannot be killed by an expired deadline (negative timeout) -- its requests would never be answered
        check_deadline_shape(ck, 'C09-4', ck.repo.func(WORKER, 'Worker._get_input_batch'), queue=BUF, wait_attr='self.batch_wait_time', size_attr='self.batch_size')
        c09.check_queue_locks(ck, 'C09-7')
        c09.check_batch_returned(ck, 'C09-7', ck.repo.func(WORKER, 'Worker._get_input_batch'))


# ----------------------------------------------------------------------
def message_puts(cfg: CFG):
    """(node, call, item) for every `Q.put(<2-tuple or name>)` inside a loop."""
    out = []
    for n in cfg.nodes:
        if not n.loops:
            continue
        a = header_expr(n)
        if a is None:
            continue
        for c in calls_in(a):
            r, me = method_of(c)
            if me in ('put', 'put_nowait') and r is not None and c.args:
                item = c.args[0]
                resolved = tuple_item(cfg, n, item)
                if resolved is not None:
                    out.append((n, c, resolved))
                elif isinstance(item, ast.Name):
                    out.append((n, c, item))
    return out


def check_id_freshness(ck: Checker, rid: str):
    total = 0
    for rel, qual in SERVICE_FUNCS:
        f = ck.repo.func(rel, qual)
        cfg = build_cfg(f, ck.repo, make_fallible(Scope(f)))
        ck.analysed_func(f, cfg)
        params = set(f.params())
        for n, call, item in message_puts(cfg):
            if isinstance(item, ast.Name):
                # forwarding a whole message (or the sentinel / a scalar id on a side queue)
                names = [item.id]
                what = f'`{item.id}`'
            else:
                names = sorted({nm for e in item.elts for nm in _value_names(e)})  # a component that is itself a `q.get()` is an origin
                what = f'`{norm_text(item)}`'
            probs = []
            for nm in names:
                probs += fresh_chain(cfg, n, nm, sources=SOURCES, params=params)
            # a message emitted once per element of an id list must be keyed by the loop variable itself
            if isinstance(item, ast.Tuple) and n.loops:
                hn = cfg.nodes[n.loops[-1]]
                if hn.kind == 'for' and isinstance(hn.ast.target, ast.Name) and isinstance(hn.ast.iter, ast.Name):
                    used = {x.id for x in walk_shallow(item) if isinstance(x, ast.Name)}
                    if hn.ast.target.id not in used and hn.ast.iter.id in used:
                        probs.append(f'inside `for {hn.ast.target.id} in {hn.ast.iter.id}` the message is keyed by `{norm_text(item.elts[0])}`, not by the loop variable: every element of the list gets the same id')
            total += 1
            probs = sorted(set(probs))
            ck.ob(rid, f, call, not probs, '; '.join(probs) if probs else f'{what} put on `{dotted(call.func.value)}`: every component was obtained in the current iteration on every path')
    ck.need(total >= 14, f'only {total} message puts found in the service loops')


# ----------------------------------------------------------------------
def check_side_queues(ck: Checker, rid: str):
    mod = ck.repo.module(WORKER)
    for outer_q, inner_q in (('Worker._start_single', 'Worker._start_single.get_input'), ('Worker._start_batch', 'Worker._start_batch.get_input')):
        outer, inner = mod.func(outer_q), mod.func(inner_q)
        osc = Scope(outer)
        # the side queue: a local of `outer` constructed as a queue and passed to get_input(...)
        side = None
        call_inner = None
        for n in walk_shallow_func(outer.node):
            if isinstance(n, ast.Call) and isinstance(n.func, ast.Name) and n.func.id == inner.name:
                call_inner = n
        ck.need(call_inner is not None, f'{outer.key}: `{inner.name}(…)` is not called')
        iparams = inner.params()
        binding = {p: dotted(a) for p, a in zip(iparams, call_inner.args)}
        cands = []
        for p, a in binding.items():
            ct = local_ctor(outer, a) if a else None
            if ct and QUEUE_CTORS.get(ct[0]) or (ct and QUEUE_CTORS.get(ct[0].split('.')[-1])):
                cands.append((p, a, ct))
        ck.need(len(cands) == 1, f'{outer.key}: side queue passed to `{inner.name}` not identified ({[c[:2] for c in cands]})')
        ip, oname, ct = cands[0]
        kind = QUEUE_CTORS.get(ct[0]) or QUEUE_CTORS.get(ct[0].split('.')[-1])
        ck.ob(rid, outer, ct[1], kind == 'fifo', f'side queue `{oname}` is a `{ct[0]}` ({kind})')
        # producer side: per iteration  #side.put - #yield == 0 on every path, at most one each
        icfg = build_cfg(inner, ck.repo, make_fallible(Scope(inner)))
        ck.analysed_func(inner, icfg)
        loops = [n for n in icfg.nodes if n.kind == 'test' and n.extra.get('loop')]
        ck.need(loops, f'{inner.key}: no service loop')
        loop = loops[0]

        def is_side_put(n: Node):
            a = header_expr(n)
            return sum(1 for c in calls_in(a) if method_of(c)[1] == 'put' and dotted(method_of(c)[0]) == ip) if a is not None else 0

        def is_yield(n: Node):
            return 1 if n.extra.get('yield') else 0

        stop = lambda nid: loop.id not in icfg.nodes[nid].loops and nid != loop.id
        diff = count_minmax(icfg, loop.id, lambda n: is_side_put(n) - is_yield(n), stop=stop, count_on_exc=lambda n: bool(n.extra.get('yield')), start_edges=lambda e: e.kind == 'T')
        puts = count_minmax(icfg, loop.id, is_side_put, stop=stop, start_edges=lambda e: e.kind == 'T')
        bad = []
        for term, (lo, hi) in diff.items():
            if term[0] in ('back',) and (lo, hi) != (0, 0):
                bad.append(f'a path through one iteration enqueues {lo}..{hi} more ids than it yields inputs (via L{icfg.nodes[term[1]].lineno})')
            if term[0] == 'node' and icfg.nodes[term[1]].kind != 'exit_raise' and (lo, hi) != (0, 0):
                bad.append(f'a path leaving the loop has enqueued {lo}..{hi} more ids than inputs yielded')
        for term, (lo, hi) in puts.items():
            if hi > 1:
                bad.append(f'up to {hi} ids enqueued in one iteration')
        ck.paths_examined += len(diff)
        ck.ob(rid, inner, loop.ast, not bad, '; '.join(sorted(set(bad))) if bad else f'every path of an iteration that yields an input enqueues exactly one id on `{ip}`; short-circuit / sentinel paths enqueue none')
        # consumer side: exactly one get on the side queue per output
        ocfg = build_cfg(outer, ck.repo, make_fallible(osc))
        ck.analysed_func(outer, ocfg)
        floops = [n for n in ocfg.nodes if n.kind == 'for' and n.pending is None and any(isinstance(c.func, ast.Name) and c.func.id == inner.name for c in calls_in(n.ast.iter))]
        ck.need(floops, f'{outer.key}: no loop over self.stream({inner.name}(…))')
        fl = floops[0]

        def is_side_get(n: Node):
            a = header_expr(n)
            if a is None or n.id == fl.id:
                return 0
            return sum(1 for c in calls_in(a) if method_of(c)[1] in ('get', 'get_nowait') and osc.canon(method_of(c)[0]) == oname)

        res = count_minmax(ocfg, fl.id, is_side_get, stop=lambda nid: fl.id not in ocfg.nodes[nid].loops and nid != fl.id, start_edges=lambda e: e.kind == 'iter')
        bad = [f'an iteration dequeues {lo}..{hi} ids (via L{ocfg.nodes[t[1]].lineno})' for t, (lo, hi) in res.items() if t[0] == 'back' and (lo, hi) != (1, 1)]
        ck.ob(rid, outer, fl.ast.iter, not bad, '; '.join(bad) if bad else f'every output of Worker.stream dequeues exactly one entry of `{oname}`')


# ----------------------------------------------------------------------
def check_ensemble(ck: Checker, rid: str):
    mod = ck.repo.module(SERVLET)
    cls = mod.cls('EnsembleServlet')
    enq, deq, start = cls.method('_enqueue'), cls.method('_dequeue'), cls.method('start')
    # --- _enqueue: catalog store dominates the first member put
    sc = Scope(enq)
    cfg = build_cfg(enq, ck.repo, None)
    ck.analysed_func(enq, cfg)
    CAT = 'self._uid_to_results'
    stores = {n.id for n in cfg.nodes if isinstance(n.ast, ast.Assign) and any(isinstance(t, ast.Subscript) and sc.canon(t.value) == CAT for t in n.ast.targets)}
    ck.need(stores, f'{enq.key}: no catalog store')
    member_puts = []
    for n in cfg.nodes:
        a = header_expr(n)
        if a is None or len(n.loops) < 2:
            continue
        for c in calls_in(a):
            r, me = method_of(c)
            if me == 'put' and c.args and isinstance(c.args[0], ast.Tuple):
                member_puts.append(n)
    ck.need(member_puts, f'{enq.key}: no member puts')
    for pn in member_puts:
        p = path_avoiding(cfg, [cfg.entry], {pn.id}, avoid=stores)
        # per iteration: must pass the store in *this* iteration
        outer_loop = pn.loops[0]
        p2 = path_avoiding(cfg, [e for e in cfg.succ[outer_loop] if e.kind == 'T'], {pn.id}, avoid=stores, edge_ok=lambda e: not ((e.src, e.dst) in cfg.back_edges and e.dst == outer_loop))
        ok = p is None and p2 is None
        ck.ob(rid, enq, pn.ast, ok, 'the catalog entry is stored before the request is sent to any member' if ok else 'a member can receive (and answer) the request before its catalog entry exists: the answer is dropped as unknown', path=fmt_path(cfg, p2 or p) if not ok else '')
    # the store key is this message's uid and the members are all of `qins`
    # --- _dequeue
    dsc = Scope(deq)
    dcfg = build_cfg(deq, ck.repo, None)
    ck.analysed_func(deq, dcfg)
    # enumerate loop over member output queues
    enum = None
    for n in dcfg.nodes:
        if n.kind == 'for' and isinstance(n.ast.iter, ast.Call) and dotted(n.ast.iter.func) == 'enumerate' and isinstance(n.ast.target, ast.Tuple):
            enum = n
    ck.need(enum is not None, f'{deq.key}: no `for idx, q in enumerate(<member outputs>)` loop')
    idx, qv = [e.id for e in enum.ast.target.elts]
    it = dsc.canon(enum.ast.iter.args[0])
    probs = []
    if it != 'self._qouts':
        probs.append(f'member loop enumerates `{it}`, not the member output queues')
    # message get from q, unpack
    getn = unp = None
    for n in dcfg.nodes:
        if enum.id in n.loops and isinstance(n.ast, ast.Assign):
            v = n.ast.value
            if isinstance(v, ast.Call) and method_of(v)[1] == 'get' and is_name(method_of(v)[0], qv):
                getn = n
    ck.need(getn is not None, f'{deq.key}: no get on the member queue `{qv}`')
    vname = getn.ast.targets[0].id
    unp = find_unpack(dcfg, enum.id, vname)
    ck.need(unp is not None and len(unp.names) == 2 and all(unp.names), f'{deq.key}: member message not unpacked')
    uid, y = unp.names
    # lookup
    look = None
    for n in dcfg.nodes:
        if enum.id in n.loops and isinstance(n.ast, ast.Assign):
            v = n.ast.value
            if isinstance(v, ast.Call) and method_of(v)[1] in ('get',) and dsc.canon(method_of(v)[0]) == CAT:
                look = n
            if isinstance(v, ast.Subscript) and dsc.canon(v.value) == CAT:
                look = n
    ck.need(look is not None, f'{deq.key}: no catalog lookup')
    lv = look.ast.value
    keyexpr = lv.args[0] if isinstance(lv, ast.Call) else lv.slice
    if not is_name(keyexpr, uid):
        probs.append(f'catalog looked up with `{norm_text(keyexpr)}`, not this message\'s id `{uid}`')
    zname = look.ast.targets[0].id
    # slot store  z['y'][idx] = y
    slot = None
    for n in dcfg.nodes:
        if enum.id in n.loops and isinstance(n.ast, ast.Assign) and isinstance(n.ast.targets[0], ast.Subscript):
            t = n.ast.targets[0]
            if isinstance(t.value, ast.Subscript) and is_name(t.value.value, zname):
                slot = n
                if not is_name(t.slice, idx):
                    probs.append(f'result stored in slot `{norm_text(t.slice)}`, not the member index `{idx}` of the queue it came from')
                if not (isinstance(n.ast.value, ast.Name) and n.ast.value.id == y):
                    probs.append(f'slot receives `{norm_text(n.ast.value)}`, not this message\'s payload `{y}`')
    if slot is None:
        probs.append('no `entry["y"][idx] = y` store found')
    ck.ob(rid, deq, enum.ast.iter, not probs, '; '.join(probs) if probs else f'lookup by `{uid}`, slot `{idx}` = index of the member queue the message came from, payload `{y}`')
    # the answer counter advances by exactly one per stored slot and decides completion against the member count
    # (slots start as None and None is a legal member result, so "answered" must never be inferred from slot contents)
    probs = []
    if slot is not None:
        def is_inc(n: Node):
            a = n.ast
            if isinstance(a, ast.AugAssign) and isinstance(a.op, ast.Add) and isinstance(a.value, ast.Constant) and a.value.value == 1 and isinstance(a.target, ast.Subscript) and is_name(a.target.value, zname):
                return 1
            # `z['n'] = z['n'] + 1`: the same increment written out
            if isinstance(a, ast.Assign) and len(a.targets) == 1 and isinstance(a.targets[0], ast.Subscript) and is_name(a.targets[0].value, zname) and isinstance(a.value, ast.BinOp) and isinstance(a.value.op, ast.Add):
                ops = [a.value.left, a.value.right]
                one = [o for o in ops if isinstance(o, ast.Constant) and o.value == 1 and not isinstance(o.value, bool)]
                same = [o for o in ops if norm_text(o) == norm_text(a.targets[0])]
                if len(one) == 1 and len(same) == 1:
                    return 1
            return 0

        other = [n for n in dcfg.nodes if isinstance(n.ast, (ast.Assign, ast.AugAssign)) and not is_inc(n) and any(isinstance(t, ast.Subscript) and is_name(t.value, zname) and isinstance(t.slice, ast.Constant) and t.slice.value == 'n' for t in (n.ast.targets if isinstance(n.ast, ast.Assign) else [n.ast.target]))]
        for n in other:
            probs.append(f'the answer counter is set by `{norm_text(n.ast)[:60]}` instead of being advanced by one per member answer: counting from slot contents confuses "no answer yet" (None) with a member that answered None — such a request is never completed')
        res = count_minmax(dcfg, slot.id, is_inc, stop=lambda nid: nid == getn.id or nid == enum.id)
        for term, (lo, hi) in res.items():
            if term[0] in ('node', 'back') and (lo, hi) != (1, 1) and not (term[0] == 'node' and dcfg.nodes[term[1]].kind == 'exit_raise'):
                probs.append(f'after a slot is stored the answer counter advances {lo}..{hi} times before the next message')
        comp = [n for n in dcfg.nodes if n.kind == 'test' and isinstance(n.ast, ast.Compare) and isinstance(n.ast.left, ast.Subscript) and is_name(n.ast.left.value, zname) and isinstance(n.ast.left.slice, ast.Constant) and n.ast.left.slice.value == 'n']
        if not comp:
            probs.append('completion is not decided by the answer counter')
        for c_ in comp:
            r = c_.ast.comparators[0]
            rd = dsc.canon(r)
            nn_ok = False
            for n in walk_shallow_func(deq.node):
                if isinstance(n, ast.Assign) and isinstance(n.targets[0], ast.Name) and n.targets[0].id == rd and isinstance(n.value, ast.Call) and dotted(n.value.func) == 'len' and dsc.canon(n.value.args[0]) == 'self._qouts':
                    nn_ok = True
            # with one increment per answer (decided above) and the entry removed at completion, `>=` is the same test
            if not (isinstance(c_.ast.ops[0], (ast.Eq, ast.GtE)) and nn_ok):
                probs.append(f'completion test `{norm_text(c_.ast)}` does not compare the counter for equality with the number of members')
        ck.ob(rid, deq, slot.ast, not probs, '; '.join(sorted(set(probs))) if probs else 'one counter increment per stored slot on every path; a request completes when the counter equals the number of members')
    # emits: qout.put((uid, ...)) must be preceded by exactly one catalog.pop(uid) in this message's processing
    qout = 'self._qout'
    emits = []
    for n in dcfg.nodes:
        if enum.id not in n.loops:
            continue
        a = header_expr(n)
        if a is None:
            continue
        for c in calls_in(a):
            r, me = method_of(c)
            if me == 'put' and dsc.canon(r) == qout and c.args and isinstance(c.args[0], ast.Tuple):
                emits.append((n, c))
    ck.need(len(emits) >= 2, f'{deq.key}: fewer than 2 result emits')

    def is_pop(n: Node):
        a = header_expr(n)
        if a is None:
            return 0
        return sum(1 for c in calls_in(a) if method_of(c)[1] == 'pop' and dsc.canon(method_of(c)[0]) == CAT and c.args and is_name(c.args[0], uid))

    for en, ec in emits:
        res = count_minmax(dcfg, getn.id, is_pop, stop=lambda nid, en=en: nid == en.id or nid == getn.id)
        t = res.get(('node', en.id))
        ok = t == (1, 1) and is_name(ec.args[0].elts[0], uid)
        ck.ob(rid, deq, ec, ok, 'exactly one `catalog.pop(uid)` lies on every path from the dequeue to this emit, which carries this message\'s id' if ok else f'between the dequeue and this emit the catalog entry is popped {t} times (must be exactly once), or the emit does not carry `{uid}`')
    # once a member answer is recorded, the request is either emitted or its completion is tested before the next message:
    # an answer that takes a path around the completion test (e.g. a failing member under fail_fast=False when the test
    # hangs off another condition) leaves a complete request in the catalog for ever -- its caller times out and its slot
    # in the server is never returned
    if slot is not None:
        comp_ids = {n.id for n in dcfg.nodes if n.kind == 'test' and isinstance(n.ast, ast.Compare) and isinstance(n.ast.left, ast.Subscript) and is_name(n.ast.left.value, zname) and isinstance(n.ast.left.slice, ast.Constant) and n.ast.left.slice.value == 'n'}
        pth = path_avoiding(dcfg, dcfg.normal_succ(slot.id), {getn.id, enum.id}, avoid=comp_ids | {n.id for n, _ in emits})
        ck.ob(rid, deq, slot.ast, pth is None, 'after a member answer is recorded the request is emitted or its completion test is evaluated on every path' if pth is None else 'a recorded member answer can return to the next message without an emit and without the completion test: a request whose last answer takes that path is complete but never emitted (caller times out, server slot never returned)', path=fmt_path(dcfg, [slot.id] + pth) if pth else '')
    # unknown id emits nothing: from the lookup's None branch no emit is reachable before the next get
    none_tests = [n for n in dcfg.nodes if n.kind == 'test' and enum.id in n.loops and isinstance(n.ast, ast.Compare) and is_name(n.ast.left, zname) and isinstance(n.ast.ops[0], ast.Is) and is_none(n.ast.comparators[0])]
    if isinstance(lv, ast.Call):
        ck.need(none_tests, f'{deq.key}: result of catalog.get is not tested for None')
        nt = none_tests[0]
        p = path_avoiding(dcfg, [e for e in dcfg.succ[nt.id] if e.kind == 'T'], {n.id for n, _ in emits} | ({slot.id} if slot else set()), avoid={getn.id, enum.id})
        ck.ob(rid, deq, nt.ast, p is None, 'a late result for an already answered request is dropped without emitting anything' if p is None else 'the missing-entry path reaches an emit or a slot store', path=fmt_path(dcfg, p) if p else '')
    # --- start: _qins and _qouts appended in the same loop iteration, one each
    scfg = build_cfg(start, ck.repo, None)
    fl = [n for n in scfg.nodes if n.kind == 'for' and dotted(n.ast.iter) == 'self._servlets']
    ck.need(fl, f'{start.key}: no loop over the member servlets')
    fl = fl[0]

    def app(attr):
        def w(n: Node):
            a = header_expr(n)
            if a is None or n.id == fl.id:
                return 0
            return sum(1 for c in calls_in(a) if method_of(c)[1] == 'append' and dotted(method_of(c)[0]) == attr)
        return w

    bad = []
    for attr in ('self._qins', 'self._qouts'):
        res = count_minmax(scfg, fl.id, app(attr), stop=lambda nid: fl.id not in scfg.nodes[nid].loops and nid != fl.id, start_edges=lambda e: e.kind == 'iter')
        for t, (lo, hi) in res.items():
            if t[0] == 'back' and (lo, hi) != (1, 1):
                bad.append(f'{attr} receives {lo}..{hi} queues per member')
    ck.ob(rid, start, fl.ast.iter, not bad, '; '.join(bad) if bad else 'each member contributes exactly one input and one output queue, in member order')
