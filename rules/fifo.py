"""The order-preserving fan-out pattern: a feeder walks the input, obtains a future per
element and hands `(x, future)` through a bounded FIFO; the consumer dequeues in the same
order and waits on each future.  Shared by C01 (sync), C16 (async), C05, C08, C18.

Everything is located by role: the feeder is the function spawned (Thread / task /
executor.submit) from the outer generator; the hand-off queue is the queue object the
feeder puts on and the outer function gets from.
"""

from __future__ import annotations

import ast
from dataclasses import dataclass

from mpsa.cfg import CFG, Node, calls_in, header_expr, walk_shallow
from mpsa.flow import (
    INF,
    assigned_names,
    count_minmax,
    definitely_assigned,
    fmt_path,
    path_avoiding,
    reachable,
    reaching_defs,
)
from mpsa.loader import AnchorError, FuncInfo, Repo, dotted, norm_text
from mpsa.match import (
    Scope,
    Spawn,
    binding_names,
    call_dotted,
    is_name,
    is_none,
    kwarg,
    local_ctor,
    method_of,
    spawn_sites,
    unwrap_await,
    walk_shallow_func,
)
from mpsa.report import Checker

from .common import USER_RAISES, build_cfg, find_unpack, make_fallible

QUEUE_CTORS = {
    'SingleLane': 'fifo',
    'queue.Queue': 'fifo',
    'Queue': 'fifo',
    'queue.SimpleQueue': 'fifo',
    'SimpleQueue': 'fifo',
    'asyncio.Queue': 'fifo',
    'queue.LifoQueue': 'lifo',
    'LifoQueue': 'lifo',
    'asyncio.LifoQueue': 'lifo',
    'queue.PriorityQueue': 'priority',
    'PriorityQueue': 'priority',
    'asyncio.PriorityQueue': 'priority',
    'deque': 'deque',
    'collections.deque': 'deque',
}

# helper functions that put on a queue on behalf of the caller: name -> (queue arg index, item arg index)
PUT_HELPERS = {'put_in_queue': (0, 1)}


@dataclass
class Fifo:
    outer: FuncInfo
    feeder: FuncInfo
    spawn: Spawn
    oscope: Scope
    fscope: Scope
    q: str  # canonical name of the hand-off queue (outer function's name)
    q_ctor: tuple  # (dotted ctor, call)
    stop: str | None  # canonical name of the stop flag
    func_param: str  # feeder-side name of the worker function
    pre_param: str | None
    in_param: str  # feeder-side name of the input stream
    fcfg: CFG = None
    ocfg: CFG = None
    elem_index: int = 0  # position of the element in the worker-function call

    @property
    def label(self):
        return self.outer.qualname


def put_sites(node_ast, scope: Scope, q: str):
    """(call, item expr) for every put on queue `q` inside node_ast (direct or via a tabled helper)."""
    out = []
    for c in calls_in(node_ast):
        recv, meth = method_of(c)
        if meth in ('put', 'put_nowait') and recv is not None and scope.canon(recv) == q and c.args:
            out.append((c, c.args[0]))
        else:
            d = dotted(c.func)
            if d in PUT_HELPERS:
                qi, ii = PUT_HELPERS[d]
                if len(c.args) > max(qi, ii) and scope.canon(c.args[qi]) == q:
                    out.append((c, c.args[ii]))
    return out


def get_sites(node_ast, scope: Scope, q: str):
    out = []
    for c in calls_in(node_ast):
        recv, meth = method_of(c)
        if meth in ('get', 'get_nowait') and recv is not None and scope.canon(recv) == q:
            out.append(c)
    return out


def discover(repo: Repo, outer: FuncInfo, *, func_name='func', pre_name='preprocessor', in_name='instream') -> Fifo:
    """Locate feeder, hand-off queue and stop flag of a fifo-style generator."""
    oscope = Scope(outer)
    cands = []
    for sp in spawn_sites(outer):
        if sp.target is None or sp.target.parent is not outer:
            continue
        cands.append(sp)
    if not cands:
        # the feeder moved out of the generator: a module-level function of the same module (closure-free by construction)
        for sp in spawn_sites(outer):
            if sp.target is not None and sp.target.parent is None and sp.target.module is outer.module and sp.kind in ('thread', 'task'):
                cands.append(sp)
    if not cands:
        raise AnchorError(f'{outer.key}: no feeder spawned from a nested function')
    # the feeder is the spawned nested function that puts on a queue the outer function gets from
    for sp in cands:
        feeder = sp.target
        b = binding_names(sp, oscope)
        fscope = Scope(feeder, b)
        # queues the outer function gets from
        outer_gets = set()
        for n in walk_shallow_func(outer.node):
            if isinstance(n, ast.Call):
                recv, meth = method_of(n)
                if meth in ('get', 'get_nowait') and recv is not None:
                    c = oscope.canon(recv)
                    if c:
                        outer_gets.add(c)
        for n in walk_shallow_func(feeder.node):
            if isinstance(n, ast.Call):
                for q in outer_gets:
                    if put_sites(n, fscope, q):
                        ctor = local_ctor(outer, q)
                        if ctor is None:
                            continue
                        # stop flag: an Event-like object the feeder tests with is_set()
                        stop = None
                        for m in walk_shallow_func(feeder.node):
                            if isinstance(m, ast.Call):
                                r, me = method_of(m)
                                if me == 'is_set' and r is not None:
                                    stop = fscope.canon(r)
                                    break
                        # feeder-side names of func / preprocessor / instream: by binding to the outer parameters
                        inv = {}
                        for p, cn in b.items():
                            inv.setdefault(cn, p)
                        fp = inv.get(func_name)
                        ip = inv.get(in_name)
                        pp = inv.get(pre_name)
                        if fp is None or ip is None:
                            # closure style: the feeder uses the outer names directly
                            fp = fp or func_name
                            ip = ip or in_name
                            pp = pp or pre_name
                        return Fifo(outer, feeder, sp, oscope, fscope, q, ctor, stop, fp, pp, ip)
    raise AnchorError(f'{outer.key}: no hand-off queue between a spawned feeder and the generator found')


def feeder_fallible(m: Fifo, extra=None):
    return make_fallible(
        m.fscope,
        iters={m.in_param, m.fscope.canon(m.in_param)},
        calls={m.func_param, m.pre_param} - {None},
        extra=extra,
    )


def input_loop(m: Fifo, cfg: CFG) -> Node:
    for n in cfg.nodes:
        if n.kind == 'for' and dotted(n.ast.iter) == m.in_param:
            return n
    raise AnchorError(f'{m.feeder.key}: no loop over the input stream `{m.in_param}`')


def loop_var(n: Node) -> str:
    t = n.ast.target
    if isinstance(t, ast.Name):
        return t.id
    raise AnchorError(f'input loop at L{n.lineno} does not bind a simple name')


# ----------------------------------------------------------------------
def check_pair_freshness(ck: Checker, rid: str, m: Fifo):
    """FRESH + ORIGIN at every tuple put inside the input loop of the feeder."""
    cfg = m.fcfg or build_cfg(m.feeder, ck.repo, feeder_fallible(m))
    m.fcfg = cfg
    ck.analysed_func(m.feeder, cfg)
    loop = input_loop(m, cfg)
    x = loop_var(loop)
    da = definitely_assigned(cfg, start=loop.id, cut_back_edges_to=loop.id)
    found = 0
    for n in cfg.nodes:
        if loop.id not in n.loops:
            continue
        a = header_expr(n)
        if a is None:
            continue
        for call, item in put_sites(a, m.fscope, m.q):
            if not isinstance(item, ast.Tuple) or len(item.elts) < 2:
                continue
            found += 1
            first, fut = item.elts[0], item.elts[1]
            if not is_name(first, x):
                ck.ob(rid, m.feeder, n.ast, False, f'hand-off tuple does not start with the loop variable `{x}`: the input paired with the future is `{norm_text(first)}`')
                continue
            if not isinstance(fut, ast.Name):
                ck.ob(rid, m.feeder, n.ast, False, f'future component `{norm_text(fut)}` of the hand-off tuple is not a local name')
                continue
            fresh = fut.id in da.get(n.id, frozenset())
            if not fresh:
                # witness: a path from the loop head to the put along which fut is not assigned
                assigners = {k.id for k in cfg.nodes if fut.id in assigned_names(k)}
                # an assignment only happens when the assigning node is left on a normal edge
                p = path_avoiding(
                    cfg,
                    [e for e in cfg.succ[loop.id] if e.kind == 'iter'],
                    {n.id},
                    edge_ok=lambda e, _a=assigners: not ((e.src, e.dst) in cfg.back_edges and e.dst == loop.id)
                    and not (e.src in _a and e.kind != 'exc'),
                )
                ck.ob(
                    rid,
                    m.feeder,
                    n.ast,
                    False,
                    f'`{fut.id}` enqueued with `{x}` is not assigned on every path of this iteration: a stale value from an earlier iteration (or an unbound name) can be paired with the element',
                    path=fmt_path(cfg, [loop.id] + (p or [])),
                )
                continue
            # ORIGIN: every reaching definition is func(x | pre(x)) or a fresh pre-failed future
            rd = reaching_defs(cfg, fut.id, start=loop.id, cut_back_edges_to=loop.id).get(n.id, frozenset())
            bad = None
            for d in rd:
                why = _origin_ok(cfg, cfg.nodes[d], fut.id, x, m, loop, n)
                if why:
                    bad = (cfg.nodes[d], why)
                    break
            if bad:
                ck.ob(rid, m.feeder, n.ast, False, f'`{fut.id}` may come from L{bad[0].lineno} `{norm_text(bad[0].ast)[:60]}`: {bad[1]}')
            else:
                ck.ob(rid, m.feeder, n.ast, True, f'`({x}, {fut.id})`: `{fut.id}` assigned in this iteration on every path; {len(rd)} reaching definition(s), each `{m.func_param}({x}|{m.pre_param}({x}))` or a fresh pre-failed future')
    ck.need(found >= 1, f'{m.feeder.key}: no tuple hand-off put inside the input loop')


def _origin_ok(cfg: CFG, d: Node, fut: str, x: str, m: Fifo, loop: Node, sink: Node):
    st = d.ast
    if not isinstance(st, ast.Assign) or len(st.targets) != 1 or not is_name(st.targets[0], fut):
        return 'not a plain assignment'
    v = unwrap_await(st.value)
    if isinstance(v, ast.Name):
        # `coro = func(x); t = await coro`: the awaited coroutine bound to a local first
        from .common import resolve_local

        v = unwrap_await(resolve_local(cfg, d, v))
    if not isinstance(v, ast.Call):
        return 'not the result of a call'
    fn = dotted(v.func) or ''
    if fn == m.func_param:
        if len(v.args) <= m.elem_index:
            return 'worker function called without the element'
        a0 = v.args[m.elem_index]
        if is_name(a0, x):
            return None
        if isinstance(a0, ast.Name) and m.pre_param:
            # must be preprocessor(x) assigned in this iteration
            rd = reaching_defs(cfg, a0.id, start=loop.id, cut_back_edges_to=loop.id).get(d.id, frozenset())
            if not rd:
                return f'argument `{a0.id}` is not assigned in this iteration'
            for k in rd:
                ks = cfg.nodes[k].ast
                kv = unwrap_await(getattr(ks, 'value', None)) if isinstance(ks, ast.Assign) else None
                if not (isinstance(kv, ast.Call) and dotted(kv.func) == m.pre_param and kv.args and is_name(kv.args[0], x)):
                    return f'argument `{a0.id}` is not `{m.pre_param}({x})`'
            return None
        if isinstance(a0, ast.Call) and dotted(a0.func) == m.pre_param and a0.args and is_name(a0.args[0], x):
            return None
        return f'worker function applied to `{norm_text(a0)}`, not to the element'
    if fn.split('.')[-1] in ('Future', 'create_future'):
        # fresh future: every path from here to the put must set an exception bound by an `except`
        setters = set()
        for k in cfg.nodes:
            a = header_expr(k)
            if a is None:
                continue
            for c in calls_in(a):
                r, me = method_of(c)
                if me == 'set_exception' and is_name(r, fut) and c.args and isinstance(c.args[0], ast.Name):
                    setters.add(k.id)
        p = path_avoiding(cfg, cfg.normal_succ(d.id), {sink.id}, avoid=setters)
        if p is not None:
            return 'a freshly made future reaches the put without `set_exception(<caught exception>)`'
        return None
    return f'value comes from `{fn}(…)`, neither the worker function nor a fresh failed future'


# ----------------------------------------------------------------------
def check_one_handoff(ck: Checker, rid: str, m: Fifo):
    """COUNT: exactly one hand-off put per completed iteration; none on paths that leave the loop."""
    cfg = m.fcfg or build_cfg(m.feeder, ck.repo, feeder_fallible(m))
    m.fcfg = cfg
    loop = input_loop(m, cfg)

    def weight(n: Node):
        a = header_expr(n)
        if a is None or n.id == loop.id:
            return 0
        return len(put_sites(a, m.fscope, m.q))

    res = count_minmax(
        cfg,
        loop.id,
        weight,
        stop=lambda nid: loop.id not in cfg.nodes[nid].loops and nid != loop.id,
        start_edges=lambda e: e.kind == 'iter',
    )
    bad = []
    n_back = 0
    for term, (lo, hi) in res.items():
        if term[0] == 'back':
            n_back += 1
            if (lo, hi) != (1, 1):
                bad.append(f'an iteration completes with between {lo} and {hi} hand-off puts (via L{cfg.nodes[term[1]].lineno})')
        elif term[0] == 'node':
            if hi != 0:
                bad.append(f'a path leaving the loop towards L{cfg.nodes[term[1]].lineno} has already put {hi} item(s) for the element')
        else:
            bad.append('irreducible cycle in the loop body')
    ck.paths_examined += len(res)
    ck.ob(
        rid,
        m.feeder,
        loop.ast.iter,
        not bad and n_back >= 1,
        '; '.join(bad) if bad else f'every completed iteration performs exactly one put on `{m.q}`; {len(res) - n_back} leaving path(s) perform none',
    )


# ----------------------------------------------------------------------
def consumer_fallible(m: Fifo, futs: set[str]):
    def extra(node, a):
        R = set()
        for c in calls_in(a):
            r, me = method_of(c)
            if me == 'result' and isinstance(r, ast.Name) and r.id in futs:
                R |= {'Exception'}
            if me in ('get', 'get_nowait') and r is not None and m.oscope.canon(r) == m.q and (me == 'get_nowait' or kwarg(c, 'timeout') is not None or kwarg(c, 'block') is not None or c.args):
                R |= {'Empty'}
        # `await t` of the dequeued awaitable
        for n in walk_shallow(a):
            if isinstance(n, ast.Await) and isinstance(n.value, ast.Name) and n.value.id in futs:
                R |= {'Exception', 'CancelledError'}
        return R

    return make_fallible(m.oscope, iters=set(), calls=set(), extra=extra)


def consumer_loop(m: Fifo, cfg: CFG):
    """The `while` loop of the outer generator that dequeues and yields (not inside a cleanup copy)."""
    for n in cfg.nodes:
        if n.kind == 'test' and n.extra.get('loop') and n.pending is None:
            body = [k for k in cfg.nodes if n.id in k.loops and k.pending is None]
            has_get = any(get_sites(header_expr(k), m.oscope, m.q) for k in body if header_expr(k) is not None)
            has_yield = any(k.extra.get('yield') for k in body)
            if has_get and has_yield:
                return n
    raise AnchorError(f'{m.outer.key}: no consumer loop (get on `{m.q}` + yield) found')


def check_consumer_pairing(ck: Checker, rid: str, m: Fifo, producer_tuple_len=2):
    # first pass without fallibility to find names
    cfg0 = build_cfg(m.outer, ck.repo, None)
    loop0 = consumer_loop(m, cfg0)
    # the statement that unpacks the dequeued item
    zname = None
    unpack = None
    for n in cfg0.nodes:
        if loop0.id in n.loops and n.pending is None and isinstance(n.ast, ast.Assign):
            v = unwrap_await(n.ast.value)
            if isinstance(v, ast.Call) and get_sites(v, m.oscope, m.q) and isinstance(n.ast.targets[0], ast.Name):
                zname = n.ast.targets[0].id
    unpack = find_unpack(cfg0, loop0.id, zname, pending_none=True)
    ck.need(zname and unpack is not None, f'{m.outer.key}: consumer does not unpack the dequeued item')
    names = unpack.names
    if len(names) < 2 or names[0] is None or names[1] is None:
        ck.ob(rid, m.outer, unpack.ast, False, 'consumer unpack is not `(x, future, …)`')
        return
    xn, fn = names[0], names[1]
    cfg = build_cfg(m.outer, ck.repo, consumer_fallible(m, {fn}))
    m.ocfg = cfg
    ck.analysed_func(m.outer, cfg)
    loop = consumer_loop(m, cfg)
    # (a) tuple order agreement with the producer: producer puts (loopvar, future, ...)
    ok_order = len(names) == producer_tuple_len
    ck.ob(rid, m.outer, unpack.ast, ok_order, f'consumer unpacks {len(names)} components `{names}`; producer enqueues {producer_tuple_len} with the input first and the future second')
    # (b) result comes from that very future, or is the exception caught from that very call
    da = definitely_assigned(cfg, start=loop.id, cut_back_edges_to=loop.id)
    ynodes = [n for n in cfg.nodes if loop.id in n.loops and n.pending is None and n.extra.get('yield')]
    ck.need(ynodes, f'{m.outer.key}: no yield in the consumer loop')
    for yn in ynodes:
        yv = None
        for k in walk_shallow(yn.ast):
            if isinstance(k, ast.Yield):
                yv = k.value
        if yv is None:
            ck.ob(rid, m.outer, yn.ast, False, 'bare yield in the consumer loop')
            continue
        if isinstance(yv, ast.Tuple):
            elts = yv.elts
            if not (len(elts) == 2 and is_name(elts[0], xn) and isinstance(elts[1], ast.Name)):
                ck.ob(rid, m.outer, yn.ast, False, f'yielded tuple is not `({xn}, <result>)` in that order')
                continue
            yname = elts[1].id
        elif isinstance(yv, ast.Name):
            yname = yv.id
        else:
            ck.ob(rid, m.outer, yn.ast, False, 'yield value is neither the result name nor `(x, result)`')
            continue
        problems = []
        have = da.get(yn.id, frozenset())
        for nm in {yname} | ({xn} if isinstance(yv, ast.Tuple) else set()):
            if nm not in have:
                problems.append(f'`{nm}` is not assigned on every path of this iteration')
        if yname == xn or yname == fn:
            problems.append(f'the yielded result is `{yname}`, not the outcome of the future')
        rd = reaching_defs(cfg, yname, start=loop.id, cut_back_edges_to=loop.id).get(yn.id, frozenset())
        for d in rd:
            dn = cfg.nodes[d]
            if dn.kind == 'except':
                continue
            st = dn.ast
            v = getattr(st, 'value', None)
            if isinstance(st, ast.Assign) and v is not None:
                u = v
                if isinstance(u, ast.Await) and is_name(u.value, fn):
                    continue
                u = unwrap_await(u)
                if isinstance(u, ast.Call):
                    r, me = method_of(u)
                    if me == 'result' and is_name(r, fn):
                        continue
                if isinstance(u, ast.Name):
                    # y = e : e must be bound by the handler of the try around the result() call
                    src = [h for h in cfg.nodes if h.kind == 'except' and h.ast.name == u.id and loop.id in h.loops and h.pending is None]
                    if src and all(any(e.kind == 'exc' and _awaits(cfg.nodes[e.src], fn) for e in cfg.pred[h.id]) and all(_awaits(cfg.nodes[e.src], fn) for e in cfg.pred[h.id] if e.kind == 'exc') for h in src):
                        continue
            problems.append(f'`{yname}` may come from L{dn.lineno} `{norm_text(st)[:50]}`, which is neither `{fn}.result()`/`await {fn}` nor the exception caught from it')
        ck.ob(rid, m.outer, yn.ast, not problems, '; '.join(problems) if problems else f'`{yname}` is `{fn}`\'s outcome (or the exception caught from that call); `{xn}` and `{fn}` come from this iteration\'s dequeue')
    # (e) what the worker *returned* is a value, whatever its type: inside the consumer loop an exception is raised only
    #     as the re-raise of what `fut.result()` / `await fut` raised (inside that handler), or as the feeder's forwarded
    #     exception (`raise z`) -- never by looking at the outcome (`if isinstance(y, Exception): raise y` would abort
    #     the stream on a function that returns exception objects, where map() yields them)
    handler_nodes = set()
    for h in cfg.nodes:
        if h.kind == 'except' and loop.id in h.loops and h.pending is None and any(e.kind == 'exc' and _awaits(cfg.nodes[e.src], fn) for e in cfg.pred[h.id]):
            handler_nodes |= {k for k in reachable(cfg, [h.id], edge_ok=lambda e: not e.is_exc) if loop.id in cfg.nodes[k].loops}
    bad_raises = []
    for n in cfg.nodes:
        if loop.id in n.loops and n.pending is None and n.kind == 'stmt' and isinstance(n.ast, ast.Raise):
            if n.ast.exc is None:
                if n.id not in handler_nodes:
                    bad_raises.append(n)
            elif is_name(n.ast.exc, zname):
                continue
            elif n.id in handler_nodes and isinstance(n.ast.exc, ast.Name) and any(h.kind == 'except' and h.ast.name == n.ast.exc.id for h in cfg.nodes):
                continue
            else:
                bad_raises.append(n)
    ck.ob(rid, m.outer, (loop.lineno, 'raises in the consumer loop'), not bad_raises, 'the consumer raises only what the future\'s result() raised (re-raise in its handler) or the feeder\'s forwarded exception' if not bad_raises else f'L{bad_raises[0].lineno}: `{norm_text(bad_raises[0].ast)}` raises by looking at the outcome value: a worker that *returns* an exception object (errors as values, exception objects passed through) aborts the stream at that element, where the sequential map yields the object')
    # (f) what may become an element's output: a handler around the result call that lets the iteration go on (binds the
    #     exception as the output under return_exceptions) catches Exception at most.  KeyboardInterrupt / SystemExit /
    #     GeneratorExit / CancelledError arriving while the consumer waits are events of the *consumer*, not outcomes of
    #     element i: caught there, an interrupt is yielded as a result (the real result is dropped) and never interrupts.
    lat = cfg.lat
    ynodes = {k.id for k in cfg.nodes if loop.id in k.loops and isinstance(k.ast, ast.Expr) and isinstance(k.ast.value, (ast.Yield, ast.YieldFrom))}
    for h in cfg.nodes:
        if h.kind == 'except' and loop.id in h.loops and h.pending is None and any(e.kind == 'exc' and _awaits(cfg.nodes[e.src], fn) for e in cfg.pred[h.id]):
            goes_on = path_avoiding(cfg, [e for e in cfg.succ[h.id] if not e.is_exc], ynodes, avoid=set(), edge_ok=lambda e: not e.is_exc) is not None
            ht = h.ast.type
            caught = ['BaseException'] if ht is None else [(dotted(t) or '?').split('.')[-1] for t in (ht.elts if isinstance(ht, ast.Tuple) else [ht])]
            wide = [k for k in caught if not lat.covers(['Exception'], k)]
            if goes_on:
                ck.ob(rid, m.outer, h.ast, not wide, f'the handler that turns a failed call into the element\'s output catches {caught}: an outcome of the call, never an event of the consumer' if not wide else f'the handler that turns a failure into the element\'s output catches {wide}: a KeyboardInterrupt / SystemExit / GeneratorExit / CancelledError that reaches the consumer while it waits for element i is yielded as the result of element i (whose real result is dropped) and the interrupt is lost')
    # (g) ... and every outcome of the call does become the element's output under return_exceptions: no handler in front of
    #     that one takes a class of Exception away and re-raises it unconditionally (CancelledError of concurrent.futures is
    #     an Exception: a call that ended in it is a failed call like any other)
    for tr_ in [t for t in ast.walk(m.outer.node) if isinstance(t, ast.Try)]:
        if not any((isinstance(c_, ast.Call) and method_of(c_)[1] == 'result') or isinstance(c_, ast.Await) for b_ in tr_.body for c_ in ast.walk(b_)):
            continue
        goer_i = next((i_ for i_, h_ in enumerate(tr_.handlers) if h_.body and not isinstance(h_.body[0], ast.Raise)), None)
        if goer_i is None:
            continue
        for h_ in tr_.handlers[:goer_i]:
            ht = h_.type
            names_ = [] if ht is None else [norm_text(t) for t in (ht.elts if isinstance(ht, ast.Tuple) else [ht])]
            inner = [k for k in names_ if k.split('.')[-1] not in ('BaseException', 'KeyboardInterrupt', 'SystemExit', 'GeneratorExit') and not (k.split('.')[-1] == 'CancelledError' and 'asyncio' in k)]
            if inner:
                ck.ob(rid, m.outer, h_, False, f'L{h_.lineno}: the handler for {inner} in front of the return_exceptions handler re-raises unconditionally: a call that failed with that class is not delivered as its element\'s output, the stream aborts there and every later input gets no output')
    # (d) the loop ends normally only on the end marker
    check_loop_ends_on_marker(ck, rid, m.outer, cfg, loop, zname)
    # (c) one yield per dequeue
    def weight(n: Node):
        return 1 if (n.extra.get('yield') and n.pending is None) else 0

    # counted from the *successful* dequeue (a polling get that timed out has taken nothing)
    getn = next(n for n in cfg.nodes if loop.id in n.loops and n.pending is None and isinstance(n.ast, ast.Assign) and is_name(n.ast.targets[0], zname) and get_sites(n.ast.value, m.oscope, m.q))
    res = count_minmax(
        cfg,
        getn.id,
        weight,
        stop=lambda nid: loop.id not in cfg.nodes[nid].loops and nid != loop.id,
        count_on_exc=lambda n: bool(n.extra.get('yield')),
        start_edges=lambda e: not e.is_exc,
    )
    bad = []
    for term, (lo, hi) in res.items():
        if term[0] == 'back' and (lo, hi) != (1, 1):
            bad.append(f'after a successful dequeue the next dequeue is reached after {lo}..{hi} yields (via L{cfg.nodes[term[1]].lineno})')
    ck.paths_examined += len(res)
    ck.ob(rid, m.outer, loop.ast, not bad, '; '.join(bad) if bad else 'between two dequeues every path yields exactly once or leaves the loop')


def check_loop_ends_on_marker(ck: Checker, rid: str, f, cfg: CFG, loop: Node, zname: str, marker_names=()):
    """The consumer loop is left normally only on the branch that recognised the producer's end marker
    (`z is None` / `z == <marker>`): otherwise the tail of the stream can be dropped silently."""
    term = {}
    for n in cfg.nodes:
        if n.kind != 'test' or loop.id not in n.loops:
            continue
        t, flip = n.ast, False
        while isinstance(t, ast.UnaryOp) and isinstance(t.op, ast.Not):
            t, flip = t.operand, not flip
        if isinstance(t, ast.Compare) and is_name(t.left, zname) and len(t.ops) == 1:
            op, r = t.ops[0], t.comparators[0]
            lab = None
            if isinstance(op, ast.Is) and is_none(r):
                lab = 'T'
            elif isinstance(op, ast.IsNot) and is_none(r):
                lab = 'F'
            elif isinstance(op, (ast.Eq, ast.NotEq, ast.Is, ast.IsNot)) and isinstance(r, ast.Name) and (not marker_names or r.id in marker_names):
                lab = 'T' if isinstance(op, (ast.Eq, ast.Is)) else 'F'
            if lab is not None:
                term[n.id] = ({'T': 'F', 'F': 'T'}[lab]) if flip else lab
    outside = {k.id for k in cfg.nodes if loop.id not in k.loops and k.id != loop.id and k.id not in (cfg.exit_raise,)}
    p = path_avoiding(
        cfg,
        [e for e in cfg.succ[loop.id] if e.kind == 'T'],
        outside,
        # leaving the loop *by an exception* is not a normal end; an exception handled inside the loop is
        edge_ok=lambda e: not (e.is_exc and loop.id not in cfg.nodes[e.dst].loops) and not (e.src in term and e.kind == term[e.src]) and not ((e.src, e.dst) in cfg.back_edges),
    )
    ck.ob(rid, f, loop.ast if loop.ast is not None else (loop.lineno, 'consumer loop'), p is None and bool(term), 'the consumer loop ends normally only after it has dequeued the producer\'s end marker' if p is None and term else 'the consumer loop can end normally without having seen the end marker: elements still in flight (the tail of the stream) are dropped silently', path=fmt_path(cfg, [loop.id] + p) if p else '')


def _awaits(n: Node, fn: str) -> bool:
    a = header_expr(n)
    if a is None:
        return False
    for k in walk_shallow(a):
        if isinstance(k, ast.Await) and is_name(k.value, fn):
            return True
        if isinstance(k, ast.Call):
            r, me = method_of(k)
            if me == 'result' and is_name(r, fn):
                return True
    return False


# ----------------------------------------------------------------------
def check_spsc(ck: Checker, rid: str, m: Fifo):
    """WHO: puts only in the feeder, gets only in the outer generator, one feeder spawned outside loops."""
    mod = m.outer.module
    probs = []
    n_put = n_get = 0
    for f in [m.outer] + [g for g in mod.functions.values() if g.parent is m.outer]:
        sc = m.fscope if f is m.feeder else (m.oscope if f is m.outer else Scope(f))
        for n in walk_shallow_func(f.node):
            if isinstance(n, ast.Call):
                if put_sites(n, sc, m.q) and not any(put_sites(c, sc, m.q) for c in calls_in(n) if c is not n):
                    n_put += 1
                    if f is not m.feeder:
                        probs.append(f'put on `{m.q}` in `{f.qualname}` (L{n.lineno}), outside the feeder')
                if get_sites(n, sc, m.q) and isinstance(n.func, ast.Attribute) and n.func.attr in ('get', 'get_nowait') and sc.canon(n.func.value) == m.q:
                    n_get += 1
                    if f is not m.outer:
                        probs.append(f'get on `{m.q}` in `{f.qualname}` (L{n.lineno}), outside the consumer')
    spawns = [sp for sp in spawn_sites(m.outer) if sp.target is m.feeder]
    if len(spawns) != 1:
        probs.append(f'{len(spawns)} feeders are spawned')
    elif spawns[0].in_loop:
        probs.append('the feeder is spawned inside a loop')
    ck.ob(rid, m.outer, m.spawn.call, not probs, '; '.join(probs) if probs else f'{n_put} put site(s) all in `{m.feeder.qualname}`, {n_get} get site(s) all in `{m.outer.qualname}`; one feeder spawned outside any loop')


def check_fifo_class(ck: Checker, rid: str, m: Fifo):
    kind = QUEUE_CTORS.get(m.q_ctor[0]) or QUEUE_CTORS.get(m.q_ctor[0].split('.')[-1])
    ck.ob(rid, m.outer, m.q_ctor[1], kind == 'fifo', f'hand-off queue `{m.q}` is a `{m.q_ctor[0]}` ({kind or "unknown"} discipline)')
