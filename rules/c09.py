"""C09 -- workers see well-formed batches; no request waits for a full batch (structural clauses)."""

from __future__ import annotations

import ast

from mpsa.cfg import CFG, Node, calls_in, const_truth, header_expr, walk_shallow
from mpsa.flow import count_minmax, dominators, fmt_path, held_locks, path_avoiding, reachable
from mpsa.guard import Guard
from mpsa.loader import AnchorError, FuncInfo, dotted, norm_text
from mpsa.match import Scope, has_timeout, is_name, is_none, kwarg, method_of, names_in, spawn_sites, unwrap_await, walk_deep_func, walk_shallow_func
from mpsa.report import Checker

from .common import QUEUES, SERVER, STREAMER, WORKER, build_cfg, lattice, make_fallible

BUF = 'self._batch_buffer'


def guard_cfg(ck: Checker, f: FuncInfo, calls=('preprocess',)):
    sc = Scope(f)
    cfg = build_cfg(f, ck.repo, make_fallible(sc, iters=set(), calls=set(calls)))
    ck.analysed_func(f, cfg)
    return cfg, sc, Guard(cfg, cfg.lat)


def clean_value(ck: Checker, rid: str, f: FuncInfo, cfg: CFG, g: Guard, node: Node, var: str, what: str):
    """Obligation: at `node`, on every path, `var` is proven neither an Exception nor a RemoteException,
    or is a freshly computed value (the result of a successful user preprocess / an element of a result)."""
    lat = cfg.lat
    bad = None
    S = g.at(node.id)
    # a value computed by library code (an element of a result, a re-packed item) is no longer one of the tracked
    # message values; what *user code* returned is not known to be clean: preprocess() may hand back an exception
    # object instead of raising it, and that must be short-circuited like any other exception value
    from mpsa.flow import reaching_defs

    from .common import USER_CALLS

    user_made = False
    for dn in (cfg.nodes[i] for i in reaching_defs(cfg, var, start=cfg.entry).get(node.id, frozenset())):
        v = unwrap_await(dn.ast.value) if isinstance(dn.ast, ast.Assign) else None
        if isinstance(v, ast.Call) and (dotted(v.func) in USER_CALLS):
            user_made = True
    for d in S:
        facts = [x for x in d if x[1] == var]
        if any(x[0] == 'derived' for x in facts) and not user_made:
            continue
        neg = [x[2] for x in facts if x[0] == 'neg']
        pos = [x[2] for x in facts if x[0] == 'pos']
        not_exc = any(lat.is_sub('Exception', k) for k in neg)
        not_re = 'RemoteException' in neg or any(p_ not in lat.other for p_ in pos)
        if not (not_exc and not_re):
            bad = (sorted(facts), 'an Exception' if not not_exc else 'a RemoteException')
            break
    ck.ob(rid, f, node.ast, bad is None, f'`{var}` may be {bad[1]} here (a path reaches this point knowing only {bad[0]})' if bad else f'{what}: on every path `{var}` has been tested not to be an Exception / RemoteException, or is the fresh result of the preprocess step ({len(S)} path condition(s) examined)')


def preprocess_args_clean(ck: Checker, rid: str, f: FuncInfo, cfg: CFG, g: Guard):
    """what is handed to the user's preprocess() is a genuine input: never an upstream failure (an
    exception value or its RemoteException wrapper), which preprocess might tolerate and turn into a
    'clean' element of a batch"""
    n = 0
    for node in cfg.nodes:
        a = header_expr(node)
        if a is None:
            continue
        for c in calls_in(a):
            if dotted(c.func) == 'preprocess' and c.args and isinstance(c.args[0], ast.Name):
                clean_value(ck, rid, f, cfg, g, node, c.args[0].id, "value handed to the user's preprocess()")
                n += 1
    ck.need(n >= 1, f'{f.key}: no preprocess call found')


def run(ck: Checker):
    ck.rule('C09-1', 'clean batches: values handed to the batch buffer / to Worker.stream are proven not to be exceptions or RemoteException wrappers; items appended to a batch are proven not to be the end marker; what is handed to preprocess is a genuine input (GUARD)', minimum=5)
    ck.rule('C09-2', 'size bound: a batch starts with one element, grows by one per counted iteration, under a strict `<` guard against batch_size (COUNT)', minimum=1)
    ck.rule('C09-3', 'exactly one destination per dequeued request in the collector: the batch buffer or the output queue, never both, never neither (COUNT)')
    ck.rule('C09-4', 'deadline shape: only the first get of a batch is untimed; later gets are bounded by a deadline computed after the first get from batch_wait_time; queue.Empty releases the partial batch at once', minimum=1)
    ck.rule('C09-5', 'single producer / single consumer on the batch buffer (WHO)')
    ck.rule('C09-6', 'wait discipline: the predicate governing every untimed Condition.wait() is evaluated under that condition\'s lock (no check-then-wait gap); an `if` instead of a loop only where a single waiter is established (HELD)', minimum=3)
    mod = ck.repo.module(WORKER)
    # ---------------------------------------------------------------- C09-1
    f = mod.func('Worker._build_input_batches')
    cfg, sc, g = guard_cfg(ck, f)
    n1 = 0
    for n in cfg.nodes:
        a = header_expr(n)
        if a is None:
            continue
        for c in calls_in(a):
            r, me = method_of(c)
            if me == 'put' and r is not None and sc.canon(r) == BUF and c.args and isinstance(c.args[0], ast.Tuple) and len(c.args[0].elts) == 2 and isinstance(c.args[0].elts[1], ast.Name):
                clean_value(ck, 'C09-1', f, cfg, g, n, c.args[0].elts[1].id, 'collector → batch buffer')
                n1 += 1
            elif me == 'put' and r is not None and sc.canon(r) == BUF and c.args and isinstance(c.args[0], ast.Name):
                # a whole message put on the buffer: fine for the end marker (known to be None here); a request put as it
                # was dequeued by-passes the value preprocess() returned for it
                zv = c.args[0].id
                S_ = g.at(n.id)
                if not all(('none', zv) in d for d in S_):
                    pre = [k for k in cfg.nodes if isinstance(k.ast, ast.Assign) and isinstance(k.ast.value, ast.Call) and dotted(k.ast.value.func) in ('preprocess', 'self.preprocess')]
                    ck.ob('C09-1', f, c, False, f'`{norm_text(c)}` puts the message as it was dequeued on the batch buffer' + (f': the value that preprocess() returned for it (`{norm_text(pre[0].ast.targets[0])}`, L{pre[0].lineno}) is discarded and call() receives raw, unvalidated requests' if pre else ''))
                    n1 += 1
    ck.need(n1 >= 1, f'{f.key}: no put of (uid, x) on the batch buffer')
    preprocess_args_clean(ck, 'C09-1', f, cfg, g)
    f = mod.func('Worker._start_single.get_input')
    cfg, sc, g = guard_cfg(ck, f)
    preprocess_args_clean(ck, 'C09-1', f, cfg, g)
    ny = 0
    for n in cfg.nodes:
        if n.extra.get('yield'):
            yv = [k.value for k in walk_shallow(n.ast) if isinstance(k, ast.Yield)][0]
            v = yv.elts[0] if isinstance(yv, ast.List) and len(yv.elts) == 1 else yv
            if isinstance(v, ast.Name):
                clean_value(ck, 'C09-1', f, cfg, g, n, v.id, 'single input → Worker.stream')
                ny += 1
            else:
                ck.ob('C09-1', f, n.ast, False, f'yields `{norm_text(yv)}`, not the element or `[element]`')
    ck.need(ny >= 1, f'{f.key}: no yield')
    f = mod.func('Worker._get_input_batch')
    cfg, sc, g = guard_cfg(ck, f, calls=())
    na = 0
    outname = None
    for n in cfg.nodes:
        a = header_expr(n)
        if a is None:
            continue
        for c in calls_in(a):
            r, me = method_of(c)
            if me == 'append' and isinstance(r, ast.Name) and c.args and not isinstance(c.args[0], ast.Name) and any(isinstance(x_, ast.Call) and method_of(x_)[1] in ('get', 'get_nowait') for x_ in ast.walk(c.args[0])):
                # what comes off the buffer goes into the batch untested: the end marker too
                na += 1
                ck.ob('C09-1', f, n.ast, False, f'`{norm_text(c)[:60]}` puts whatever the buffer holds into the batch without the end-marker test: a shutdown marker queued behind the last request becomes an element of its batch, the worker loop dies taking the pairs apart, and the request is never answered')
                continue
            if me == 'append' and isinstance(r, ast.Name) and c.args and isinstance(c.args[0], ast.Name):
                na += 1
                outname = r.id
                ok = g.notnone(n.id, c.args[0].id)
                ck.ob('C09-1', f, n.ast, ok, f'`{c.args[0].id}` appended to the batch is proven `is not None` on every path' if ok else f'the end marker (None) can be appended to a batch: `{c.args[0].id}` is not tested `is None` on every path to the append')
    ck.need(na >= 1, f'{f.key}: no append to the batch')
    # ---------------------------------------------------------------- C09-2 / C09-4
    check_size_bound(ck, 'C09-2', f, 'self.batch_size')
    check_deadline_shape(ck, 'C09-4', f, queue=BUF, wait_attr='self.batch_wait_time', size_attr='self.batch_size')
    check_wait_config(ck, 'C09-4', ck.repo.func(WORKER, 'Worker.__init__'), param='batch_wait_time', attr='self.batch_wait_time')
    # ---------------------------------------------------------------- C09-10
    # "no request waits": the thread that assembles the batches serves every request; a preprocess that fails for one
    # request must not end it -- the failure becomes that request's value and the loop goes on (the C04-1 obligations)
    from . import c04 as _c04

    ck.rule('C09-10', 'the collector survives a failing request: every call of per-request user code (preprocess, call) in a service loop is inside a try whose handler for Exception — with no narrower handler re-raising part of it first — binds the exception as that request\'s value and stays in the loop (the C04-1 obligations)', minimum=3)
    _c04.check_containment(ck, 'C09-10')
    # ... nor by wrapping an upstream failure that already is a wrapper (RemoteException(RemoteException) raises)
    _c04.check_wrap_arguments(ck, 'C09-10', ck.repo.func(WORKER, 'Worker._build_input_batches'))
    # ---------------------------------------------------------------- C09-3
    check_one_destination(ck, 'C09-3')
    # ---------------------------------------------------------------- C09-13
    ck.rule('C09-13', 'no request waits for a full batch, also with batch_wait_time=0: the timeout of the batch buffer\'s get / put reaches the condition wait as given — 0 is "do not wait", and `timeout or None` turns it into "wait for ever" (the batch consumer then sits on a lone request until a second one arrives)', minimum=2)
    from .common import check_timeout_passthrough as _ctp

    sl13 = ck.repo.cls(QUEUES, 'SingleLane')
    _ctp(ck, 'C09-13', [sl13.method('get'), sl13.method('put')])
    # ---------------------------------------------------------------- C09-12
    ck.rule('C09-12', 'the batch size the caller configured is the batch size the worker runs with: Worker.__init__ replaces `None` (by 0, no batching) and nothing else — decided by evaluating the tests of the constructor over representative sizes (None, 0, 1, 2, 7): `batch_size=1` must stay 1, a worker configured so receives one-element lists, not bare elements (finite-domain evaluation)')
    from mpsa.absval import walk as _walk

    wi = mod.func('Worker.__init__')
    cfg12 = build_cfg(wi, ck.repo, None)
    ck.analysed_func(wi, cfg12)
    ck.need('batch_size' in wi.params(), f'{wi.key}: no batch_size parameter')

    def ev12(n):
        a_ = n.ast
        if n.kind == 'stmt' and isinstance(a_, ast.Assign) and any(is_name(t, 'batch_size') for t in a_.targets):
            return ('set', a_.value.value) if isinstance(a_.value, ast.Constant) else ('set', norm_text(a_.value))
        if n.kind == 'stmt' and isinstance(a_, ast.AugAssign) and is_name(a_.target, 'batch_size'):
            return ('set', norm_text(a_))
        return None

    def stop12(n):
        a_ = n.ast
        return n.kind == 'stmt' and isinstance(a_, ast.Assign) and any(dotted(t) == 'self.batch_size' for t in a_.targets)

    probs12 = []
    stores12 = [n for n in cfg12.nodes if stop12(n)]
    if not stores12 or not all(is_name(n.ast.value, 'batch_size') for n in stores12):
        probs12.append('`self.batch_size` is not set from the `batch_size` parameter')
    for v in (None, 0, 1, 2, 7):
        for pth in _walk(cfg12, cfg12.entry, {'batch_size': v}, ev12, stop12):
            sets = [e_[1] for e_ in pth if e_[0] == 'set']
            final = sets[-1] if sets else v
            want = 0 if v is None else v
            if final != want:
                probs12.append(f'batch_size={v!r} becomes {final!r}' + (' — a worker configured with batch_size=1 gets bare elements instead of one-element lists' if v == 1 else ''))
    ck.ob('C09-12', wi, stores12[0].ast if stores12 else wi.node, not probs12, '; '.join(sorted(set(probs12))) if probs12 else 'None → 0; 0, 1, 2, 7 are stored as given')
    # ---------------------------------------------------------------- C09-11
    ck.rule('C09-11', 'a batch reaches call() as a list (the documented type: call() may pad it in place, concatenate it with a list, or dispatch on isinstance(x, list)): every definition of the value that the batch input generator yields is a list display, a list comprehension or a list(...) call (ORIGIN)')
    from mpsa.flow import reaching_defs as _rd

    f11 = mod.func('Worker._start_batch.get_input')
    cfg11 = build_cfg(f11, ck.repo, make_fallible(Scope(f11), iters=set(), calls=set()))
    ck.analysed_func(f11, cfg11)
    ys11 = [n for n in cfg11.nodes if n.extra.get('yield')]
    ck.need(ys11, f'{f11.key}: no yield found')
    for n in ys11:
        yv = [k.value for k in walk_shallow(n.ast) if isinstance(k, ast.Yield)][0]

        def is_list(e):
            return isinstance(e, (ast.List, ast.ListComp)) or (isinstance(e, ast.Call) and dotted(e.func) in ('list', 'sorted'))

        probs11 = []
        if isinstance(yv, ast.Name):
            for i in _rd(cfg11, yv.id, start=cfg11.entry).get(n.id, frozenset()):
                d = cfg11.nodes[i].ast
                if isinstance(d, ast.Assign) and len(d.targets) == 1 and isinstance(d.targets[0], ast.Name) and is_list(d.value):
                    continue
                # `us, batch = [..], [..]`: the element at the position of the name
                if isinstance(d, ast.Assign) and len(d.targets) == 1 and isinstance(d.targets[0], (ast.Tuple, ast.List)) and isinstance(d.value, (ast.Tuple, ast.List)) and len(d.targets[0].elts) == len(d.value.elts):
                    pos = [j for j, t in enumerate(d.targets[0].elts) if is_name(t, yv.id)]
                    if pos and is_list(d.value.elts[pos[0]]):
                        continue
                probs11.append(f'L{cfg11.nodes[i].lineno}: `{norm_text(d)[:60]}` binds `{yv.id}` to something that is not made as a list (unpacking `zip(*...)` gives tuples): call() receives a tuple')
        elif yv is not None and not is_list(yv):
            probs11.append(f'`{norm_text(yv)[:50]}` is not made as a list')
        ck.ob('C09-11', f11, n.ast, not probs11, '; '.join(probs11) if probs11 else 'the yielded batch is made as a list on every path')
    ck.rule('C09-9', 'the preprocess hook is looked up on the worker object when the service loop starts, not cached by Worker.__init__ (ORIGIN)', minimum=2)
    check_preprocess_lookup(ck, 'C09-9')
    ck.rule('C09-8', 'the batch buffer can hold a whole batch: it is created with at least `batch_size` slots (a smaller buffer makes the collector wait for room while call() waits for the batch to fill: every batch is cut short at the buffer size) (LINEAR)')
    from .linear import linear_form

    sb = mod.func('Worker._start_batch')
    bb = [n for n in walk_shallow_func(sb.node) if isinstance(n, ast.Assign) and dotted(n.targets[0]) == BUF and isinstance(n.value, ast.Call)]
    ck.need(bb, f'{sb.key}: creation of the batch buffer not found')
    arg = bb[0].value.args[0] if bb[0].value.args else kwarg(bb[0].value, 'maxsize')
    lf = linear_form(arg, sb) if arg is not None else None
    okb = lf is not None and lf[0] >= 1 and lf[1] >= 0 and (lf[2] or '').endswith('batch_size')
    ck.ob('C09-8', sb, bb[0], okb, f'the batch buffer has `{norm_text(arg)}` slots: room for a full batch' if okb else f'the batch buffer is created with `{norm_text(arg) if arg is not None else "no size"}`: not provably at least `batch_size` slots')
    ck.rule('C09-7', 'a started batch is handed over on every exit of _get_input_batch; the queue locks are per queue and not disabled (the collector blocks in get() holding the read lock of ONE queue; several workers write to one pipe under its writer lock)', minimum=3)
    check_batch_returned(ck, 'C09-7', mod.func('Worker._get_input_batch'))
    check_queue_locks(ck, 'C09-7')
    # ---------------------------------------------------------------- C09-5
    check_buffer_spsc(ck, 'C09-5')
    # ---------------------------------------------------------------- C09-6
    check_wait_discipline(ck, 'C09-6')


# ----------------------------------------------------------------------
def fill_loop(cfg: CFG, sc: Scope, size_attr: str):
    """The `while n < batchsize` loop: (loop node, counter name or None, list name or None)."""
    for n in cfg.nodes:
        if n.kind == 'test' and n.extra.get('loop') and isinstance(n.ast, ast.Compare) and len(n.ast.ops) == 1:
            r = n.ast.comparators[0]
            if sc.canon(r) == size_attr:
                return n
    return None


def check_size_relation(ck: Checker, rid: str, f: FuncInfo, size_attr: str):
    """the size bound decided by relational abstract interpretation (rules/sizebound.py), whatever the loop form"""
    from . import sizebound

    sc = Scope(f)
    cfg = build_cfg(f, ck.repo, None)
    # the batch: a name created from a list literal, appended to, and handed over (yield / return)
    created = {n.ast.targets[0].id for n in cfg.nodes if isinstance(n.ast, ast.Assign) and len(n.ast.targets) == 1 and isinstance(n.ast.targets[0], ast.Name) and isinstance(n.ast.value, ast.List)}
    appended = {method_of(c)[0].id for n in cfg.nodes if header_expr(n) is not None for c in calls_in(header_expr(n)) if method_of(c)[1] == 'append' and isinstance(method_of(c)[0], ast.Name)}
    handed = set()
    for n in cfg.nodes:
        v = n.ast.value.value if isinstance(n.ast, ast.Expr) and isinstance(n.ast.value, ast.Yield) else (n.ast.value if isinstance(n.ast, ast.Return) else None)
        if isinstance(v, ast.Name):
            handed.add(v.id)
    cands = sorted(created & appended & handed)
    ck.need(len(cands) == 1, f'{f.key}: the batch under construction is not identified (created ∩ appended ∩ handed over = {cands})')
    lst = cands[0]
    # a counter: a name that is `+= 1`-ed and compared with the size
    incs = {n.ast.target.id for n in cfg.nodes if isinstance(n.ast, ast.AugAssign) and isinstance(n.ast.target, ast.Name) and isinstance(n.ast.op, ast.Add)}
    size_names = {size_attr} | {n.ast.targets[0].id for n in cfg.nodes if isinstance(n.ast, ast.Assign) and len(n.ast.targets) == 1 and isinstance(n.ast.targets[0], ast.Name) and sc.canon(n.ast.value) == size_attr}
    compared = set()
    for n in cfg.nodes:
        if n.kind == 'test' and isinstance(n.ast, ast.expr):
            for c in ast.walk(n.ast):
                if isinstance(c, ast.Compare) and len(c.ops) == 1:
                    for a_, b_ in ((c.left, c.comparators[0]), (c.comparators[0], c.left)):
                        if isinstance(a_, ast.Name) and ((dotted(b_) or '') in size_names or sc.canon(b_) == size_attr):
                            compared.add(a_.id)
    cnt = sorted(incs & compared)
    probs, facts = sizebound.analyse(cfg, sc, size_attr, lst, cnt[0] if cnt else None)
    ck.analysed_func(f, cfg)
    if probs:
        for n, text in probs:
            ck.ob(rid, f, n.ast if n.ast is not None else (n.lineno, 'size'), False, text)
    else:
        ck.ob(rid, f, (f.node.lineno, f'{f.name} size relation'), True, f'1 ≤ len({lst}) ≤ {size_attr} at every hand-over ({facts["hand_overs"]}) and before every append the path establishes len({lst}) < {size_attr}' + (f' (through the counter `{cnt[0]}`, kept in step with the list)' if cnt else '') + ' — relational abstract interpretation over {<, ==, >}')


def check_size_bound(ck: Checker, rid: str, f: FuncInfo, size_attr: str):
    check_size_relation(ck, rid, f, size_attr)
    sc = Scope(f)
    cfg = build_cfg(f, ck.repo, None)
    loop = fill_loop(cfg, sc, size_attr)
    if loop is None:
        return  # another loop form: the relational analysis above is the decision
    probs = []
    t = loop.ast
    if not isinstance(t.ops[0], ast.Lt):
        probs.append(f'fill guard `{norm_text(t)}` is not a strict `<`: a batch can grow to batch_size + 1')
    left = t.left
    counter = left.id if isinstance(left, ast.Name) else None
    lenof = left.args[0].id if isinstance(left, ast.Call) and dotted(left.func) == 'len' and left.args and isinstance(left.args[0], ast.Name) else None
    if counter is None and lenof is None:
        probs.append(f'fill guard compares `{norm_text(left)}`, neither a counter nor len(batch)')
    # list and appends
    appends = []
    for n in cfg.nodes:
        if loop.id in n.loops and header_expr(n) is not None:
            for c in calls_in(header_expr(n)):
                r, me = method_of(c)
                if me == 'append' and isinstance(r, ast.Name):
                    appends.append((n, r.id))
    lists = {nm for _, nm in appends}
    if len(lists) != 1:
        probs.append(f'the fill loop appends to {sorted(lists)}')
    lst = next(iter(lists)) if lists else None
    # initialisation: list with exactly one element (and counter = 1) before the loop, in the same "batch start"
    inits = [n for n in cfg.nodes if loop.id not in n.loops and isinstance(n.ast, ast.Assign) and len(n.ast.targets) == 1 and is_name(n.ast.targets[0], lst) and isinstance(n.ast.value, ast.List)]
    if not inits:
        probs.append('the batch is not created as a list literal')
    elif any(len(n.ast.value.elts) != 1 for n in inits):
        probs.append('the batch does not start with exactly one element')
    if counter:
        cinit = [n for n in cfg.nodes if loop.id not in n.loops and isinstance(n.ast, ast.Assign) and is_name(n.ast.targets[0], counter)]
        if not cinit or any(not (isinstance(n.ast.value, ast.Constant) and n.ast.value.value == 1) for n in cinit):
            probs.append(f'the counter `{counter}` does not start at 1 with the one-element batch')
        # per iteration: appends - increments == 0, appends == 1 on completed iterations; none on leaving paths
        def w_app(n: Node):
            return sum(1 for k, _ in appends if k.id == n.id)

        def w_inc(n: Node):
            a = n.ast
            return 1 if isinstance(a, ast.AugAssign) and is_name(a.target, counter) and isinstance(a.op, ast.Add) and isinstance(a.value, ast.Constant) and a.value.value == 1 else 0

        bad_other = [n for n in cfg.nodes if loop.id in n.loops and counter in __import__('mpsa.flow', fromlist=['assigned_names']).assigned_names(n) and not w_inc(n)]
        if bad_other:
            probs.append(f'the counter is modified other than by `+= 1` at L{bad_other[0].lineno}')
        stop = lambda nid: loop.id not in cfg.nodes[nid].loops and nid != loop.id
        diff = count_minmax(cfg, loop.id, lambda n: w_app(n) - w_inc(n), stop=stop, start_edges=lambda e: e.kind == 'T')
        apps = count_minmax(cfg, loop.id, w_app, stop=stop, start_edges=lambda e: e.kind == 'T')
        for term, (lo, hi) in diff.items():
            if term[0] == 'back' and (lo, hi) != (0, 0):
                probs.append(f'an iteration appends {lo}..{hi} more items than it counts')
        for term, (lo, hi) in apps.items():
            if term[0] == 'back' and (lo, hi) != (1, 1):
                probs.append(f'a completed iteration appends {lo}..{hi} items')
            if term[0] == 'node' and hi != 0 and cfg.nodes[term[1]].kind != 'exit_raise':
                probs.append('a path leaves the fill loop after appending without passing the guard again')
        ck.paths_examined += len(diff)
    elif lenof and lenof != lst:
        probs.append(f'guard measures len({lenof}) but the loop appends to {lst}')
    ck.ob(rid, f, loop.ast, not probs, '; '.join(sorted(set(probs))) if probs else f'batch starts as a 1-element list, each completed iteration appends exactly one item and counts it, guard is `{norm_text(t)}` against `{size_attr}`: 1 ≤ len(batch) ≤ batch_size')


def check_deadline_shape(ck: Checker, rid: str, f: FuncInfo, *, queue: str, wait_attr: str, size_attr: str | None = None):
    sc = Scope(f)

    def extra(node, a):
        R = set()
        for c in calls_in(a):
            r, me = method_of(c)
            if me == 'get' and has_timeout(c):
                R.add('Empty')
        return R

    cfg = build_cfg(f, ck.repo, make_fallible(sc, iters=set(), calls=set(), extra=extra), gen_throw=False)
    ck.analysed_func(f, cfg)
    # the fill loop: the innermost loop around a *timed* get on the queue, whatever its test looks like
    loop = None
    def _gets(timed_only):
        return [k for k in cfg.nodes if k.loops and header_expr(k) is not None and any(method_of(c)[1] in ('get', 'get_nowait') and method_of(c)[0] is not None and sc.canon(method_of(c)[0]) == queue and (has_timeout(c) or not timed_only) for c in calls_in(header_expr(k)))]

    timed = _gets(True) or sorted(_gets(False), key=lambda k: -len(k.loops))
    if timed:
        sizes = {lid: sum(1 for k in cfg.nodes if lid in k.loops) for lid in timed[0].loops}
        loop = cfg.nodes[min(sizes, key=sizes.get)]
    ck.need(loop is not None, f'{f.key}: no fill loop getting from `{queue}`')
    probs = []
    gets_in = []
    gets_out = []
    for n in cfg.nodes:
        a = header_expr(n)
        if a is None:
            continue
        for c in calls_in(a):
            r, me = method_of(c)
            if me in ('get', 'get_nowait') and r is not None and sc.canon(r) == queue:
                (gets_in if loop.id in n.loops else gets_out).append((n, c))
    # first get: untimed, before the loop (per batch)
    firsts = [(n, c) for n, c in gets_out if n.id in reachable(cfg, [loop.id], forward=False)]
    if not firsts:
        probs.append('no first get before the fill loop')
    # deadline variable
    defs = {}
    for n in cfg.nodes:
        if isinstance(n.ast, ast.Assign) and len(n.ast.targets) == 1 and isinstance(n.ast.targets[0], ast.Name):
            defs.setdefault(n.ast.targets[0].id, []).append(n)

    def depends(e, seen=None):
        seen = seen if seen is not None else set()
        out = set()
        for x in walk_shallow(e):
            if isinstance(x, ast.Name) and x.id not in seen:
                seen.add(x.id)
                out.add(x.id)
                for dn in defs.get(x.id, []):
                    out |= depends(dn.ast.value, seen)
            if isinstance(x, ast.Attribute):
                d = dotted(x)
                if d:
                    out.add(d)
            if isinstance(x, ast.Call):
                d = dotted(x.func)
                if d:
                    out.add(d + '()')
        return out

    clock = {'perf_counter()', 'time.perf_counter()', 'time.monotonic()', 'monotonic()', 'time.time()'}
    wall = {'time.time()', 'time()', 'datetime.now()', 'datetime.datetime.now()', 'datetime.utcnow()'}
    for n, c in gets_in:
        if method_of(c)[1] == 'get_nowait':
            continue
        t = kwarg(c, 'timeout') or (c.args[1] if len(c.args) > 1 else None)
        if t is None or is_none(t):
            probs.append(f'the get at L{n.lineno} inside the fill loop is untimed: a lone request waits for the batch to fill')
            continue
        dep = depends(t)
        # find the deadline variable: a local in dep whose definition is outside the loop and depends on wait_attr and a clock
        dl = [v for v in dep if v in defs and all(loop.id not in d.loops for d in defs[v]) and (wait_attr in depends(defs[v][0].ast.value) | {sc.canon(x) for x in depends(defs[v][0].ast.value) if isinstance(x, str)}) and (clock & depends(defs[v][0].ast.value))]
        if not dl:
            probs.append(f'the timeout `{norm_text(t)}` of the get at L{n.lineno} is not derived from a deadline = clock + {wait_attr} fixed when the batch was started')
            continue
        if not (clock & dep):
            probs.append(f'the timeout `{norm_text(t)}` does not shrink with the clock')
        if wall & (dep | set().union(*[depends(defs[v][0].ast.value) for v in dl])):
            probs.append(f'the deadline / remaining wait of the get at L{n.lineno} is measured with the wall clock ({sorted(wall & (dep | set().union(*[depends(defs[v][0].ast.value) for v in dl])))[0]}): when the system time is stepped between two elements of a batch, the batch is held that much longer than told (or cut short although the next element arrived in time) — deadlines need a monotonic clock')
        # deadline computed after the first get, before the loop
        for v in dl:
            for dn in defs[v]:
                for fn, fc in firsts:
                    p = path_avoiding(cfg, [cfg.entry], {dn.id}, avoid={fn.id})
                    if p is not None:
                        probs.append(f'the deadline `{v}` (L{dn.lineno}) is computed before the first element was taken: waiting for the first element eats the batch wait time')
        # a deadline that has passed gives a negative remaining time: the get must not fail on it.  queue.Queue raises
        # ValueError for a negative timeout, so must a SingleLane that validates its argument: then the caller clamps
        # (`max(0, t)`); a SingleLane that just hands the value to Condition.wait tolerates it
        clamped = isinstance(t, ast.Call) and dotted(t.func) == 'max' and any(isinstance(a_, ast.Constant) and a_.value == 0 for a_ in t.args)
        rejects = True  # a queue of the standard library (or unknown)
        if queue == BUF:
            from .common import QUEUES

            g_ = ck.repo.cls(QUEUES, 'SingleLane').method('get')
            rejects = any(isinstance(r_, ast.Raise) and isinstance(i_, ast.If) and 'timeout' in norm_text(i_.test) and any(isinstance(o_, (ast.Lt, ast.LtE)) for c_ in ast.walk(i_.test) if isinstance(c_, ast.Compare) for o_ in c_.ops) for i_ in ast.walk(g_.node) if isinstance(i_, ast.If) for r_ in i_.body)
        floor_ = [a_.value for a_ in t.args if isinstance(a_, ast.Constant) and isinstance(a_.value, (int, float)) and a_.value > 0] if isinstance(t, ast.Call) and dotted(t.func) == 'max' else []
        if floor_:
            probs.append(f'the remaining time handed to the get at L{n.lineno} is floored at {floor_[0]} (`{norm_text(t)}`): once the wait time is over the batch is held {floor_[0]} s longer, and an element arriving in that time joins a batch whose wait had ended')
        elif rejects and not clamped:
            probs.append(f'the remaining time `{norm_text(t)}` handed to the get at L{n.lineno} can be negative (the deadline has passed) and the queue rejects a negative timeout with ValueError: the thread that assembles the batch dies, the partial batch never reaches call(), its requests are never answered')
    # Empty leaves the loop
    for n, c in gets_in:
        for e in cfg.succ[n.id]:
            if e.kind == 'exc' and 'Empty' in (e.data or ()):
                dst = cfg.nodes[e.dst]
                if dst.kind == 'except':
                    # must leave: no path from the handler back to the loop head within the same batch
                    p = path_avoiding(cfg, [dst.id], {loop.id}, avoid={x.id for x, _ in firsts} | {k.id for k in cfg.nodes if isinstance(k.ast, ast.Expr) and isinstance(k.ast.value, ast.Yield)})
                    if p is not None:
                        probs.append('after queue.Empty the loop goes on waiting instead of releasing the partial batch')
                    # the handler that closes the batch catches the time-out and nothing else: a get that took an item
                    # off the queue and then failed (an item that cannot be un-pickled, a decoding queue) is not "nothing
                    # arrived" -- taken for a time-out the item is silently missing from the stream
                    ht = dst.ast.type
                    names_ = [(dotted(x_) or '?').split('.')[-1] for x_ in (ht.elts if isinstance(ht, ast.Tuple) else ([ht] if ht is not None else []))]
                    if ht is None or any(nm_ not in ('Empty', 'QueueEmpty', 'TimeoutError') for nm_ in names_):
                        probs.append(f'L{dst.lineno}: the handler that closes the batch on the timed get catches `{norm_text(ht) if ht is not None else "everything"}`, not only queue.Empty: a failure of the get itself (an element that cannot be un-pickled) is taken for a time-out and the element is silently dropped')
                else:
                    probs.append('queue.Empty from the timed get is not handled')
    # a batch that is not full is closed only on evidence from the queue: every way out of the fill loop other than the
    # size guard has asked the queue in that very iteration (and found it empty, or found the end marker) -- an expired
    # deadline alone is not a reason to stop, elements that are already queued still belong to this batch
    getn = {n.id for n, _ in gets_in}
    outside = {k.id for k in cfg.nodes if loop.id not in k.loops and k.id != loop.id}
    # the size guard may also sit inside the loop (`if n >= batchsize: break`): leaving through a comparison with the
    # batch size is the size guard, wherever it is written
    size_names = set()
    if size_attr:
        size_names = {size_attr} | {k.ast.targets[0].id for k in cfg.nodes if isinstance(k.ast, ast.Assign) and len(k.ast.targets) == 1 and isinstance(k.ast.targets[0], ast.Name) and sc.canon(k.ast.value) == size_attr}
    size_tests = {k.id for k in cfg.nodes if k.kind == 'test' and isinstance(k.ast, ast.expr) and any(isinstance(c_, ast.Compare) and any((dotted(x_) or '') in size_names or (size_attr and sc.canon(x_) == size_attr) for x_ in [c_.left] + c_.comparators) for c_ in ast.walk(k.ast))}
    pth = path_avoiding(cfg, [e for e in cfg.succ[loop.id] if e.kind == 'T'], outside, avoid=getn | {loop.id} | size_tests)
    if pth is not None and getn:
        probs.append(f'the fill loop can be left (L{cfg.nodes[pth[-2]].lineno if len(pth) > 1 else loop.lineno}) without asking the queue in that iteration: a short batch is released although further elements may already be queued (e.g. when the wait is 0 or the deadline has just passed during a burst)')
    # nothing blocking between loop exit and return
    after = reachable(cfg, [e.dst for e in cfg.succ[loop.id] if e.kind == 'F'] + [k.id for k in cfg.nodes if isinstance(k.ast, ast.Break) and loop.id in k.loops]) - {k.id for k in cfg.nodes if loop.id in k.loops} - {loop.id}
    for nid in after:
        n = cfg.nodes[nid]
        a = header_expr(n)
        if a is None or n.extra.get('yield'):
            continue
        for c in calls_in(a):
            r, me = method_of(c)
            if me in ('get', 'join', 'wait', 'acquire', 'sleep') and not has_timeout(c) and me != 'sleep':
                if me == 'get' and sc.canon(r) == queue and any(nid in reachable(cfg, [x.id]) for x, _ in firsts) and loop.id in reachable(cfg, [nid]):
                    continue  # the first get of the *next* batch
                probs.append(f'a blocking `{me}` at L{n.lineno} delays the release of the partial batch')
    ck.ob(rid, f, loop.ast, not probs, '; '.join(sorted(set(probs))) if probs else f'first get untimed; {len(gets_in)} later get(s) bounded by a deadline fixed after the first element from `{wait_attr}`; queue.Empty leaves the loop; nothing blocks before the batch is released')


def check_wait_config(ck: Checker, rid: str, f: FuncInfo, *, param: str, attr: str):
    """The configured wait reaches the batching loop unchanged: a default may replace `None` only.  0 is a legal
    wait ("release at once"); `wait = wait or default` silently turns an explicit 0 into the default."""
    from mpsa.guard import Guard

    ck.need(param in f.params(), f'{f.key}: no `{param}` parameter')
    cfg = build_cfg(f, ck.repo, None)
    ck.analysed_func(f, cfg)
    g = Guard(cfg, cfg.lat)
    probs = []
    for n in cfg.nodes:
        if n.kind == 'stmt' and isinstance(n.ast, (ast.Assign, ast.AugAssign)) and any(is_name(t, param) for t in (n.ast.targets if isinstance(n.ast, ast.Assign) else [n.ast.target])):
            S = g.at(n.id)
            if not S or any(('none', param) not in d for d in S):
                probs.append(f'L{n.lineno}: `{norm_text(n.ast)[:60]}` can replace a value the caller gave explicitly (it is not limited to `{param} is None`): an explicit 0 — "release at once" — silently becomes the default')
    stores = [n for n in cfg.nodes if n.kind == 'stmt' and isinstance(n.ast, ast.Assign) and any(dotted(t) == attr for t in n.ast.targets)]
    if not stores:
        probs.append(f'`{attr}` is never set')
    for st in stores:
        v = st.ast.value
        ok = is_name(v, param)
        if isinstance(v, ast.IfExp) and isinstance(v.test, ast.Compare) and len(v.test.ops) == 1 and is_name(v.test.left, param) and is_none(v.test.comparators[0]) and isinstance(v.test.ops[0], (ast.Is, ast.IsNot)):
            ok = is_name(v.orelse if isinstance(v.test.ops[0], ast.Is) else v.body, param)
        if not ok:
            probs.append(f'L{st.lineno}: `{attr}` is set from `{norm_text(v)[:50]}`, not from the `{param}` the caller gave (with a default for None only)')
    ck.ob(rid, f, stores[0].ast if stores else f.node, not probs, '; '.join(sorted(set(probs))) if probs else f'`{attr}` is the caller\'s `{param}`; only `None` is replaced by a default')


def check_batch_returned(ck: Checker, rid: str, f: FuncInfo):
    """Once the first element of a batch has been taken, every way out of the function hands the batch over: a `return`
    of anything else (the end marker that arrived in the middle of the batch, say) drops requests that were already taken
    from the queue -- they are never passed to call() and never answered."""
    cfg = build_cfg(f, ck.repo, None)
    starts = [n for n in cfg.nodes if n.kind == 'stmt' and isinstance(n.ast, ast.Assign) and isinstance(n.ast.value, ast.List) and len(n.ast.value.elts) == 1 and isinstance(n.ast.targets[0], ast.Name)]
    ck.need(starts, f'{f.key}: start of a batch (`out = [first]`) not found')
    st = starts[0]
    b = st.ast.targets[0].id
    after = reachable(cfg, [e.dst for e in cfg.normal_succ(st.id)])
    bad = [cfg.nodes[i] for i in after if cfg.nodes[i].kind == 'stmt' and isinstance(cfg.nodes[i].ast, ast.Return) and not is_name(cfg.nodes[i].ast.value, b)]
    falls = [e for e in cfg.pred[cfg.exit_return] if e.src in after and not isinstance(cfg.nodes[e.src].ast, ast.Return)]
    probs = [f'L{n.lineno}: `{norm_text(n.ast)}` leaves with the batch `{b}` already holding elements: they are dropped' for n in bad]
    if falls:
        probs.append('the function can fall off its end after a batch was started')
    ck.ob(rid, f, st.ast, not probs, '; '.join(probs) if probs else f'every exit after `{norm_text(st.ast)}` returns `{b}`')


def check_queue_locks(ck: Checker, rid: str):
    """The read lock the collector holds while it blocks in get() belongs to one queue, and the pipe of a process queue
    keeps its writer lock: `_rlock` of the thread queue is created per instance in __init__ (a class attribute would be
    shared by every queue of the process: an idle reader of one queue would block the readers of all others), and
    neither queue class disables a lock of its base class by overwriting it with None (several workers write to one
    pipe; without the writer lock the bytes of large messages interleave)."""
    mod = ck.repo.module(WORKER)
    for cname in ('_SimpleThreadQueue', '_SimpleProcessQueue'):
        cls = mod.cls(cname)
        probs = []
        for st in cls.node.body:
            if isinstance(st, (ast.Assign, ast.AnnAssign)):
                for t in (st.targets if isinstance(st, ast.Assign) else [st.target]):
                    if isinstance(t, ast.Name) and t.id in ('_rlock', '_wlock') and getattr(st, 'value', None) is not None:
                        probs.append(f'L{st.lineno}: `{t.id}` is a class attribute: one lock is shared by every `{cname}` of the process')
        init = cls.method('__init__') if cls.has_method('__init__') else None
        inst = {}
        if init is not None:
            for n in walk_shallow_func(init.node):
                if isinstance(n, ast.Assign):
                    for t in n.targets:
                        if dotted(t) in ('self._rlock', 'self._wlock'):
                            inst[dotted(t)] = n.value
        for k, v in inst.items():
            if is_none(v):
                probs.append(f'`{k} = None` disables the lock of the base class: concurrent {"writers" if "w" in k else "readers"} of one pipe are no longer serialised')
        if cname == '_SimpleThreadQueue' and 'self._rlock' not in inst:
            probs.append('`_rlock` is not created per instance in __init__')
        ck.ob(rid, init or cls.node.name, (cls.node.lineno, cname), not probs, '; '.join(probs) if probs else ('`_rlock` is created per queue in __init__' if cname == '_SimpleThreadQueue' else 'the reader / writer locks of multiprocessing.queues.SimpleQueue are kept'))


def check_preprocess_lookup(ck: Checker, rid: str):
    """The optional `preprocess` hook is looked up on the worker object when a service loop starts -- after the constructor
    of the user's subclass has completed -- not cached by Worker.__init__: a subclass may install the hook as an instance
    attribute after `super().__init__()` ("an attribute that is a free-standing function"); a value cached earlier is None
    for it, rejected elements then reach call() and whole batches fail."""
    mod = ck.repo.module(WORKER)
    init = mod.func('Worker.__init__')
    cached = {}
    for n in walk_shallow_func(init.node):
        if isinstance(n, ast.Assign) and 'preprocess' in norm_text(n.value) and isinstance(n.targets[0], ast.Attribute) and is_name(n.targets[0].value, 'self'):
            cached[n.targets[0].attr] = n
    for q in ('Worker._start_single.get_input', 'Worker._build_input_batches'):
        f = mod.func(q)
        defs = [n for n in walk_shallow_func(f.node) if isinstance(n, ast.Assign) and len(n.targets) == 1 and is_name(n.targets[0], 'preprocess')]
        ck.need(defs, f'{f.key}: the lookup of the preprocess hook was not found')
        v = defs[0].value
        ok = (isinstance(v, ast.Call) and dotted(v.func) == 'getattr' and len(v.args) >= 2 and is_name(v.args[0], 'self') and isinstance(v.args[1], ast.Constant) and v.args[1].value == 'preprocess') or dotted(v) == 'self.preprocess'
        src = dotted(v)
        why = ''
        if not ok and src and src.startswith('self.') and src.split('.', 1)[1] in cached:
            why = f' — `{src}` is set by Worker.__init__ (L{cached[src.split(".", 1)[1]].lineno}), before a subclass constructor can install the hook'
        ck.ob(rid, f, defs[0], ok, 'the hook is looked up on the worker object when the loop starts' if ok else f'the hook is taken from `{norm_text(v)[:50]}`, not looked up on the worker object when the loop starts{why}: a hook installed as an instance attribute after super().__init__() is ignored, elements it would reject or transform reach call() raw')


def check_one_destination(ck: Checker, rid: str):
    f = ck.repo.func(WORKER, 'Worker._build_input_batches')
    sc = Scope(f)
    cfg = build_cfg(f, ck.repo, make_fallible(sc, iters=set(), calls={'preprocess'}))
    # the innermost loop that unpacks a message
    unp = [n for n in cfg.nodes if isinstance(n.ast, ast.Assign) and isinstance(n.ast.targets[0], ast.Tuple) and len(n.ast.targets[0].elts) == 2]
    ck.need(unp, f'{f.key}: message unpack not found')
    loop = cfg.nodes[unp[0].loops[-1]]

    def dest(n: Node):
        a = header_expr(n)
        if a is None:
            return 0
        w = 0
        for c in calls_in(a):
            r, me = method_of(c)
            if me == 'put' and r is not None and c.args and isinstance(c.args[0], ast.Tuple) and sc.canon(r) in (BUF, 'q_out'):
                w += 1
        return w

    res = count_minmax(cfg, unp[0].id, dest, stop=lambda nid: (loop.id not in cfg.nodes[nid].loops) or nid == loop.id)
    bad = []
    for term, (lo, hi) in res.items():
        leaving_by_raise = term[0] == 'node' and (cfg.nodes[term[1]].kind == 'exit_raise' or (cfg.nodes[term[1]].pending or ('',))[0] == 'exc')
        if term[0] in ('back',) or (term[0] == 'node' and not leaving_by_raise):
            if (lo, hi) != (1, 1):
                bad.append(f'a dequeued request reaches {lo}..{hi} destinations before the next one is taken')
    ck.paths_examined += len(res)
    ck.ob(rid, f, unp[0].ast, not bad, '; '.join(sorted(set(bad))) if bad else 'every dequeued request goes to exactly one of {batch buffer, output queue} on every path')


def check_buffer_spsc(ck: Checker, rid: str):
    mod = ck.repo.module(WORKER)
    cls = mod.cls('Worker')
    puts, gets = [], []
    for f in mod.functions.values():
        sc = Scope(f)
        for n in walk_shallow_func(f.node):
            if isinstance(n, ast.Call):
                r, me = method_of(n)
                if r is not None and sc.canon(r) == BUF:
                    if me in ('put', 'put_nowait'):
                        puts.append((f, n))
                    elif me in ('get', 'get_nowait'):
                        gets.append((f, n))
    collector = mod.func('Worker._build_input_batches')
    consumer = mod.func('Worker._get_input_batch')
    probs = []
    for f, n in puts:
        if f is collector:
            continue
        if f is consumer and n.args and isinstance(n.args[0], ast.Name):
            # tabled exception: the consumer re-puts the end marker it has just taken (after the collector's
            # final put, into the slot it just freed) -- must be guarded by `is None`
            par = [w for w in walk_shallow_func(consumer.node) if isinstance(w, ast.If) and any(x is n for st in w.body for x in ast.walk(st))]
            if par and isinstance(par[-1].test, ast.Compare) and isinstance(par[-1].test.ops[0], ast.Is) and is_none(par[-1].test.comparators[0]) and is_name(par[-1].test.left, n.args[0].id):
                continue
        probs.append(f'put on the batch buffer in `{f.qualname}` L{n.lineno}, outside the collector')
    for f, n in gets:
        if f is not consumer:
            probs.append(f'get on the batch buffer in `{f.qualname}` L{n.lineno}, outside the batch consumer')
    # collector thread spawned exactly once per _start_batch
    sb = mod.func('Worker._start_batch')
    sps = [sp for sp in spawn_sites(sb) if sp.target is collector]
    if len(sps) != 1 or sps[0].in_loop:
        probs.append(f'{len(sps)} collector threads are started')
    ck.ob(rid, collector, (collector.node.lineno, 'batch buffer access'), not probs, '; '.join(probs) if probs else f'{len(puts)} put site(s) (collector; + the consumer\'s guarded re-put of the end marker), {len(gets)} get site(s) all in `_get_input_batch`; one collector thread')


# ----------------------------------------------------------------------
SINGLE_WAITER = {
    # (module, function): reason an `if` around wait() is sufficient
    (QUEUES, 'SingleLane.put'): 'single writer by the class contract (SPSC queue); checked at its uses by C01-5 / C09-5',
    (QUEUES, 'SingleLane.get'): 'single reader by the class contract (SPSC queue); checked at its uses by C01-5 / C09-5',
    (WORKER, 'Worker._build_input_batches'): 'the only waiter is the one collector thread of this worker (C09-5)',
}


def check_wait_discipline(ck: Checker, rid: str, modules=(WORKER, QUEUES), minimum=3):
    nsites = 0
    # sites behind this property: the worker's collector and the SingleLane batch buffer
    # (the servers' admission waits belong to C06-1 and are decided there)
    funcs = []
    for m in modules:
        if m == QUEUES:
            # the SingleLane class, wherever it is defined (a moved definition is found by its name)
            funcs += ck.repo.cls(QUEUES, 'SingleLane').methods()
        else:
            funcs += list(ck.repo.module(m).functions.values())
    for f in funcs:
        waits = [n for n in walk_shallow_func(f.node) if isinstance(n, ast.Call) and method_of(n)[1] == 'wait' and method_of(n)[0] is not None]
        if not waits:
            continue
        sc = Scope(f)
        # is the receiver a Condition?  (constructor tag: local, self attribute of the class, or attribute of a SingleLane)
        def is_condition(recv):
            d = sc.canon(recv)
            if d is None:
                return False
            last = d.split('.')[-1]
            return last in ('_not_full', '_not_empty', '_pipeline_notfull', 'pipenotfull', 'pipeline_notfull') or 'cond' in last.lower()

        cw = [w for w in waits if is_condition(method_of(w)[0])]
        if not cw:
            continue
        cfg = build_cfg(f, ck.repo, None)
        held = held_locks(cfg, sc.canon)
        dom = dominators(cfg)
        for w in cw:
            cond = sc.canon(method_of(w)[0])
            node = next((n for n in cfg.nodes if header_expr(n) is not None and any(c is w for c in calls_in(header_expr(n)))), None)
            if node is None:
                continue
            nsites += 1
            timed = bool(w.args and not is_none(w.args[0])) or has_timeout(w)
            # wrapped in asyncio.wait_for(cond.wait(), t)
            for c in calls_in(header_expr(node)):
                if (dotted(c.func) or '').endswith('wait_for') and c.args and unwrap_await(c.args[0]) is w and len(c.args) > 1:
                    timed = True
            # governing predicate: the closest dominating test node (other than a test of the wait's own result)
            doms = [cfg.nodes[d] for d in dom.get(node.id, ()) if cfg.nodes[d].kind == 'test' and d != node.id and not any(c is w for c in calls_in(cfg.nodes[d].ast))]
            gov = max(doms, key=lambda n: len(dom[n.id])) if doms else None
            probs = []
            in_loop = bool(node.loops)
            if gov is None:
                if not (timed and in_loop):
                    probs.append('the wait is not governed by any predicate')
            else:
                if cond not in held.get(gov.id, frozenset()):
                    if timed and in_loop:
                        pass  # a bounded wait inside a re-testing loop: a lost wake-up only costs one period
                    else:
                        probs.append(f'the predicate `{norm_text(gov.ast)[:50]}` (L{gov.lineno}) is evaluated outside `{cond}`\'s lock and the wait is unbounded: a notification sent between the test and the wait is lost and the waiter parks for ever')
                is_loop_test = bool(gov.extra.get('loop'))
                if not is_loop_test and not in_loop and f.qualname not in {q for _, q in SINGLE_WAITER}:
                    probs.append('the wait sits under `if`, not in a re-testing loop, and a single waiter is not established for this site')
            why = SINGLE_WAITER.get((f.module.rel.replace('src/mpservice/', ''), f.qualname))
            ck.ob(rid, f, node.ast, not probs, '; '.join(probs) if probs else f'wait on `{cond}` governed by `{norm_text(gov.ast)[:40] if gov else "-"}` ' + ('evaluated under its lock' if gov is not None and cond in held.get(gov.id, frozenset()) else '(bounded wait in a re-testing loop)') + (f'; `if` suffices: {why}' if why and gov is not None and not gov.extra.get('loop') else ''))
    ck.need(nsites >= minimum, f'only {nsites} Condition.wait sites found')
