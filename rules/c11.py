"""C11 -- server starts all-or-nothing and stops completely (structural clauses)."""

from __future__ import annotations

import ast

from mpsa.cfg import CFG, Node, calls_in, header_expr, walk_shallow
from mpsa.flow import count_minmax, fmt_path, path_avoiding, reachable
from mpsa.loader import AnchorError, ClassInfo, FuncInfo, dotted, norm_text
from mpsa.match import Scope, call_dotted, is_name, is_none, kwarg, method_of, resolve_callable, unwrap_await, walk_deep_func, walk_shallow_func
from mpsa.report import Checker

from . import server
from .common import SERVER, SERVLET, WORKER, benign_call, build_cfg, iterates_all_of, make_fallible

SIMPLE = ('ProcessServlet', 'ThreadServlet')
COMPOUND = ('SequentialServlet', 'EnsembleServlet', 'SwitchServlet')
STOPPERS = {'stop', '_stop_workers', 'terminate', 'shutdown'}


def self_closure(f: FuncInfo, depth=2):
    """f plus the methods it calls as self.m(...) (transitively, bounded)."""
    out, todo = [f], [(f, 0)]
    while todo:
        g, d = todo.pop()
        if d >= depth:
            continue
        for n in walk_shallow_func(g.node):
            if isinstance(n, ast.Call) and isinstance(n.func, ast.Attribute) and is_name(n.func.value, 'self'):
                t = resolve_callable(n.func, g)
                if t is not None and t not in out:
                    out.append(t)
                    todo.append((t, d + 1))
    return out


def run(ck: Checker):
    ck.rule('C11-1', 'start rollback: every exceptional exit of a start() after a launch passes through code that stops what was already started, and re-raises; the server starts its helper threads only after the servlet tree is up (EXITS)', minimum=6)
    ck.rule('C11-2', 'handshake pairing: per launched worker exactly one start() and one handshake get(); a failed handshake leads to join() (which raises); Worker.run puts exactly one handshake on both outcomes of __init__ (COUNT)', minimum=3)
    ck.rule('C11-3', 'the end sentinel cannot overtake accepted inputs: when an onboarding thread exists, put(None) on its buffer and its join dominate servlet.stop() (PRECEDE)', minimum=2)
    ck.rule('C11-4', 'stop joins what start started: every attribute that receives a started Thread/Process is joined (all elements) in stop/__exit__; compound servlets stop every member (PAIR)', minimum=7)
    ck.rule('C11-5', 're-enterable: the started flag is asserted in start, set only after all launches, reset on every normal path of stop; per-run queues/state are created at start time, not in __init__ (PAIR)', minimum=7)
    ck.rule('C11-6', 'sentinel propagation: every service loop, on the end sentinel, forwards it to every downstream / shared queue it is responsible for and terminates (EXITS)', minimum=9)
    mod = ck.repo.module(SERVLET)
    check_rollback(ck, 'C11-1', mod)
    check_handshake(ck, 'C11-2', mod)
    for name in server.SERVERS:
        s = server.discover(ck.repo, name)
        check_exit_order(ck, 'C11-3', s)
    check_pairing(ck, 'C11-4', mod)
    check_reenter(ck, 'C11-5', mod)
    check_sentinels(ck, 'C11-6')
    ck.rule('C11-7', 'fail before the handshake or inside the guarded region: after Worker.run has reported a successful initialisation, everything the worker executes lies inside the try of Worker.start whose handler broadcasts the end sentinel and re-raises — a set-up step that can fail outside it lets __enter__ return with a dead worker (EXITS)', minimum=2)
    check_guarded_after_handshake(ck, 'C11-7')
    # "stops completely": __exit__ cancels what is pending and must be able to finish while stream feeders still sit in
    # the admission wait -- every message the gather loop consumes gives its slot back and issues its wake-up, whatever
    # the state of the future (the C06-4 obligations)
    # "if any worker fails to initialise, raises that error": start() learns of the failure through join() of the worker's
    # Thread / Process object, which must raise instead of hanging -- the future behind join() is resolved on every way the
    # worker's run() can end (the C12-1 / C12-3 obligations; D21 was a Server.__enter__ that hung for this reason)
    from . import c12

    ck.rule('C11-9', 'a worker that fails to initialise makes join() raise, not hang: Thread.run resolves its future on every path (constructors of computed exception classes are user code), the result collector of a process resolves its future on every exit (the C12-1 / C12-3 obligations)', minimum=2)
    c12.check_thread_run(ck, 'C11-9')
    c12.check_collector(ck, 'C11-9')
    # "leaving the context after abandoned-stream requests returns in bounded time": Server.stream is fifo_stream over
    # the server's call; the clean-up of an abandoned stream must return before __exit__ is even reached -- stop flag on
    # every abnormal consumer exit, set before the drain, and a join of the feeder that cannot wedge on the hand-off queue
    # whatever the capacity (>= 1) (the C05-3 / C05-4 obligations, as under C07-5)
    from . import c05 as _c05

    ck.rule('C11-10', 'an abandoned Server.stream lets go: the stop-flag and join-safety obligations of fifo_stream / async_fifo_stream (C05-3, C05-4; counting argument over capacity >= 1)', minimum=4)
    for p_ in _c05.pairs(ck):
        if p_.fin is None:
            _c05.check_stop_flag(ck, 'C11-10', p_)
            _c05.check_join_safety(ck, 'C11-10', p_)
    # "leaving the context after a workload with failed requests": a failed request must not kill one of the threads that
    # serve everybody (onboarding thread, batch collector, worker loops) -- a dead thread leaves later requests unanswered
    # and makes __exit__ re-raise its error before servlet.stop() has run, or wait for a sentinel nobody forwards
    from . import c04 as _c04

    with ck.as_rule('C11-11', 'failed requests leave every service thread alive: the onboarding thread answers an input that cannot be pickled (C04-11), per-request user code is contained (C04-1), what is wrapped in RemoteException is an exception and not already a wrapper, and every value put on an output queue is wrapped (C04-2)', minimum=10):
        _c04.check_onboarding(ck, 'C04-11')
        _c04.check_containment(ck, 'C04-1')
        _c04.check_all_wrapping(ck, 'C04-2')
    ck.rule('C11-8', 'leaving the with-block cannot strand a feeder in the admission wait: the gather loop removes the ledger entry and signals the admission condition exactly once per message whatever the state of the future (cancelled requests of an abandoned stream included) (the C06-4 obligations)', minimum=8)
    for name in server.SERVERS:
        server.check_slot_return(ck, 'C11-8', server.discover(ck.repo, name))


# ----------------------------------------------------------------------
def _launch_fallible(sc: Scope):
    def extra(node, a):
        R = set()
        for c in calls_in(a):
            r, me = method_of(c)
            if me == 'start' and r is not None and not is_name(r, 'self') and c.args:
                R.add('Exception')  # member servlet start(q1, q2)
            if me == 'join' and isinstance(r, ast.Name):
                R.add('Exception')  # join of a worker whose __init__ failed re-raises its error
        return R

    return make_fallible(sc, iters=set(), calls=set(), extra=extra)


def check_rollback(ck: Checker, rid: str, mod):
    for cname in SIMPLE + COMPOUND:
        cls = mod.cls(cname)
        f = cls.method('start')
        sc = Scope(f)
        cfg = build_cfg(f, ck.repo, _launch_fallible(sc))
        ck.analysed_func(f, cfg)
        raisers = [n for n in cfg.nodes if n.pending is None and any(e.kind == 'exc' for e in cfg.succ[n.id]) and n.loops]
        ck.need(raisers, f'{f.key}: no fallible launch step found in the launch loop')
        stoppers = set()
        for n in cfg.nodes:
            a = header_expr(n)
            if a is None:
                continue
            for c in calls_in(a):
                r, me = method_of(c)
                if me in STOPPERS and r is not None:
                    stoppers.add(n.id)
        # a `for` over (a prefix of) what was started whose body stops each element is one stopper:
        # with nothing started yet its zero iterations are exactly right
        def _is_prefix(it):
            if isinstance(it, ast.Call) and dotted(it.func) in ('reversed', 'list', 'tuple') and len(it.args) == 1:
                return _is_prefix(it.args[0])
            if isinstance(it, ast.Subscript) and isinstance(it.slice, ast.Slice):
                sl = it.slice
                step_ok = sl.step is None or (isinstance(sl.step, ast.Constant) and sl.step.value == 1)
                return sl.lower is None and step_ok  # X[:k]
            return isinstance(it, (ast.Name, ast.Attribute))  # a collection of what was started (checked elsewhere)

        prefix_probs = []
        for n in cfg.nodes:
            if n.kind == 'for' and any(k in stoppers for k in cfg.loop_nodes(n.id)):
                stoppers.add(n.id)
                if cname in COMPOUND and n.pending is None and any(h.kind == 'except' and n.id in reachable(cfg, [h.id], edge_ok=lambda e: not e.is_exc) for h in cfg.nodes) and not _is_prefix(n.ast.iter):
                    prefix_probs.append(f'L{n.lineno}: the rollback walks `{norm_text(n.ast.iter)}`, which is not a prefix `X[:k]` of the members: for the first member (k = 0) a slice with a computed start or a negative step wraps around to members that were never started — their stop() asserts, and the caller gets that AssertionError instead of the worker\'s own error')
        probs = []
        for rn in raisers:
            if path_avoiding(cfg, [cfg.entry], {rn.id}, avoid=stoppers) is None:
                continue  # e.g. the re-raise that follows the rollback itself
            for e in cfg.succ[rn.id]:
                if e.kind != 'exc':
                    continue
                p = path_avoiding(cfg, [e], {cfg.exit_raise}, avoid=stoppers)
                if p is not None:
                    probs.append((rn, p))
            # a handler that swallows the failure (never re-raises) would report success with a hole
            reach = reachable(cfg, [e.dst for e in cfg.succ[rn.id] if e.kind == 'exc'])
            if cfg.exit_raise not in reach:
                probs.append((rn, None))
        # the rollback works on what start() has established so far:
        # (a) state it iterates over / reads must not have been reset earlier in the same handler;
        # (b) an attribute the stopper reads must be assigned before the first launch (or be handed over as argument)
        state_probs = []
        resets = {n.id for n in cfg.nodes if header_expr(n) is not None and any(dotted(c.func) == 'self._reset' for c in calls_in(header_expr(n)))}
        for hn in [n for n in cfg.nodes if n.kind == 'except' and n.loops]:
            hbody = reachable(cfg, [hn.id], edge_ok=lambda e: not e.is_exc)
            for sid in stoppers & hbody:
                pth = path_avoiding(cfg, [hn.id], {sid}, avoid=set())
                if pth and any(k in resets for k in pth[:-1]):
                    state_probs.append(f'L{cfg.nodes[sid].lineno}: the state is reset (`self._reset()`) before the rollback walks it: the loop that should stop the members started so far finds nothing to stop — they keep running, and the next start() asserts')
        stopper_funcs = []
        for n in cfg.nodes:
            a = header_expr(n)
            for c in (calls_in(a) if a is not None else []):
                r, me = method_of(c)
                if me in STOPPERS and is_name(r, 'self'):
                    t = resolve_callable(c.func, f)
                    if t is not None:
                        stopper_funcs += self_closure(t)
        read = {}
        for g in stopper_funcs:
            for x in walk_shallow_func(g.node):
                if isinstance(x, ast.Attribute) and is_name(x.value, 'self') and isinstance(x.ctx, ast.Load):
                    read.setdefault(x.attr, g)
        assigned = {}
        for n in cfg.nodes:
            if n.kind == 'stmt' and isinstance(n.ast, ast.Assign):
                for t in n.ast.targets:
                    if isinstance(t, ast.Attribute) and is_name(t.value, 'self'):
                        assigned.setdefault(t.attr, set()).add(n.id)
        first_launch = min((rn.id for rn in raisers), default=None)
        for attr, g in read.items():
            if attr in assigned and first_launch is not None:
                if path_avoiding(cfg, [cfg.entry], {first_launch}, avoid=assigned[attr]) is not None:
                    state_probs.append(f'the rollback helper `{g.name}` reads `self.{attr}`, which start() assigns only after the launches: when a launch fails the helper finds the attribute missing (AttributeError instead of the real error, earlier workers keep running) or still holding the queue of the previous cycle')
        if state_probs:
            ck.ob(rid, f, (f.node.lineno, f'{cname}.start rollback state'), False, '; '.join(sorted(set(state_probs))))
        if prefix_probs:
            ck.ob(rid, f, (f.node.lineno, f'{cname}.start rollback range'), False, '; '.join(sorted(set(prefix_probs))))
        # helper threads of the servlet itself (the dispatcher of a switch / ensemble): a launch that can still fail after
        # such a thread was started must end it on the failure path -- the simple way is to start it after all launches
        tattrs = {dotted(n.ast.targets[0]) for n in cfg.nodes if n.kind == 'stmt' and isinstance(n.ast, ast.Assign) and len(n.ast.targets) == 1 and isinstance(n.ast.value, ast.Call) and (dotted(n.ast.value.func) or '').split('.')[-1] == 'Thread' and (dotted(n.ast.targets[0]) or '').startswith('self.')}
        for tn in cfg.nodes if cname in COMPOUND else []:
            a = header_expr(tn)
            if a is None:
                continue
            for c in calls_in(a):
                r, me = method_of(c)
                if me == 'start' and r is not None and dotted(r) in tattrs:
                    later = reachable(cfg, [e.dst for e in cfg.normal_succ(tn.id)], edge_ok=lambda e: not e.is_exc)
                    joins = {k.id for k in cfg.nodes if header_expr(k) is not None and any(method_of(cc)[1] == 'join' and method_of(cc)[0] is not None and dotted(method_of(cc)[0]) == dotted(r) for cc in calls_in(header_expr(k)))}
                    for rn in raisers:
                        if rn.id in later:
                            p = path_avoiding(cfg, [e for e in cfg.succ[rn.id] if e.kind == 'exc'], {cfg.exit_raise}, avoid=joins)
                            if p is not None:
                                state_probs_t = f'the helper thread `{dotted(r)}` is started (L{tn.lineno}) before `{norm_text(rn.ast)[:40]}` (L{rn.lineno}), which can still fail: the failure path stops the members but leaves the thread running (blocked on its input queue for ever; it is not a daemon, so the interpreter cannot exit)'
                                ck.ob(rid, f, tn.ast, False, state_probs_t, path=fmt_path(cfg, [rn.id] + p))
                                break
                    else:
                        ck.ob(rid, f, tn.ast, True, f'the helper thread `{dotted(r)}` is started after every fallible launch (or joined on their failure paths)')
        if probs:
            rn, p = probs[0]
            ck.ob(rid, f, rn.ast, False, f'when `{norm_text(rn.ast)[:50]}` fails after earlier workers/members were started, start() raises without stopping them: their threads/processes keep running' if p is not None else 'the launch failure is swallowed', path=fmt_path(cfg, [rn.id] + p) if p else '')
        else:
            ck.ob(rid, f, (f.node.lineno, f'{cname}.start failure exits'), True, f'{len(raisers)} fallible launch step(s); every exceptional exit runs a stopper ({sorted({norm_text(cfg.nodes[s].ast)[:40] for s in stoppers})}) before re-raising')
    # the rollback stopper of the simple servlets really stops: sentinel + join of every started worker
    for cname in SIMPLE:
        cls = mod.cls(cname)
        f = cls.method('start')
        used = [n for n in walk_shallow_func(f.node) if isinstance(n, ast.Call) and method_of(n)[1] in STOPPERS and is_name(method_of(n)[0], 'self')]
        for u in used:
            t = resolve_callable(u.func, f)
            ck.need(t is not None, f'{f.key}: stopper `{norm_text(u)}` not resolvable')
            body = [x for g in self_closure(t) for x in walk_shallow_func(g.node)]
            has_sentinel = any(isinstance(x, ast.Call) and method_of(x)[1] == 'put' and x.args and is_none(x.args[0]) for x in body)
            joins_all = any(isinstance(x, ast.For) and iterates_all_of(x.iter, 'self._workers') and any(isinstance(y, ast.Call) and method_of(y)[1] == 'join' and is_name(method_of(y)[0], x.target.id if isinstance(x.target, ast.Name) else '') for y in ast.walk(x)) for x in body)
            ck.ob(rid, t, (t.node.lineno, f'{cname}.{t.name}'), has_sentinel and joins_all, 'the rollback helper sends the end sentinel and joins every worker in `self._workers`' if has_sentinel and joins_all else 'the rollback helper does not both send the sentinel and join every started worker')
    # server: the servlet is started before any helper thread
    f = ck.repo.func(SERVER, '_enter_server')
    cfg = build_cfg(f, ck.repo, None)
    ck.analysed_func(f, cfg)
    sstart = [n for n in cfg.nodes if header_expr(n) is not None and any(dotted(c.func) == 'self.servlet.start' for c in calls_in(header_expr(n)))]
    tstarts = [n for n in cfg.nodes if header_expr(n) is not None and any(method_of(c)[1] == 'start' and dotted(c.func) != 'self.servlet.start' for c in calls_in(header_expr(n)))]
    ck.need(sstart and tstarts, f'{f.key}: servlet start / helper thread starts not found')
    bad = [t for t in tstarts if sstart[0].id in reachable(cfg, [t.id])]
    ck.ob(rid, f, sstart[0].ast, not bad, 'the servlet tree is started before any helper thread: a failing start leaves no server thread behind' if not bad else f'a helper thread (L{bad[0].lineno}) is started before the servlet: a failing servlet start leaves it running')


# ----------------------------------------------------------------------
def check_handshake(ck: Checker, rid: str, mod):
    for cname in SIMPLE:
        f = mod.cls(cname).method('start')
        sc = Scope(f)
        cfg = build_cfg(f, ck.repo, _launch_fallible(sc))
        loops = [n for n in cfg.nodes if n.kind == 'for']
        ck.need(loops, f'{f.key}: no launch loop')
        loop = loops[0]
        stop = lambda nid: loop.id not in cfg.nodes[nid].loops and nid != loop.id

        def w_start(n: Node):
            a = header_expr(n)
            return sum(1 for c in calls_in(a) if method_of(c)[1] == 'start' and isinstance(method_of(c)[0], ast.Name)) if a is not None and n.id != loop.id else 0

        def w_get(n: Node):
            a = header_expr(n)
            return sum(1 for c in calls_in(a) if method_of(c)[1] == 'get' and sc.canon(method_of(c)[0]) == 'q_out') if a is not None and n.id != loop.id else 0

        probs = []
        for nm, w in (('start()', w_start), ('handshake get()', w_get)):
            res = count_minmax(cfg, loop.id, w, stop=stop, start_edges=lambda e: e.kind == 'iter')
            for term, (lo, hi) in res.items():
                if term[0] == 'back' and (lo, hi) != (1, 1):
                    probs.append(f'an iteration performs {lo}..{hi} {nm}')
        # the None handshake leads to join()
        tests = [n for n in cfg.nodes if n.kind == 'test' and isinstance(n.ast, ast.Compare) and isinstance(n.ast.ops[0], ast.Is) and is_none(n.ast.comparators[0])]
        if not tests:
            probs.append('the handshake is not tested for None')
        else:
            joins = {n.id for n in cfg.nodes if header_expr(n) is not None and any(method_of(c)[1] == 'join' for c in calls_in(header_expr(n)))}
            p = path_avoiding(cfg, [e for e in cfg.succ[tests[0].id] if e.kind == 'T'], {loop.id, cfg.exit_return}, avoid=joins)
            if p is not None:
                probs.append('a failed handshake does not lead to join() of the failed worker')
            # ... and that join waits as long as it takes: it is the statement that RAISES the worker's error; a timed
            # join returns silently when the failed process lingers, and start() goes on as if the worker were up
            onfail = reachable(cfg, [e.dst for e in cfg.succ[tests[0].id] if e.kind == 'T'], edge_ok=lambda ed: not ed.is_exc)
            for jn in sorted(joins & onfail):
                for c in calls_in(header_expr(cfg.nodes[jn])):
                    if method_of(c)[1] == 'join' and (c.args or c.keywords) and not (len(c.args) == 1 and is_none(c.args[0])):
                        after_j = reachable(cfg, [e.dst for e in cfg.succ[jn] if not e.is_exc], edge_ok=lambda ed: not ed.is_exc)
                        raises_after = any(isinstance(cfg.nodes[k].ast, ast.Raise) for k in after_j if loop.id in cfg.nodes[k].loops)
                        if not raises_after:
                            probs.append(f'L{cfg.nodes[jn].lineno}: `{norm_text(c)}` is a timed join of the worker whose __init__ failed: when the failed process has not gone by then, nothing is raised and start() records it as a running worker')
        # a worker is recorded as started only after its handshake arrived: a worker whose __init__ failed must
        # never sit in `self._workers` (the rollback joins that list; joining the failed worker re-raises its error
        # half-way through, leaving the list and the started flag in a state that poisons every later enter/exit)
        gets = {n.id for n in cfg.nodes if w_get(n)}
        recs = [n for n in cfg.nodes if header_expr(n) is not None and any(method_of(c)[1] == 'append' and dotted(method_of(c)[0]) == 'self._workers' for c in calls_in(header_expr(n)))]
        if not recs:
            probs.append('started workers are not recorded in self._workers')
        for rn in recs:
            if path_avoiding(cfg, [e for e in cfg.succ[loop.id] if e.kind == 'iter'], {rn.id}, avoid=gets) is not None:
                probs.append('a worker is recorded in `self._workers` before its handshake arrived: if its __init__ failed, the rollback joins it, is interrupted by its error and leaves it in the list — the servlet can no longer be stopped or entered again cleanly')
        ck.ob(rid, f, loop.ast.iter, not probs, '; '.join(probs) if probs else 'each iteration starts one worker, waits for exactly one handshake and only then records the worker; a None handshake joins the worker (raising its error)')
    # Worker.run: exactly one handshake put on both outcomes of __init__
    f = ck.repo.func(WORKER, 'Worker.run')
    sc = Scope(f)

    def extra(node, a):
        return {'Exception'} if any(dotted(c.func) == 'cls' for c in calls_in(a)) else set()

    cfg = build_cfg(f, ck.repo, make_fallible(sc, iters=set(), calls=set(), extra=extra))
    ck.analysed_func(f, cfg)
    startn = [n.id for n in cfg.nodes if header_expr(n) is not None and any(dotted(c.func) == 'obj.start' for c in calls_in(header_expr(n)))]

    def w_put(n: Node):
        a = header_expr(n)
        return sum(1 for c in calls_in(a) if method_of(c)[1] == 'put' and is_name(method_of(c)[0], 'q_out')) if a is not None else 0

    res = count_minmax(cfg, cfg.entry, w_put, stop=lambda nid: nid in startn, back='skip')
    bad = [f'{t}: {v}' for t, v in res.items() if v != (1, 1)]
    ck.ob(rid, f, (f.node.lineno, 'Worker.run handshake'), not bad and bool(startn), 'exactly one handshake is put on the output queue whether __init__ succeeds (the name) or fails (None, then re-raise)' if not bad else f'handshake puts per path are not exactly one: {bad}')


# ----------------------------------------------------------------------
def check_exit_order(ck: Checker, rid: str, s: server.Srv):
    f = s.exit
    sc = Scope(f)
    cfg = build_cfg(f, ck.repo, None)
    ck.analysed_func(f, cfg)
    stop = [n for n in cfg.nodes if header_expr(n) is not None and any(dotted(c.func) == 'self.servlet.stop' for c in calls_in(header_expr(n)))]
    ck.need(stop, f'{f.key}: servlet.stop() not called')
    ojoin = {n.id for n in cfg.nodes if header_expr(n) is not None and any(method_of(c)[1] == 'join' and (method_of(c)[0] is not None and sc.canon(method_of(c)[0]) == 'self._onboard_thread') for c in calls_in(header_expr(n)))}
    oput = {n.id for n in cfg.nodes if header_expr(n) is not None and any(method_of(c)[1] == 'put' and (method_of(c)[0] is not None and sc.canon(method_of(c)[0]) == 'self._input_buffer') and c.args and is_none(c.args[0]) for c in calls_in(header_expr(n)))}
    tests = [n for n in cfg.nodes if n.kind == 'test' and isinstance(n.ast, ast.Compare) and sc.canon(n.ast.left) == 'self._onboard_thread' and is_none(n.ast.comparators[0])]
    probs = []
    if not ojoin or not oput:
        probs.append('the onboarding thread is not ended (put(None)) and joined in the exit')
    else:
        def exists_edge(e):
            # when the onboarding thread exists: IsNot -> T, Is -> F
            for t in tests:
                if e.src == t.id:
                    want = 'T' if isinstance(t.ast.ops[0], ast.IsNot) else 'F'
                    return e.kind == want
            return True

        p = path_avoiding(cfg, [cfg.entry], {stop[0].id}, avoid=ojoin, edge_ok=exists_edge)
        if p is not None:
            probs.append('servlet.stop() runs before the onboarding thread has been drained and joined: the sentinel overtakes inputs still in the onboarding buffer, the workers exit, the onboarding thread blocks on the full input pipe and its join never returns')
        for j in ojoin:
            p2 = path_avoiding(cfg, [cfg.entry], {j}, avoid=oput)
            if p2 is not None:
                probs.append('the onboarding thread is joined before its end marker was put')
    gj = {n.id for n in cfg.nodes if header_expr(n) is not None and any(method_of(c)[1] == 'join' and (method_of(c)[0] is not None and sc.canon(method_of(c)[0]) == 'self._gather_thread') for c in calls_in(header_expr(n)))}
    if gj:
        p3 = path_avoiding(cfg, [cfg.entry], gj, avoid={stop[0].id})
        if p3 is not None:
            probs.append('the gather thread is joined before the servlet was stopped (its sentinel comes from the workers)')
    ck.ob(rid, f, stop[0].ast, not probs, '; '.join(probs) if probs else 'when an onboarding thread exists its buffer gets the end marker and it is joined before servlet.stop(); the gather thread is joined after')


# ----------------------------------------------------------------------
def _started_attrs(f: FuncInfo):
    """attributes of self that receive a started Thread/Process in f (direct assignment or append)."""
    out = {}
    locals_ = {}
    for n in walk_shallow_func(f.node):
        if isinstance(n, ast.Assign) and isinstance(n.value, ast.Call):
            d = (call_dotted(n.value) or '').split('.')[-1]
            if d in ('Thread', 'Process', 'SpawnProcess'):
                for t in n.targets:
                    if isinstance(t, ast.Name):
                        locals_[t.id] = n
                    elif isinstance(t, ast.Attribute) and is_name(t.value, 'self'):
                        out[t.attr] = ('attr', n)
    for n in walk_shallow_func(f.node):
        if isinstance(n, ast.Call):
            r, me = method_of(n)
            if me == 'append' and r is not None and isinstance(r, ast.Attribute) and is_name(r.value, 'self') and n.args and isinstance(n.args[0], ast.Name) and n.args[0].id in locals_:
                out[r.attr] = ('list', n)
        if isinstance(n, ast.Assign) and isinstance(n.value, ast.Name) and n.value.id in locals_:
            for t in n.targets:
                if isinstance(t, ast.Attribute) and is_name(t.value, 'self'):
                    out[t.attr] = ('attr', n)
    return out


def _joined_attrs(funcs):
    out = set()
    for g in funcs:
        for n in walk_shallow_func(g.node):
            if isinstance(n, ast.Call):
                r, me = method_of(n)
                if me == 'join' and r is not None and isinstance(r, ast.Attribute) and is_name(r.value, 'self'):
                    out.add(('attr', r.attr))
            if isinstance(n, ast.For) and isinstance(n.target, ast.Name):
                # `for w in self.X` / `list(self.X)` / `self.X[:]` / `reversed(self.X)` ...: every element is visited
                attrs = {x.attr for x in ast.walk(n.iter) if isinstance(x, ast.Attribute) and is_name(x.value, 'self') and iterates_all_of(n.iter, f'self.{x.attr}')}
                if attrs and any(isinstance(y, ast.Call) and method_of(y)[1] == 'join' and is_name(method_of(y)[0], n.target.id) for b in n.body for y in ast.walk(b)):
                    out.update(('list', a_) for a_ in attrs)
    return out


def check_pairing(ck: Checker, rid: str, mod):
    for cname in SIMPLE + COMPOUND:
        cls = mod.cls(cname)
        st, sp = cls.method('start'), cls.method('stop')
        started = _started_attrs(st)
        joined = _joined_attrs(self_closure(sp))
        probs = []
        for attr, (kind, node) in started.items():
            if (kind, attr) not in joined:
                probs.append(f'`self.{attr}` receives a started thread/process in start() but stop() does not join {"every element of " if kind == "list" else ""}it')
        if cname in COMPOUND:
            loops_ = [n for g in self_closure(sp) for n in walk_shallow_func(g.node) if isinstance(n, ast.For) and isinstance(n.target, ast.Name) and any(isinstance(y, ast.Call) and method_of(y)[1] == 'stop' and is_name(method_of(y)[0], n.target.id) for b in n.body for y in ast.walk(b))]
            members = [n for n in loops_ if dotted(n.iter) == 'self._servlets']
            if not loops_:
                probs.append('stop() does not stop the member servlets')
            elif not members:
                probs.append(f'stop() walks the members as `{norm_text(loops_[0].iter)}`, not in start order `self._servlets`: the end sentinel flows downstream, so an upstream member must be stopped first — otherwise it blocks writing into the pipe of a stage that is already gone and its join never returns')
        elif not started:
            probs.append('start() does not record the workers it starts')
        ck.ob(rid, sp, (sp.node.lineno, f'{cname}.stop'), not probs, '; '.join(probs) if probs else f'stop() joins {sorted(started)}' + (' and stops every member servlet' if cname in COMPOUND else ''))
    # servers
    enter = ck.repo.func(SERVER, '_enter_server')
    started = _started_attrs(enter)
    ck.need(len(started) >= 2, f'{enter.key}: helper threads not found')
    for name in server.SERVERS:
        s = server.discover(ck.repo, name)
        joined = _joined_attrs(self_closure(s.exit))
        miss = [a for a, (k, _) in started.items() if (k, a) not in joined]
        ck.ob(rid, s.exit, (s.exit.node.lineno, f'{name} exit'), not miss, f'the exit joins {sorted(started)}' if not miss else f'helper thread(s) {miss} started on entry are not joined on exit')
    # helper thread started inside a thread function is joined in its finally (Server._gather_output.notify)
    g = ck.repo.func(SERVER, 'Server._gather_output')
    sc = Scope(g)

    def extra(node, a):
        return {'Exception'} if any(method_of(c)[1] in ('get', 'pop', 'set_result', 'set_exception') for c in calls_in(a)) and node.loops else set()

    cfg = build_cfg(g, ck.repo, make_fallible(sc, iters=set(), calls=set(), extra=extra))
    starts = [n for n in cfg.nodes if header_expr(n) is not None and any(method_of(c)[1] == 'start' for c in calls_in(header_expr(n)))]
    if starts:
        h = dotted(method_of([c for c in calls_in(header_expr(starts[0])) if method_of(c)[1] == 'start'][0])[0])
        joins = {n.id for n in cfg.nodes if header_expr(n) is not None and any(method_of(c)[1] == 'join' and dotted(method_of(c)[0]) == h for c in calls_in(header_expr(n)))}
        p = path_avoiding(cfg, cfg.normal_succ(starts[0].id), {cfg.exit_return, cfg.exit_raise}, avoid=joins)
        ck.ob(rid, g, starts[0].ast, p is None and bool(joins), f'the notification thread `{h}` is joined on every exit of the gather thread' if p is None and joins else f'the helper thread `{h}` is not joined on every exit', path=fmt_path(cfg, p) if p else '')


# ----------------------------------------------------------------------
def check_reenter(ck: Checker, rid: str, mod):
    for cname in SIMPLE + COMPOUND:
        cls = mod.cls(cname)
        st, sp = cls.method('start'), cls.method('stop')
        probs = []
        # flag asserted in start
        def asserts(f, negated):
            for n in walk_shallow_func(f.node):
                if isinstance(n, ast.Assert):
                    t = n.test
                    if negated and isinstance(t, ast.UnaryOp) and isinstance(t.op, ast.Not) and dotted(t.operand) == 'self._started':
                        return True
                    if not negated and dotted(t) == 'self._started':
                        return True
            return False

        if not asserts(st, True):
            probs.append('start() does not assert that the servlet is not started')
        # `_started = True` only after all launches: not in a loop, and nothing fallible follows it
        sc = Scope(st)
        cfg = build_cfg(st, ck.repo, _launch_fallible(sc))
        sets = [n for n in cfg.nodes if isinstance(n.ast, ast.Assign) and any(dotted(t) == 'self._started' for t in n.ast.targets)]
        if not sets or any(not (isinstance(n.ast.value, ast.Constant) and n.ast.value.value is True) for n in sets):
            probs.append('start() does not set the started flag to True')
        for n in sets:
            if n.loops:
                probs.append('the started flag is set inside the launch loop')
            if cfg.exit_raise in reachable(cfg, [n.id]):
                probs.append('start() can still fail after the started flag was set: a rolled-back start leaves the flag on and the servlet cannot be entered again')
        # reset on every normal path of stop (through self calls)
        scfg = build_cfg(sp, ck.repo, None)
        resets = {n.id for n in scfg.nodes if isinstance(n.ast, ast.Assign) and any(dotted(t) == 'self._started' for t in n.ast.targets) and isinstance(n.ast.value, ast.Constant) and n.ast.value.value is False}
        p = path_avoiding(scfg, [scfg.entry], {scfg.exit_return}, avoid=resets)
        if p is not None or not resets:
            probs.append('a normal path through stop() leaves the started flag set')
        # per-run state not created in __init__: no queue constructors there
        init = cls.method('__init__')
        qc = [n for n in walk_shallow_func(init.node) if isinstance(n, ast.Call) and (call_dotted(n) or '').split('.')[-1] in ('_SimpleThreadQueue', '_SimpleProcessQueue', 'SimpleQueue', 'Queue')]
        if qc:
            probs.append('queues are created in __init__ (they would carry leftovers into the next run)')
        # worker list emptied / per-run containers reset in stop
        if cname in SIMPLE:
            clos = self_closure(sp)
            if not any(isinstance(n, ast.Assign) and any(dotted(t) == 'self._workers' for t in n.targets) and isinstance(n.value, ast.List) and not n.value.elts for g in clos for n in walk_shallow_func(g.node)):
                probs.append('stop() does not empty `self._workers`: a second start() would append to the old list and a later stop() would join dead workers')
        ck.ob(rid, st, (st.node.lineno, f'{cname} re-entry'), not probs, '; '.join(sorted(set(probs))) if probs else 'started flag asserted, set only after the last launch, reset by stop(); per-run state created at start time')
    # servers: per-run queues/threads created in _enter_server / __enter__, ledger survives only if empty
    for name in server.SERVERS:
        cls = ck.repo.cls(SERVER, name)
        init = cls.method('__init__')
        qc = [n for n in walk_shallow_func(init.node) if isinstance(n, ast.Call) and (call_dotted(n) or '').split('.')[-1] in ('_SimpleThreadQueue', '_SimpleProcessQueue', 'SimpleQueue', 'Queue', 'Condition', 'Thread')]
        ck.ob(rid, init, (init.node.lineno, f'{name}.__init__'), not qc, 'queues, condition and helper threads are created on entry, not in __init__' if not qc else f'per-run objects created in __init__: {[norm_text(n)[:30] for n in qc]}')


# ----------------------------------------------------------------------
# function -> canonical names of the queues that must receive the sentinel on the sentinel branch
# ('*X' = every element of the list X, via a for loop)
SENTINEL_TABLE = [
    (WORKER, 'Worker._start_single.get_input', {'q_in', 'q_out'}, 'fellow workers share q_in; downstream reads q_out'),
    (WORKER, 'Worker._start_batch.get_input', {'q_in', 'q_out'}, 'fellow workers share q_in; downstream reads q_out'),
    (WORKER, 'Worker._build_input_batches', {'self._batch_buffer', 'q_in', 'q_out'}, 'the batch consumer, fellow workers, downstream'),
    (SERVLET, 'EnsembleServlet._enqueue', {'*self._qins'}, 'every member input queue'),
    (SERVLET, 'EnsembleServlet._dequeue', {'self._qout'}, 'downstream'),
    (SERVLET, 'SwitchServlet._enqueue', {'*self._qins'}, 'every member input queue'),
    (SERVER, '_enter_server._onboard_input', {'self._q_in'}, 'the servlet input queue'),
    (SERVER, 'Server._gather_output', {'q_notify'}, 'the notification helper thread'),
    (SERVER, 'Server._gather_output.notify', set(), 'nothing downstream'),
    (SERVER, 'AsyncServer._gather_output', set(), 'nothing downstream'),
]
SOURCES = ('self._get_input_batch',)


def check_sentinels(ck: Checker, rid: str):
    for rel, qual, required, why in SENTINEL_TABLE:
        f = ck.repo.func(rel, qual)
        sc = Scope(f)
        # closure names resolve through the enclosing function too
        outer = Scope(f.parent) if isinstance(f.parent, FuncInfo) else None

        def canon(e, sc=sc, outer=outer):
            c = sc.canon(e)
            if c and outer is not None:
                c2 = outer.canon(c)
                return c2 or c
            return c

        cfg = build_cfg(f, ck.repo, None, gen_throw=False)
        ck.analysed_func(f, cfg)
        # the dequeue and its None test
        gets = [n for n in cfg.nodes if isinstance(n.ast, ast.Assign) and isinstance(n.ast.targets[0], ast.Name) and isinstance(unwrap_await(n.ast.value), ast.Call) and (method_of(unwrap_await(n.ast.value))[1] == 'get' or dotted(unwrap_await(n.ast.value).func) in SOURCES) and n.loops]
        ck.need(gets, f'{f.key}: no dequeue in a service loop')
        done = False
        for g in gets:
            var = g.ast.targets[0].id
            tests = [n for n in cfg.nodes if n.kind == 'test' and isinstance(n.ast, ast.Compare) and is_name(n.ast.left, var) and isinstance(n.ast.ops[0], (ast.Is, ast.IsNot)) and is_none(n.ast.comparators[0]) and n.loops]
            if not tests:
                continue
            done = True
            t = tests[0]
            loop_id = g.loops[0]
            sent_edges = [e for e in cfg.succ[t.id] if e.kind == ('T' if isinstance(t.ast.ops[0], ast.Is) else 'F')]
            probs = []
            # (a) terminates: the dequeue is not reached again from the sentinel branch
            p = path_avoiding(cfg, sent_edges, {k.id for k in gets})
            if p is not None:
                probs.append('after the sentinel the loop goes on dequeuing')
            # (b) forwards
            def puts_on(q):
                ids = set()
                for n in cfg.nodes:
                    a = header_expr(n)
                    if a is None:
                        continue
                    for c in calls_in(a):
                        r, me = method_of(c)
                        if me != 'put' or r is None or not c.args:
                            continue
                        arg = c.args[0]
                        if not (is_name(arg, var) or is_none(arg)):
                            continue
                        if q.startswith('*'):
                            # for qv in <list>: qv.put(sentinel)
                            if isinstance(r, ast.Name):
                                for h in n.loops:
                                    hn = cfg.nodes[h]
                                    if hn.kind == 'for' and is_name(hn.ast.target, r.id) and canon(hn.ast.iter) == q[1:]:
                                        ids.add(n.id)
                                        ids.add(hn.id)  # the loop as a whole forwards to every element
                        elif canon(r) == q:
                            ids.add(n.id)
                return ids

            # puts that happen *before* the None test on every iteration also count (put-then-test idiom)
            exits_ = {cfg.exit_return, cfg.exit_raise}
            for q in sorted(required):
                pn = puts_on(q)
                pre = {n for n in pn if n in reachable(cfg, [g.id]) and t.id in reachable(cfg, [n]) and path_avoiding(cfg, cfg.normal_succ(g.id), {t.id}, avoid={n}) is None}
                if pre:
                    continue
                p = path_avoiding(cfg, sent_edges, exits_, avoid=pn)
                if p is not None:
                    probs.append(f'the sentinel is not forwarded to `{q}` ({why}) on every path: whoever reads that queue never stops')
            ck.ob(rid, f, t.ast, not probs, '; '.join(probs) if probs else f'on the sentinel: forwards it to {sorted(required) or "nothing (none required)"} and leaves the loop')
            break
        ck.need(done, f'{f.key}: the dequeued value is never tested `is None`')


def check_guarded_after_handshake(ck: Checker, rid: str):
    mod = ck.repo.module(WORKER)
    # (a) Worker.run: after the successful handshake the only thing left is the call of start()
    run_ = mod.func('Worker.run')

    def any_call(node):
        a = header_expr(node)
        return {'Exception'} if a is not None and any(not benign_call(c) for c in calls_in(a)) else set()

    cfg = build_cfg(run_, ck.repo, any_call)
    ck.analysed_func(run_, cfg)
    puts = [n for n in cfg.nodes if header_expr(n) is not None and any(method_of(c)[1] == 'put' and c.args and not is_none(c.args[0]) for c in calls_in(header_expr(n)))]
    ck.need(puts, f'{run_.key}: the handshake put of a successful initialisation was not found')
    hs = puts[-1]
    after = [cfg.nodes[i] for i in reachable(cfg, [e.dst for e in cfg.normal_succ(hs.id)]) if i not in (cfg.exit_return, cfg.exit_raise)]
    calls_after = [n for n in after if header_expr(n) is not None and any(not benign_call(c) for c in calls_in(header_expr(n)))]
    ok = len(calls_after) == 1 and any(method_of(c)[1] == 'start' for c in calls_in(header_expr(calls_after[0])))
    ck.ob(rid, run_, hs.ast, ok, 'after the handshake Worker.run only calls start()' if ok else f'after the handshake Worker.run executes {[norm_text(n.ast)[:40] for n in calls_after]}: a failure there is not reported to the servlet that is waiting in start()')
    # (b) Worker.start: every call outside the handlers is inside the try whose handlers broadcast the sentinel
    st = mod.func('Worker.start')
    cfg = build_cfg(st, ck.repo, any_call)
    ck.analysed_func(st, cfg)
    handlers = [n for n in cfg.nodes if n.kind == 'except']
    ck.need(handlers, f'{st.key}: no exception handler')
    in_handlers = set()
    for h in handlers:
        in_handlers |= reachable(cfg, [h.id])
    probs = []
    guarded = {n.id for n in cfg.nodes if any(e.kind == 'exc' and cfg.nodes[e.dst].kind == 'except' for e in cfg.succ[n.id])}
    for n in cfg.nodes:
        if n.id in in_handlers or n.pending is not None or header_expr(n) is None or not any(not benign_call(c) for c in calls_in(header_expr(n))):
            continue
        if n.id not in reachable(cfg, [cfg.entry], edge_ok=lambda e: not e.is_exc):
            continue
        # set-up steps: calls from which the guarded service loops are still to come (what runs after the loops ended
        # normally -- the final cleanup -- is tear-down, the sentinel has been forwarded by then)
        if not (reachable(cfg, [e.dst for e in cfg.normal_succ(n.id)], edge_ok=lambda e: not e.is_exc) & guarded):
            continue
        for e in cfg.succ[n.id]:
            if e.kind == 'exc' and cfg.nodes[e.dst].kind != 'except':
                probs.append(f'L{n.lineno}: `{norm_text(n.ast)[:50]}` runs outside the guarded region of start(): if it fails, the worker dies after it has reported a successful start — no sentinel is broadcast, __enter__ has already returned (or returns) normally, and the error only surfaces at exit')
    # the catch-all handler forwards the sentinel on both queues and re-raises
    ca = [h for h in handlers if h.ast.type is not None and 'BaseException' in norm_text(h.ast.type)]
    if not ca:
        probs.append('start() has no catch-all handler')
    else:
        body = [cfg.nodes[i] for i in reachable(cfg, [ca[0].id])]
        nput = sum(1 for k in body if header_expr(k) is not None and any(method_of(c)[1] == 'put' and c.args and is_none(c.args[0]) for c in calls_in(header_expr(k))))
        if nput < 2:
            probs.append('the catch-all handler of start() does not put the end sentinel on both queues')
    ck.ob(rid, st, (st.node.lineno, 'guarded region'), not probs, '; '.join(sorted(set(probs))) if probs else 'every call of start() lies inside the try whose handlers broadcast the end sentinel (and re-raise)')
