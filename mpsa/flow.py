"""Generic path / dataflow utilities over mpsa.cfg.CFG."""

from __future__ import annotations

import ast
from collections import deque

from .cfg import CFG, Edge, Node, walk_shallow

INF = float('inf')


# ----------------------------------------------------------------------
# reachability
def reachable(cfg: CFG, starts, *, avoid=(), edge_ok=None, forward=True):
    """Nodes reachable from `starts` (node ids) without entering `avoid` nodes.

    `starts` themselves are included even if in `avoid`, but are not expanded when in avoid
    unless they are the only way (callers pass successors when they want to skip the start).
    """
    avoid = set(avoid)
    seen = set()
    dq = deque()
    for s in starts:
        if s not in seen:
            seen.add(s)
            dq.append(s)
    adj = cfg.succ if forward else cfg.pred
    while dq:
        n = dq.popleft()
        for e in adj[n]:
            if edge_ok and not edge_ok(e):
                continue
            m = e.dst if forward else e.src
            if m in seen or m in avoid:
                continue
            seen.add(m)
            dq.append(m)
    return seen


def path_avoiding(cfg: CFG, src_edges, targets, *, avoid=(), edge_ok=None):
    """A witness path (list of node ids) from the destination of one of `src_edges`
    (or from node ids) to a node in `targets` that does not pass through `avoid`.
    None if there is none.  Used by MUSTPASS: `avoid` = the nodes that must be passed."""
    avoid = set(avoid)
    targets = set(targets)
    starts = []
    for s in src_edges:
        if isinstance(s, Edge):
            if edge_ok and not edge_ok(s):
                continue
            starts.append(s.dst)
        else:
            starts.append(s)
    prev = {}
    dq = deque()
    for s in starts:
        if s in avoid and s not in targets:
            continue
        if s not in prev:
            prev[s] = None
            dq.append(s)
    while dq:
        n = dq.popleft()
        if n in targets:
            path = []
            while n is not None:
                path.append(n)
                n = prev[n]
            return list(reversed(path))
        for e in cfg.succ[n]:
            if edge_ok and not edge_ok(e):
                continue
            m = e.dst
            if m in prev:
                continue
            if m in avoid and m not in targets:
                continue
            prev[m] = n
            dq.append(m)
    return None


def fmt_path(cfg: CFG, path, limit=12):
    if not path:
        return ''
    items = []
    for nid in path:
        n = cfg.nodes[nid]
        if n.kind in ('entry',):
            items.append('entry')
        elif n.kind.startswith('exit'):
            items.append(n.kind)
        else:
            items.append(f'L{n.lineno}')
    # collapse repeats
    out = []
    for it in items:
        if not out or out[-1] != it:
            out.append(it)
    if len(out) > limit:
        out = out[: limit // 2] + ['…'] + out[-limit // 2 :]
    return ' → '.join(out)


# ----------------------------------------------------------------------
# dominators (forward), on the graph restricted by edge_ok
def dominators(cfg: CFG, *, edge_ok=None, entry=None):
    entry = cfg.entry if entry is None else entry
    nodes = reachable(cfg, [entry], edge_ok=edge_ok)
    dom = {n: set(nodes) for n in nodes}
    dom[entry] = {entry}
    changed = True
    order = sorted(nodes)
    while changed:
        changed = False
        for n in order:
            if n == entry:
                continue
            ps = [e.src for e in cfg.pred[n] if e.src in nodes and (not edge_ok or edge_ok(e))]
            if not ps:
                continue
            new = set.intersection(*[dom[p] for p in ps]) | {n}
            if new != dom[n]:
                dom[n] = new
                changed = True
    return dom


# ----------------------------------------------------------------------
# generic forward dataflow
def forward(cfg: CFG, init, transfer, join, *, entry=None, edge_ok=None, max_iter=10000):
    """Worklist forward analysis.

    transfer(edge, state_at_src_entry) -> state flowing along the edge, or None if infeasible.
    (The transfer sees the edge so that effects can be applied on normal edges only and
    branch conditions can refine.)
    join(a, b) -> joined state.  States must support ==.
    Returns dict node_id -> state at node entry (absent = unreachable).
    """
    entry = cfg.entry if entry is None else entry
    state = {entry: init}
    wl = deque([entry])
    it = 0
    while wl:
        it += 1
        if it > max_iter:
            raise RuntimeError('dataflow did not converge')
        n = wl.popleft()
        s = state[n]
        for e in cfg.succ[n]:
            if edge_ok and not edge_ok(e):
                continue
            out = transfer(e, s)
            if out is None:
                continue
            if e.dst in state:
                j = join(state[e.dst], out)
                if j == state[e.dst]:
                    continue
                state[e.dst] = j
            else:
                state[e.dst] = out
            wl.append(e.dst)
    return state


# ----------------------------------------------------------------------
# assignments
def assigned_names(stmt_or_node) -> set[str]:
    """Local names bound by a CFG node's own statement (not nested bodies)."""
    node = stmt_or_node
    a = node.ast if isinstance(node, Node) else node
    kind = node.kind if isinstance(node, Node) else 'stmt'
    out = set()
    if a is None:
        return out
    if kind == 'for':
        for t in walk_shallow(a.target):
            if isinstance(t, ast.Name):
                out.add(t.id)
        return out
    if kind == 'with_enter':
        if a.optional_vars is not None:
            for t in walk_shallow(a.optional_vars):
                if isinstance(t, ast.Name):
                    out.add(t.id)
        return out
    if kind == 'except':
        if a.name:
            out.add(a.name)
        return out
    if kind in ('with_exit', 'finally', 'test'):
        # walrus in tests
        for t in walk_shallow(a) if kind == 'test' else ():
            if isinstance(t, ast.NamedExpr) and isinstance(t.target, ast.Name):
                out.add(t.target.id)
        return out
    if isinstance(a, (ast.FunctionDef, ast.AsyncFunctionDef, ast.ClassDef)):
        out.add(a.name)
        return out
    if isinstance(a, ast.Assign):
        for tgt in a.targets:
            for t in walk_shallow(tgt):
                if isinstance(t, ast.Name) and isinstance(t.ctx, ast.Store):
                    out.add(t.id)
    elif isinstance(a, (ast.AugAssign, ast.AnnAssign)):
        if isinstance(a.target, ast.Name) and (not isinstance(a, ast.AnnAssign) or a.value is not None):
            out.add(a.target.id)
    elif isinstance(a, (ast.Import, ast.ImportFrom)):
        for al in a.names:
            out.add((al.asname or al.name).split('.')[0])
    for t in walk_shallow(a):
        if isinstance(t, ast.NamedExpr) and isinstance(t.target, ast.Name):
            out.add(t.target.id)
    return out


def definitely_assigned(cfg: CFG, *, start, start_state=frozenset(), cut_back_edges_to=None, edge_ok=None):
    """Must-analysis: names definitely assigned at each node's entry on every path from `start`.

    `cut_back_edges_to`: a loop header id -- back edges into it are ignored, so the
    result answers "assigned in *this* iteration" when start = that header.
    An assignment in a statement that raised did not happen (exc edges carry the pre-state);
    an `except ... as e` binds e at the handler node.
    """

    def transfer(e: Edge, s):
        if cut_back_edges_to is not None and e.dst == cut_back_edges_to and (e.src, e.dst) in cfg.back_edges:
            return None
        n = cfg.nodes[e.src]
        if e.kind == 'exc':
            return s
        if n.kind == 'for' and e.kind != 'iter':
            return s
        names = assigned_names(n)
        return s | names if names else s

    def ok(e):
        return edge_ok(e) if edge_ok else True

    return forward(cfg, frozenset(start_state), transfer, lambda a, b: a & b, entry=start, edge_ok=ok)


def reaching_defs(cfg: CFG, var: str, *, start, cut_back_edges_to=None):
    """May-analysis: set of node ids whose assignment to `var` may reach each node entry."""

    def transfer(e: Edge, s):
        if cut_back_edges_to is not None and e.dst == cut_back_edges_to and (e.src, e.dst) in cfg.back_edges:
            return None
        n = cfg.nodes[e.src]
        if e.kind == 'exc':
            return s
        if n.kind == 'for' and e.kind != 'iter':
            return s
        if var in assigned_names(n):
            return frozenset({n.id})
        return s

    return forward(cfg, frozenset(), transfer, lambda a, b: a | b, entry=start)


# ----------------------------------------------------------------------
# counting events on paths
def count_minmax(cfg: CFG, start, weight, *, stop=None, edge_ok=None, count_on_exc=None, start_edges=None, back='terminal'):
    """Min and max number of events on any path from `start` to each terminal.

    weight(node) -> int : events performed by the node; counted on its *normal*
    out-edges (and on exc edges too when count_on_exc(node) is true, e.g. yields).
    Back edges are cut (per-iteration / acyclic reading).  `stop(node_id)` true =>
    the path ends when *reaching* that node (its own weight is not counted).
    A path also ends at the exit nodes and where a back edge was cut.
    back='skip': whole-function reading -- back edges are not terminals; loops without counted
    events are collapsed, loops with counted events yield a ('loop', header) terminal with max INF.
    Returns dict terminal -> (min, max) where terminal is
    ('node', id) for a stop/exit node or ('back', src, dst) for a cut back edge.
    If an uncut cycle carries events the max is INF.
    """
    res: dict = {}
    # DFS over acyclic graph (back edges cut); memoise per node: dict terminal -> (min,max)
    memo: dict[int, dict] = {}
    onstack = set()

    def merge(into, term, lo, hi):
        if term in into:
            a, b = into[term]
            into[term] = (min(a, lo), max(b, hi))
        else:
            into[term] = (lo, hi)

    def go(n, is_start=False):
        if not is_start and ((stop and stop(n)) or n in (cfg.exit_return, cfg.exit_raise)):
            return {('node', n): (0, 0)}
        if n in memo:
            return memo[n]
        if n in onstack:
            return {('cycle', n): (0, 0)}
        onstack.add(n)
        out: dict = {}
        node = cfg.nodes[n]
        w = weight(node)
        edges = cfg.succ[n]
        if is_start and start_edges is not None:
            edges = [e for e in edges if start_edges(e)]
        for e in edges:
            if edge_ok and not edge_ok(e):
                continue
            add = w if (e.kind != 'exc' or (count_on_exc and count_on_exc(node))) else 0
            if (e.src, e.dst) in cfg.back_edges:
                if back == 'skip':
                    # whole-function reading: a loop is collapsed unless a counted event can be
                    # followed by this back edge (then the event can repeat: count unbounded)
                    if _event_reaches_back_edge(cfg, e, weight, count_on_exc):
                        merge(out, ('loop', e.dst), add, INF)
                    continue
                merge(out, ('back', e.src, e.dst), add, add)
                continue
            sub = go(e.dst)
            for term, (lo, hi) in sub.items():
                if term[0] == 'cycle':
                    # irreducible leftovers: treat conservatively
                    merge(out, term, lo + add, INF if (hi or add) else 0)
                else:
                    merge(out, term, lo + add, hi + add)
        onstack.discard(n)
        memo[n] = out
        return out

    return go(start, is_start=True)


def _event_reaches_back_edge(cfg, be, weight, count_on_exc):
    hdr = be.dst
    body = {k.id for k in cfg.nodes if hdr in k.loops} | {hdr}
    for k in body:
        node = cfg.nodes[k]
        if not weight(node):
            continue
        for e in cfg.succ[k]:
            if e.kind == 'exc' and not (count_on_exc and count_on_exc(node)):
                continue  # the event did not happen on this edge
            if e is be or (e.src == be.src and e.dst == be.dst):
                return True
            if e.dst not in body or e.dst == hdr:
                continue
            seen = reachable(cfg, [e.dst], avoid={hdr}, edge_ok=lambda x: x.dst in body)
            if be.src in seen:
                return True
    return False


# ----------------------------------------------------------------------
# path enumeration (bounded) -- used by the thorough tier and by evidence samples
def enumerate_paths(cfg: CFG, start, *, stop=None, edge_ok=None, max_paths=5000, loop_unroll=1):
    """Enumerate paths from start to exits/stops.  Each loop back edge is taken at most
    `loop_unroll` times per path.  Returns list of lists of Edge."""
    out = []
    stack = [(start, [], {})]
    while stack and len(out) < max_paths:
        n, path, used = stack.pop()
        if path and ((stop and stop(n)) or n in (cfg.exit_return, cfg.exit_raise)):
            out.append(path)
            continue
        succ = [e for e in cfg.succ[n] if not edge_ok or edge_ok(e)]
        if not succ:
            out.append(path)
            continue
        for e in succ:
            key = (e.src, e.dst)
            u = used
            if key in cfg.back_edges:
                c = used.get(key, 0)
                if c >= loop_unroll:
                    out.append(path + [e])  # the path ends where the next iteration would begin
                    continue
                u = dict(used)
                u[key] = c + 1
            stack.append((e.dst, path + [e], u))
    return out


# ----------------------------------------------------------------------
# lock sets (HELD)
def held_locks(cfg: CFG, canon, *, is_lock=None, mode='must'):
    """Canonical names of locks/conditions held at each node's entry: definitely (mode='must')
    or possibly (mode='may', used to find a lock still held at an exit).

    * `with L:` / `async with L:` adds L between with_enter and with_exit;
    * `L.acquire()` as an expression statement (untimed) adds L;
    * `ok = L.acquire(timeout=..)` makes `ok` a witness: on the true branch of a test of `ok`
      (or the false branch of `not ok`) L is held; `if not L.acquire(...): <leave>` likewise;
    * `L.release()` drops L.
    State: frozenset of ('L', name) and ('W', var, name) facts.
    """

    def lockname(e):
        c = canon(e)
        if c is None:
            return None
        if is_lock is not None and not is_lock(c):
            return None
        return c

    def acquire_call(e):
        e = e.value if isinstance(e, ast.Await) else e
        if isinstance(e, ast.Call) and isinstance(e.func, ast.Attribute) and e.func.attr == 'acquire':
            return lockname(e.func.value)
        return None

    def transfer(e: Edge, s):
        n = cfg.nodes[e.src]
        a = n.ast
        if e.kind == 'exc':
            return s
        if n.kind == 'with_enter':
            ln = lockname(a.context_expr)
            return s | {('L', ln)} if ln else s
        if n.kind == 'with_exit':
            ln = lockname(a.context_expr)
            return frozenset(x for x in s if x != ('L', ln)) if ln else s
        if n.kind == 'stmt':
            if isinstance(a, ast.Expr):
                ln = acquire_call(a.value)
                if ln:
                    return s | {('L', ln)}
                v = a.value.value if isinstance(a.value, ast.Await) else a.value
                if isinstance(v, ast.Call) and isinstance(v.func, ast.Attribute) and v.func.attr == 'release':
                    ln = lockname(v.func.value)
                    if ln:
                        return frozenset(x for x in s if x != ('L', ln) and not (x[0] == 'W' and x[2] == ln))
            if isinstance(a, ast.Assign) and len(a.targets) == 1 and isinstance(a.targets[0], ast.Name):
                ln = acquire_call(a.value)
                var = a.targets[0].id
                s = frozenset(x for x in s if not (x[0] == 'W' and x[1] == var))
                if ln:
                    return s | {('W', var, ln)}
            return s
        if n.kind == 'test':
            t = a
            neg = False
            while isinstance(t, ast.UnaryOp) and isinstance(t.op, ast.Not):
                neg = not neg
                t = t.operand
            holds_on = 'F' if neg else 'T'
            if isinstance(t, ast.Name):
                for x in s:
                    if x[0] == 'W' and x[1] == t.id and e.kind == holds_on:
                        return s | {('L', x[2])}
            ln = acquire_call(t)
            if ln and e.kind == holds_on:
                return s | {('L', ln)}
            return s
        return s

    join = (lambda x, y: x & y) if mode == 'must' else (lambda x, y: x | y)
    st = forward(cfg, frozenset(), transfer, join)
    return {k: frozenset(x[1] for x in v if x[0] == 'L') for k, v in st.items()}
