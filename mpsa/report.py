"""Obligations, findings, evidence files, known findings, exit codes."""

from __future__ import annotations

import ast
import hashlib
import json
import os
import time
from dataclasses import asdict, dataclass, field
from pathlib import Path

from .loader import AnchorError, FuncInfo, Repo, norm_text

VERIF = Path(__file__).resolve().parent.parent
KNOWN_FILE = VERIF / 'known_findings.txt'


class AnalysisError(Exception):
    """The checker itself cannot give a verdict (blind): exit 2, never a pass."""


@dataclass
class Obligation:
    rule: str
    func: str  # module::qualname
    where: str  # file:line
    construct: str  # normalised text of the construct the obligation is about
    ok: bool
    detail: str
    path: str = ''
    nontrivial: bool = True

    @property
    def key(self):
        return f'{self.rule}|{self.func}|{self.construct}'


class Checker:
    """Collects obligations for one property."""

    def __init__(self, prop: str, repo: Repo, tier='quick'):
        self.prop = prop
        self.repo = repo
        self.tier = tier
        self.obs: list[Obligation] = []
        self.analysed: dict[str, dict] = {}
        self.rules: dict[str, str] = {}
        self.minimum: dict[str, int] = {}
        self.notes: list[str] = []
        self.paths_examined = 0
        self._alias = None

    # -- declaring rules -------------------------------------------------
    def rule(self, rid: str, text: str, minimum: int = 1):
        if self._alias is not None:
            return  # rules of another property run under one rule of this property (see as_rule)
        self.rules[rid] = text
        self.minimum[rid] = minimum

    def as_rule(self, rid: str, text: str, minimum: int = 1):
        """Context manager: run rule code written for another property and record its obligations under the single
        rule `rid` of this property (the original rule id is kept as a prefix of the obligation's detail).  Used where
        one mechanism carries clauses of several properties."""
        from contextlib import contextmanager

        @contextmanager
        def cm():
            if self._alias is not None:
                # nested: everything stays under the outermost rule
                yield self
                return
            self.rule(rid, text, minimum)
            prev, self._alias = self._alias, rid
            try:
                yield self
            finally:
                self._alias = prev

        return cm()

    def analysed_func(self, f: FuncInfo, cfg=None):
        d = self.analysed.setdefault(f.key, {'where': f.where})
        if cfg is not None:
            d['cfg_nodes'] = len(cfg.nodes)
            d['cfg_edges'] = sum(len(v) for v in cfg.succ.values())

    # -- recording obligations ------------------------------------------
    def ob(self, rule, f: FuncInfo | str, node, ok, detail, path='', nontrivial=True):
        if self._alias is not None:
            detail = f'[{rule}] {detail}'
            rule = self._alias
        if rule not in self.rules:
            raise AnalysisError(f'rule {rule} used but not declared')
        if isinstance(f, FuncInfo):
            fk = f.key
            rel = f.module.rel
            self.analysed_func(f)
        else:
            fk = f
            rel = f.split('::')[0]
        if isinstance(node, ast.AST):
            line = getattr(node, 'lineno', 0)
            construct = norm_text(node)[:160]
        elif isinstance(node, tuple):
            line, construct = node
        else:
            line, construct = 0, str(node)
        o = Obligation(rule, fk, f'{rel}:{line}', construct, bool(ok), detail, path, nontrivial)
        self.obs.append(o)
        return o

    def need(self, cond, msg):
        if not cond:
            raise AnchorError(msg)

    # -- summary ----------------------------------------------------------
    def check_minimums(self):
        counts = {}
        for o in self.obs:
            counts[o.rule] = counts.get(o.rule, 0) + 1
        blind = [
            f'rule {rid} found {counts.get(rid, 0)} instance(s), fewer than the {m} confirmed by hand: the check is blind'
            for rid, m in self.minimum.items()
            if counts.get(rid, 0) < m
        ]
        if blind and all(o.ok for o in self.obs):
            # nothing was found wrong, but part of the code was not seen: no verdict
            raise AnalysisError('; '.join(blind))
        # with violations in hand they are reported (a violated site often makes dependent
        # obligations disappear); the shortfall is recorded in the notes
        self.notes.extend(blind)
        return counts


def path_census(ck: 'Checker'):
    """Thorough tier: enumerate the CFG paths (loops unrolled once, bounded) of every anchored function."""
    from .cfg import CFG
    from .exc import ExcLattice
    from .flow import enumerate_paths

    lat = ExcLattice(ck.repo)
    total = 0
    per = {}
    for key in sorted(ck.analysed):
        rel, qual = key.split('::')
        try:
            f = ck.repo.modules[rel].functions[qual]
        except KeyError:
            continue
        cfg = CFG(f.node, lat, None)
        paths = enumerate_paths(cfg, cfg.entry, loop_unroll=1, max_paths=5000)
        per[key] = len(paths)
        total += len(paths)
    return {'paths_enumerated': total, 'paths_per_function': per}


# ----------------------------------------------------------------------
def load_known():
    known, fixed = [], []
    if not KNOWN_FILE.exists():
        return known, fixed
    for line in KNOWN_FILE.read_text().splitlines():
        line = line.strip()
        if not line or line.startswith('#'):
            continue
        if line.startswith('known:'):
            parts = [p.strip() for p in line[len('known:') :].split(' :: ')]
            head = dict(kv.split('=', 1) for kv in parts[0].split() if '=' in kv)
            known.append(
                {
                    'property': head.get('property'),
                    'rule': head.get('rule'),
                    'key': parts[1] if len(parts) > 1 else '',
                    'what': parts[2] if len(parts) > 2 else '',
                }
            )
        elif line.startswith('fixed:'):
            fixed.append(line)
    return known, fixed


def run_check(prop: str, run_rules, *, tier='quick', replay=None, thorough_extra=None):
    """Driver shared by all properties.  Returns the process exit code."""
    t0 = time.time()
    seed = int(os.environ.get('VERIF_SEED', '0') or 0)
    scratch = bool(os.environ.get('MPSA_REPO'))
    evdir = Path(os.environ.get('MPSA_EVIDENCE_DIR') or (VERIF / 'evidence' if not scratch else '/tmp/mpsa-scratch-evidence'))
    evidence_path = evdir / f'{prop}.json'
    ck = None
    try:
        repo = Repo()
        ck = Checker(prop, repo, tier)
        extra = {}
        counts = {}
        for new_a, old_a in sorted(getattr(repo, 'classes_restored', {}).items()):
            msg = f'class `{old_a}` is not defined; `{new_a}` (same module, bases and members) is read as the renamed `{old_a}`'
            ck.notes.append(msg)
            print(f'  note: {msg}')
        for new_a, old_a in sorted(getattr(repo, 'attrs_restored', {}).items()):
            msg = f'attribute `{old_a}` occurs nowhere in the package; `{new_a}` (same stores, reads and functions in every module) is read as the renamed `{old_a}`'
            ck.notes.append(msg)
            print(f'  note: {msg}')
        for m in repo.modules.values():
            for new_q, old_q, sim in getattr(m, 'renamed', []):
                msg = f'{m.rel}: `{old_q}` is not defined; `{new_q}` (body similarity {sim}) is read as the renamed `{old_q}`'
                ck.notes.append(msg)
                print(f'  note: {msg}')
            for qn, where_ in getattr(m, 'moved', []):
                msg = f'{m.rel}: `{qn}` is not defined here; the definition found in {where_} is used (moved)'
                ck.notes.append(msg)
                print(f'  note: {msg}')
            for caller, helper, line in getattr(m, 'inlined', []):
                msg = f'{m.rel}: `{helper}` is not a function of the confirmed tree; its call at L{line} of `{caller}` is read in place (extracted helper)'
                ck.notes.append(msg)
                print(f'  note: {msg}')
            for q_, pairs_ in getattr(m, 'locals_restored', []):
                msg = f'{m.rel}: `{q_}`: renamed local(s) read under their recorded names: ' + ', '.join(f'{c}→{r}' for c, r in pairs_[:8]) + (' …' if len(pairs_) > 8 else '')
                ck.notes.append(msg)
                print(f'  note: {msg}')
            if getattr(m, 'mirrored', 0):
                msg = f'{m.rel}: {m.mirrored} symmetric comparison(s) written the other way round than in the confirmed tree are read in the recorded orientation'
                ck.notes.append(msg)
                print(f'  note: {msg}')
            if getattr(m, 'constants_read', 0):
                msg = f'{m.rel}: {m.constants_read} module-level constant(s) that the confirmed tree does not have are read as their literals'
                ck.notes.append(msg)
                print(f'  note: {msg}')
            if getattr(m, 'temps_inlined', 0):
                msg = f'{m.rel}: {m.temps_inlined} single-use temporar(ies) that the confirmed tree does not have are read in place'
                ck.notes.append(msg)
                print(f'  note: {msg}')
            if getattr(m, 'unaliased', 0):
                msg = f'{m.rel}: {m.unaliased} local alias(es) of attributes of self that the confirmed tree does not have are read as the attributes'
                ck.notes.append(msg)
                print(f'  note: {msg}')
        try:
            run_rules(ck)
        except AnchorError as e:
            # a construct a later rule needs has vanished.  If obligations decided before that point already failed,
            # they are the news (a violated site often takes dependent anchors with it) and are reported as violations;
            # the vanished anchor goes into the notes.  With nothing failed the run is analysis-broken.
            if not any(not o.ok for o in ck.obs):
                raise
            ck.notes.append(f'analysis stopped early: {e}')
            for o in ck.obs:
                counts[o.rule] = counts.get(o.rule, 0) + 1
            print(f'  note: analysis stopped early ({e}); reporting the {sum(1 for o in ck.obs if not o.ok)} obligation(s) that failed before that point')
        else:
            for m in repo.modules.values():
                for qn, where_ in getattr(m, 'moved', []):
                    msg = f'{m.rel}: `{qn}` is not defined here; the definition found in {where_} is used (moved)'
                    if msg not in ck.notes:
                        ck.notes.append(msg)
                        print(f'  note: {msg}')
            counts = ck.check_minimums()
            if tier == 'thorough':
                extra = path_census(ck)
                if thorough_extra is not None:
                    extra.update(thorough_extra(ck) or {})
    except (AnchorError, AnalysisError) as e:
        print(f'ANALYSIS-ERROR property={prop} {type(e).__name__}: {e}')
        return 2
    except Exception as e:  # noqa: BLE001
        import traceback

        traceback.print_exc()
        print(f'ANALYSIS-ERROR property={prop} internal error: {type(e).__name__}: {e}')
        return 2

    known, fixed = load_known()
    known = [k for k in known if k['property'] == prop]
    failed = [o for o in ck.obs if not o.ok]
    known_hits, violations = [], []
    for o in failed:
        k = next((k for k in known if k['rule'] == o.rule and k['key'] == f'{o.func}|{o.construct}'), None)
        if k is not None:
            known_hits.append((o, k))
        else:
            violations.append(o)

    if tier == 'thorough' and not replay and not violations and not os.environ.get('MPSA_NO_SELFTEST'):
        # the self-test says whether the checker itself can be believed on this tree: mutants of this property
        # must be reported, equivalent rewrites must stay silent.  Skipped when the tree already violates the
        # property (then the violation is the news).
        try:
            from selftest.engine import thorough_for

            summary, failed_variants = thorough_for(prop, seed)
        except Exception as e:  # noqa: BLE001
            print(f'ANALYSIS-ERROR property={prop} self-test could not run: {type(e).__name__}: {e}')
            return 2
        extra.update(summary)
        try:
            from selftest.engine import seeds_for

            keep_env = os.environ.get('MPSA_REPO')
            ssum, sfailed = seeds_for(prop)
            if keep_env is not None:
                os.environ['MPSA_REPO'] = keep_env
            extra.update(ssum)
            failed_variants = list(failed_variants) + sfailed
            print(f'  seeded changes: {len(ssum["seeded_changes_reported"])} reported, {len(ssum["seeded_changes_skipped"])} skipped, {len(sfailed)} missed')
        except Exception as e:  # noqa: BLE001
            print(f'  note: seeded-change regression could not run: {type(e).__name__}: {e}')
        half = summary['selftest_variants'] // 2
        if failed_variants or (summary['selftest_variants'] and len(summary['selftest_skipped']) > half):
            for r in failed_variants[:10]:
                print(f"  selftest {r['vid']}: {r['detail'][:200]}")
            print(f'ANALYSIS-ERROR property={prop} selftest: {len(failed_variants)} variant(s) failed, {len(summary["selftest_skipped"])} skipped of {summary["selftest_variants"]}: the checker cannot be trusted on this tree')
            return 2
        print(f'  self-test: {summary["selftest_mutants_reported"]} mutants reported, {summary["selftest_equivalents_silent"]} equivalent rewrites silent, {len(summary["selftest_skipped"])} skipped')

    if replay:
        try:
            want = json.loads(Path(replay).read_text())
        except Exception as e:  # noqa: BLE001
            print(f'ANALYSIS-ERROR cannot read replay file {replay}: {e}')
            return 2
        hits = [o for o in ck.obs if o.key == want.get('key')]
        if not hits:
            print(f'REPLAY property={prop} rule={want.get("rule")} : obligation no longer exists on this tree (construct changed)')
            print(f'  key: {want.get("key")}')
            return 0
        rc = 0
        for o in hits:
            print(f'REPLAY {o.where} {o.rule} {"HOLDS" if o.ok else "VIOLATED"} — {o.detail}')
            if o.path:
                print(f'  path: {o.path}')
            if not o.ok:
                rc = 1
        return rc

    # -- output ---------------------------------------------------------
    st = repo.stats()
    print(
        f'[{prop}] tier={tier} analysed {st["modules"]} modules / {st["functions"]} functions; '
        f'{len(ck.analysed)} anchored functions; {len(ck.obs)} obligations over {len(ck.rules)} rules'
    )
    for rid in sorted(ck.rules):
        n = counts.get(rid, 0)
        bad = sum(1 for o in ck.obs if o.rule == rid and not o.ok)
        print(f'  {rid}: {n} instance(s), {n - bad} discharged — {ck.rules[rid]}')
    for o, k in known_hits:
        print(f'KNOWN-FINDING: property={prop} {o.rule} {o.where} {o.func.split("::")[1]} — {o.detail}')
    replay_dir = evdir / 'replay'
    first_replay = None
    for o in violations:
        replay_dir.mkdir(parents=True, exist_ok=True)
        h = hashlib.sha256(o.key.encode()).hexdigest()[:10]
        rp = replay_dir / f'{prop}-{o.rule}-{h}.json'
        rp.write_text(json.dumps({'property': prop, 'rule': o.rule, 'key': o.key, 'where': o.where, 'detail': o.detail, 'path': o.path}, indent=1))
        first_replay = first_replay or rp
        print(f'{o.where}  {o.rule}  {o.func.split("::")[1]}  — {o.detail}')
        if o.path:
            print(f'    path: {o.path}')
        print(f'VIOLATION property={prop} replay={rp}')

    # -- evidence -------------------------------------------------------
    distinct = len({o.key for o in ck.obs if o.nontrivial})
    samples = []
    seen_rules = set()
    for o in ck.obs:
        if o.rule in seen_rules and o.ok:
            continue
        seen_rules.add(o.rule)
        samples.append({'rule': o.rule, 'where': o.where, 'function': o.func, 'construct': o.construct, 'verdict': 'discharged' if o.ok else 'violated', 'detail': o.detail, **({'path': o.path} if o.path else {})})
    ev = {
        'property_id': prop,
        'tier': tier,
        'seed': seed,
        'level': 'other',
        'coverage': {
            'explanation': (
                'Static analysis (ast + statement-level CFG with exception/generator edges, dataflow) of the current '
                f'/repo working tree. Structural necessary conditions of {prop} were decided on all CFG paths of the '
                'anchored functions; the behaviour itself was not executed or verified. Each obligation is one '
                '(rule, site) pair; "discharged" means the rule predicate held at that site on every path.'
            ),
            'obligations': len(ck.obs),
            'discharged': sum(1 for o in ck.obs if o.ok),
            'evaluations': len(ck.obs),
            'distinct_nontrivial': distinct,
            'rule': 'one obligation per (rule, function, construct); distinct = distinct keys; non-trivial = the decision examined at least one CFG path / dataflow fact / cross-site comparison beyond locating the anchor',
            'rules': ck.rules,
            'instances_per_rule': counts,
            'minimum_instances_per_rule': ck.minimum,
            'samples': samples[:40],
            'analysed_functions': ck.analysed,
            'modules_parsed': st['modules'],
            'functions_parsed': st['functions'],
            'module_digests': repo.digest(),
            'known_findings_reported': [f'{o.rule} {o.where} {o.detail}' for o, _ in known_hits],
            'checker_cmd': f'./check {prop} --tier {tier}',
            'trusted_base': TRUSTED_BASE,
            'exhaustive': True,
            'notes': ck.notes,
            **extra,
        },
        'assumptions': TRUSTED_BASE,
        'wall_s': round(time.time() - t0, 3),
        'violations': len(violations),
    }
    evidence_path.parent.mkdir(parents=True, exist_ok=True)
    evidence_path.write_text(json.dumps(ev, indent=1, default=str))
    if violations:
        return 1
    print(f'[{prop}] held: {ev["coverage"]["discharged"]}/{len(ck.obs)} obligations discharged'
          + (f' ({len(known_hits)} known finding(s) listed)' if known_hits else ''))
    return 0


TRUSTED_BASE = [
    'CPython 3.12 semantics of threading.Lock/Condition (notify wakes at most the waiters present), collections.deque, queue.Queue/SimpleQueue',
    'concurrent.futures.Future / asyncio.Future state machines; asyncio FIFO ready queue',
    'multiprocessing queues, pipes, Connection framing, pickle',
    "the engine's own CFG construction and name resolution (guarded by the self-test mutants/equivalents)",
]
