"""Source-level normalisations applied to every module before any rule looks at it.

Only rewrites whose two sides have the same control flow, effects and exception behaviour are done,
so that rules written against the common idiom also read its spelled-out form:

  it = iter(E)                       for x in E:
  while True:                            BODY
      try:                   ==>
          x = next(it)
      except StopIteration:
          break
      BODY

(and the `aiter` / `await anext(it)` / `StopAsyncIteration` form ==> `async for`), provided `it` is used
nowhere else in the function and the `while` has no `else`.
"""

from __future__ import annotations

import ast
from collections import Counter


def _is_true(e):
    return isinstance(e, ast.Constant) and e.value in (True, 1) and not isinstance(e.value, str)


def _iter_call(v):
    """(source expr, is_async) if v is iter(E) / aiter(E) / E.__iter__() / E.__aiter__()"""
    if isinstance(v, ast.Call) and not v.keywords:
        if isinstance(v.func, ast.Name) and v.func.id in ('iter', 'aiter') and len(v.args) == 1:
            return v.args[0], v.func.id == 'aiter'
        if isinstance(v.func, ast.Attribute) and v.func.attr in ('__iter__', '__aiter__') and not v.args:
            return v.func.value, v.func.attr == '__aiter__'
    return None


def _next_call(v, it):
    """is_async if v is next(it) / await anext(it) / await it.__anext__() / it.__next__()"""
    is_async = False
    if isinstance(v, ast.Await):
        v, is_async = v.value, True
    if isinstance(v, ast.Call) and not v.keywords:
        if isinstance(v.func, ast.Name) and v.func.id == ('anext' if is_async else 'next') and len(v.args) == 1 and isinstance(v.args[0], ast.Name) and v.args[0].id == it:
            return is_async
        if isinstance(v.func, ast.Attribute) and v.func.attr == ('__anext__' if is_async else '__next__') and not v.args and isinstance(v.func.value, ast.Name) and v.func.value.id == it:
            return is_async
    return None


def _uses(func_node, name):
    return sum(1 for n in ast.walk(func_node) if isinstance(n, ast.Name) and n.id == name)


def _rewrite_block(body, func_node):
    changed = False
    i = 0
    while i < len(body):
        st = body[i]
        if isinstance(st, ast.While) and _is_true(st.test) and not st.orelse and st.body and isinstance(st.body[0], ast.Try):
            tr = st.body[0]
            if len(tr.body) == 1 and isinstance(tr.body[0], ast.Assign) and len(tr.body[0].targets) == 1 and not tr.orelse and not tr.finalbody and len(tr.handlers) == 1 and len(tr.handlers[0].body) == 1 and isinstance(tr.handlers[0].body[0], ast.Break) and tr.handlers[0].name is None:
                asg = tr.body[0]
                # find `it = iter(E)` earlier in the same block
                for j in range(i - 1, -1, -1):
                    d = body[j]
                    if isinstance(d, ast.Assign) and len(d.targets) == 1 and isinstance(d.targets[0], ast.Name):
                        it = d.targets[0].id
                        ic = _iter_call(d.value)
                        na = _next_call(asg.value, it)
                        if ic is None or na is None or ic[1] != na:
                            continue
                        h = tr.handlers[0].type
                        want = 'StopAsyncIteration' if na else 'StopIteration'
                        if not (isinstance(h, ast.Name) and h.id == want):
                            continue
                        if _uses(func_node, it) != 2:
                            continue
                        cls = ast.AsyncFor if na else ast.For
                        new = cls(target=asg.targets[0], iter=ic[0], body=st.body[1:] or [ast.Pass()], orelse=[], type_comment=None)
                        ast.copy_location(new, st)
                        new.end_lineno, new.end_col_offset = st.end_lineno, st.end_col_offset
                        for t in ast.walk(new.target):
                            if hasattr(t, 'ctx'):
                                t.ctx = ast.Store()
                        if not st.body[1:]:
                            ast.copy_location(new.body[0], st)
                        body[i] = new
                        del body[j]
                        i -= 1
                        changed = True
                        break
        i += 1
    return changed


def normalize(tree: ast.AST) -> int:
    """Rewrite in place; returns the number of loops normalised."""
    n = 0
    for fn in [x for x in ast.walk(tree) if isinstance(x, (ast.FunctionDef, ast.AsyncFunctionDef))]:
        again = True
        while again:
            again = False
            for node in ast.walk(fn):
                for fld in ('body', 'orelse', 'finalbody'):
                    blk = getattr(node, fld, None)
                    if isinstance(blk, list) and blk and isinstance(blk[0], ast.stmt):
                        if _rewrite_block(blk, fn):
                            n += 1
                            again = True
                            break
                if again:
                    break
    return n


# ---------------------------------------------------------------------------------------------------------------------
# Extract-method tolerance: helpers that did not exist in the tree the rules were confirmed on are read in place.
#
# A maintainer who moves a few statements of an analysed function into a new private helper (`self._resolve(fut, y)`)
# has changed no behaviour; the rules, which look at one function at a time, would see events disappear.  A call of a
# function that is *new* (its qualified name is not in the reference list of anchors.json) is therefore replaced, in the
# syntax tree the rules see, by the helper's body with the parameters substituted -- provided the helper is simple enough
# for that to be exact: plain positional/keyword parameters, no generator, no nested scopes that capture its locals, and
# `return` only as the last statement.  Anything else is left as a call.


def _assigned_names(node):
    out = set()
    for n in ast.walk(node):
        if isinstance(n, ast.Name) and isinstance(n.ctx, (ast.Store, ast.Del)):
            out.add(n.id)
        elif isinstance(n, ast.ExceptHandler) and n.name:
            out.add(n.name)
        elif isinstance(n, (ast.FunctionDef, ast.AsyncFunctionDef, ast.ClassDef)):
            out.add(n.name)
        elif isinstance(n, ast.arg):
            out.add(n.arg)
    return out


def _simple_helper(h):
    """None if the helper can be inlined exactly, else the reason it cannot"""
    a = h.args
    if h.decorator_list:
        return 'decorated'
    if a.vararg or a.kwarg:
        return 'star parameters'
    body = list(h.body)
    if body and isinstance(body[0], ast.Expr) and isinstance(body[0].value, ast.Constant) and isinstance(body[0].value.value, str):
        body = body[1:]
    if not body:
        return 'empty'
    for n in ast.walk(h):
        if isinstance(n, (ast.Yield, ast.YieldFrom, ast.Global, ast.Nonlocal)):
            return 'generator / global'
        if n is not h and isinstance(n, (ast.FunctionDef, ast.AsyncFunctionDef, ast.Lambda, ast.ClassDef)):
            return 'nested scope'
    if _tailify(body, None, probe=True) is None:
        return 'return inside a loop / try / with'
    return None


def _has_return(node):
    return any(isinstance(n, ast.Return) for n in ast.walk(node))


def _tailify(stmts, target, probe=False):
    """Rewrite a helper body so that it has no `return`: a `return e` in tail position of the if/else nesting becomes
    `target = e` (or is dropped), and the statements that follow an `if` one of whose arms returns move into the arms
    that fall through.  None when a `return` sits inside a loop / try / with (not expressible without a jump)."""
    import copy

    out = []
    for i, st in enumerate(stmts):
        rest = stmts[i + 1:]
        if isinstance(st, ast.Return):
            if st.value is not None:
                if target is not None:
                    asg = ast.Assign(targets=[copy.deepcopy(t) for t in target], value=st.value, type_comment=None)
                    out.append(ast.copy_location(asg, st))
                elif not isinstance(st.value, (ast.Name, ast.Constant)):
                    out.append(ast.copy_location(ast.Expr(value=st.value), st))
            elif target is not None:
                asg = ast.Assign(targets=[copy.deepcopy(t) for t in target], value=ast.Constant(value=None), type_comment=None)
                out.append(ast.copy_location(asg, st))
            if not out:
                out.append(ast.copy_location(ast.Pass(), st))
            return out
        if isinstance(st, ast.If) and _has_return(st):
            body = _tailify(list(st.body) + ([] if probe else [copy.deepcopy(r) for r in rest]) if _falls_through(st.body) else list(st.body), target, probe)
            orelse = _tailify(list(st.orelse) + ([] if probe else [copy.deepcopy(r) for r in rest]) if _falls_through(st.orelse) else list(st.orelse), target, probe)
            if body is None or orelse is None:
                return None
            if probe and _tailify(rest, target, probe) is None:
                return None
            new = ast.If(test=st.test, body=body or [ast.copy_location(ast.Pass(), st)], orelse=orelse)
            out.append(ast.copy_location(new, st))
            return out
        if _has_return(st):
            return None
        out.append(st)
    if target is not None and stmts:
        asg = ast.Assign(targets=[copy.deepcopy(t) for t in target], value=ast.Constant(value=None), type_comment=None)
        out.append(ast.copy_location(asg, stmts[-1]))
    return out


def _falls_through(block) -> bool:
    """can control reach the end of this statement list? (syntactic: last statement is not a return/raise/continue/break,
    nor an if whose arms all end that way)"""
    if not block:
        return True
    last = block[-1]
    if isinstance(last, (ast.Return, ast.Raise, ast.Continue, ast.Break)):
        return False
    if isinstance(last, ast.If) and last.orelse:
        return _falls_through(last.body) or _falls_through(last.orelse)
    return True


class _Subst(ast.NodeTransformer):
    def __init__(self, mapping):
        self.mapping = mapping

    def visit_Name(self, node):
        rep = self.mapping.get(node.id)
        if rep is None:
            return node
        if isinstance(rep, str):
            return ast.copy_location(ast.Name(id=rep, ctx=node.ctx), node)
        if isinstance(node.ctx, ast.Load):
            import copy

            return ast.copy_location(copy.deepcopy(rep), node)
        return node

    def visit_ExceptHandler(self, node):
        self.generic_visit(node)
        if node.name and isinstance(self.mapping.get(node.name), str):
            node.name = self.mapping[node.name]
        return node


def _first_use_is_load(stmts, name, after_line=None):
    """walking the statements in source order, is the first occurrence of `name` a read?"""
    occ = []
    for st in stmts:
        for n in ast.walk(st):
            if isinstance(n, ast.Name) and n.id == name and (after_line is None or n.lineno > after_line):
                occ.append((n.lineno, n.col_offset, isinstance(n.ctx, ast.Load)))
    if not occ:
        return False
    occ.sort()
    # an assignment `x = f(x)` has the Load later on the same line as the Store: order by statement semantics
    first_line = occ[0][0]
    same = [o for o in occ if o[0] == first_line]
    if any(not o[2] for o in same) and any(o[2] for o in same):
        return True  # read and written in the same statement: the read comes first
    return occ[0][2]


def _inline_call(call, h, is_method, F, stmt, enclosing_loops, tag, target=None):
    """(statements replacing `stmt`, result expression | None) or None when the call cannot be mapped exactly"""
    import copy

    a = h.args
    params = [x.arg for x in a.posonlyargs + a.args]
    kwonly = [x.arg for x in a.kwonlyargs]
    if is_method:
        params = params[1:]
    if any(isinstance(x, ast.Starred) for x in call.args) or any(k.arg is None for k in call.keywords):
        return None
    if len(call.args) > len(params):
        return None
    bound = dict(zip(params, call.args))
    for k in call.keywords:
        if k.arg in bound or k.arg not in params + kwonly:
            return None
        bound[k.arg] = k.value
    defaults = dict(zip(params[len(params) - len(a.defaults):] if a.defaults else [], a.defaults))
    for x, d in zip(a.kwonlyargs, a.kw_defaults):
        if d is not None:
            defaults[x.arg] = d
    for p in params + kwonly:
        if p not in bound:
            if p not in defaults:
                return None
            bound[p] = defaults[p]
    body = list(h.body)
    if body and isinstance(body[0], ast.Expr) and isinstance(body[0].value, ast.Constant) and isinstance(body[0].value.value, str):
        body = body[1:]
    body = copy.deepcopy(body)
    assigned = set()
    for st in body:
        assigned |= _assigned_names(st)
    caller_names = {n.id for n in ast.walk(F) if isinstance(n, ast.Name)} | _assigned_names(F)
    mapping = {}
    pre = []
    for p, arg in bound.items():
        reassigned = p in assigned
        simple = isinstance(arg, (ast.Name, ast.Constant)) or (isinstance(arg, ast.Attribute) and isinstance(arg.value, ast.Name))
        if simple and not reassigned:
            mapping[p] = arg
            continue
        if isinstance(arg, ast.Name) and reassigned:
            # the helper re-binds its parameter: harmless for the caller only if the caller's variable is dead afterwards
            live = _first_use_is_load([s for s in ast.walk(F) if isinstance(s, ast.stmt)], arg.id, after_line=getattr(stmt, 'end_lineno', stmt.lineno))
            for L in enclosing_loops:
                if _first_use_is_load(L.body, arg.id):
                    live = True
            if not live:
                mapping[p] = arg.id
                continue
        fresh = f'{p}__{tag}'
        mapping[p] = fresh
        asg = ast.Assign(targets=[ast.Name(id=fresh, ctx=ast.Store())], value=copy.deepcopy(arg), type_comment=None)
        pre.append(ast.copy_location(asg, stmt))
    for nm in assigned:
        if nm in params or nm in kwonly:
            continue
        if nm in caller_names:
            mapping[nm] = f'{nm}__{tag}'
    sub = _Subst(mapping)
    new_body = [sub.visit(st) for st in body]
    result = None
    new_body = _tailify(new_body, target)
    if new_body is None:
        return None
    out = pre + new_body
    for st in out:
        ast.fix_missing_locations(st)
    return out, result


def inline_new_helpers(module, reference_names: set) -> list:
    """Inline calls of functions that are not in `reference_names` (qualified names of the confirmed tree) into the
    functions that are.  Returns [(caller qualname, helper qualname, line)]."""
    done = []
    funcs = module.functions
    new_helpers = {q: f for q, f in funcs.items() if q not in reference_names and '#' not in q}
    if not new_helpers:
        return done
    reasons = {q: _simple_helper(f.node) for q, f in new_helpers.items()}

    def owner_class(fi):
        p = fi
        while p is not None and hasattr(p, 'cls'):  # FuncInfo
            if p.cls is not None:
                return p.cls
            p = p.parent
        return None

    def resolve(call, fi):
        """(helper FuncInfo | None, is_method) for `self._h(...)` / `_h(...)`"""
        fn = call.func
        if isinstance(fn, ast.Attribute) and isinstance(fn.value, ast.Name) and fn.value.id == 'self':
            c = owner_class(fi)
            if c is None:
                return None, False
            return new_helpers.get(f'{c.qualname}.{fn.attr}'), True
        if isinstance(fn, ast.Name):
            cands = [f'{fi.qualname}.{fn.id}']
            par = fi.parent
            if par is not None and hasattr(par, 'cls'):  # nested in a function: a sibling nested function
                cands.append(f'{par.qualname}.{fn.id}')
            cands.append(fn.id)  # module level
            for q in cands:
                if q in new_helpers:
                    return new_helpers[q], False
        return None, False

    counter = [0]

    def process_block(block, fi, loops):
        i = 0
        while i < len(block):
            st = block[i]
            call = None
            form = None
            if isinstance(st, ast.Expr):
                v = st.value.value if isinstance(st.value, ast.Await) else st.value
                if isinstance(v, ast.Call):
                    call, form = v, 'expr'
            elif isinstance(st, ast.Assign) and len(st.targets) == 1:
                v = st.value.value if isinstance(st.value, ast.Await) else st.value
                if isinstance(v, ast.Call):
                    call, form = v, 'assign'
            if call is not None:
                h, is_method = resolve(call, fi)
                if h is not None and h is not fi and reasons.get(h.qualname) is None and (not h.is_async or isinstance(st.value, ast.Await)) and (h.is_async or not isinstance(st.value, ast.Await)):
                    counter[0] += 1
                    got = _inline_call(call, h.node, is_method, fi.node, st, loops, f'{h.name.strip("_")}{counter[0]}', target=st.targets if form == 'assign' else None)
                    if got is not None:
                        stmts, result = got
                        if not stmts:
                            stmts = [ast.copy_location(ast.Pass(), st)]
                        block[i:i + 1] = stmts
                        done.append((fi.qualname, h.qualname, st.lineno))
                        continue  # re-examine the inlined statements (helpers calling helpers), bounded by the counter
            # recurse into compound statements
            if counter[0] < 200:
                inner_loops = loops + [st] if isinstance(st, (ast.For, ast.AsyncFor, ast.While)) else loops
                for fld in ('body', 'orelse', 'finalbody'):
                    blk = getattr(st, fld, None)
                    if isinstance(blk, list) and blk and isinstance(blk[0], ast.stmt) and not isinstance(st, (ast.FunctionDef, ast.AsyncFunctionDef, ast.ClassDef)):
                        process_block(blk, fi, inner_loops)
                for hd in getattr(st, 'handlers', []) or []:
                    process_block(hd.body, fi, inner_loops)
            i += 1

    # one-line helpers (`def _is_failure(self, x): return isinstance(x, (Exception, RemoteException))`) are read in place
    # wherever they are called, tests included: the facts a test establishes must not stop at the call
    import copy

    def one_liner(h):
        body = list(h.node.body)
        if body and isinstance(body[0], ast.Expr) and isinstance(body[0].value, ast.Constant) and isinstance(body[0].value.value, str):
            body = body[1:]
        if len(body) == 1 and isinstance(body[0], ast.Return) and body[0].value is not None and not h.node.decorator_list and not h.node.args.vararg and not h.node.args.kwarg and not h.is_async:
            if not any(isinstance(n, (ast.Lambda, ast.ListComp, ast.SetComp, ast.DictComp, ast.GeneratorExp, ast.Yield, ast.YieldFrom, ast.Await, ast.NamedExpr)) for n in ast.walk(body[0].value)):
                return body[0].value
        return None

    class ExprInline(ast.NodeTransformer):
        def __init__(self, fi):
            self.fi = fi

        def visit_FunctionDef(self, node):
            return node if node is not self.fi.node else self.generic_visit(node)

        visit_AsyncFunctionDef = visit_FunctionDef

        def visit_Lambda(self, node):
            return node

        def visit_Call(self, node):
            self.generic_visit(node)
            h, is_method = resolve(node, self.fi)
            if h is None or h is self.fi:
                return node
            expr = one_liner(h)
            if expr is None:
                return node
            a = h.node.args
            params = [x.arg for x in a.posonlyargs + a.args]
            if is_method:
                params = params[1:]
            if any(isinstance(x, ast.Starred) for x in node.args) or any(k.arg is None for k in node.keywords) or len(node.args) > len(params):
                return node
            bound = dict(zip(params, node.args))
            for k in node.keywords:
                if k.arg in bound or k.arg not in params:
                    return node
                bound[k.arg] = k.value
            if set(bound) != set(params):
                return node
            # arguments must be cheap and side-effect free, they may be evaluated more than once (or not at all)
            if not all(isinstance(v, (ast.Name, ast.Constant)) or (isinstance(v, ast.Attribute) and isinstance(v.value, ast.Name)) for v in bound.values()):
                return node
            new = _Subst({p: v for p, v in bound.items()}).visit(copy.deepcopy(expr))
            for n in ast.walk(new):
                ast.copy_location(n, node)
            done.append((self.fi.qualname, h.qualname, node.lineno))
            return new

    for q, fi in list(funcs.items()):
        if q in new_helpers:
            continue
        ExprInline(fi).visit(fi.node)
        process_block(fi.node.body, fi, [])
    return done


# ---------------------------------------------------------------------------------------------------------------------
# Assignment expressions in the two positions where they replace the statement idiom exactly:
#   if (z := E) <cmp> …:  BODY            ==>   z = E
#                                               if z <cmp> …:  BODY
#   while (z := E) <cmp> …:  BODY         ==>   while True:
#                                                   z = E
#                                                   if not (z <cmp> …): break
#                                                   BODY
# (the named expression must be what the test evaluates first: the test itself, the operand of `not`, or the left
# operand of a comparison; a `while` with an `else` clause is left alone)


def _leftmost_walrus(test):
    """(NamedExpr node, replace function) when the first thing the test evaluates is `name := expr`"""
    t = test
    parent = None
    fld = None
    while True:
        if isinstance(t, ast.NamedExpr) and isinstance(t.target, ast.Name):
            return t, parent, fld
        if isinstance(t, ast.UnaryOp) and isinstance(t.op, ast.Not):
            parent, fld, t = t, 'operand', t.operand
            continue
        if isinstance(t, ast.Compare):
            parent, fld, t = t, 'left', t.left
            continue
        return None


_NEG = {ast.Is: ast.IsNot, ast.IsNot: ast.Is, ast.Eq: ast.NotEq, ast.NotEq: ast.Eq, ast.In: ast.NotIn, ast.NotIn: ast.In}


def _negate(test):
    """the negation of a test, written the way a person would: `z is None` for `not (z is not None)`"""
    if isinstance(test, ast.UnaryOp) and isinstance(test.op, ast.Not):
        return test.operand
    if isinstance(test, ast.Compare) and len(test.ops) == 1 and type(test.ops[0]) in _NEG:
        return ast.copy_location(ast.Compare(left=test.left, ops=[_NEG[type(test.ops[0])]()], comparators=test.comparators), test)
    return ast.copy_location(ast.UnaryOp(op=ast.Not(), operand=test), test)


def desugar_walrus(tree: ast.AST) -> int:
    n = 0

    def rewrite(block):
        nonlocal n
        i = 0
        while i < len(block):
            st = block[i]
            if isinstance(st, (ast.If, ast.While)):
                got = _leftmost_walrus(st.test)
                if got is not None and not (isinstance(st, ast.While) and st.orelse):
                    ne, parent, fld = got
                    name = ast.copy_location(ast.Name(id=ne.target.id, ctx=ast.Load()), ne)
                    asg = ast.copy_location(ast.Assign(targets=[ast.Name(id=ne.target.id, ctx=ast.Store())], value=ne.value, type_comment=None), st)
                    ast.fix_missing_locations(asg)
                    if parent is None:
                        new_test = name
                    else:
                        setattr(parent, fld, name)
                        new_test = st.test
                    if isinstance(st, ast.If):
                        st.test = new_test
                        block.insert(i, asg)
                        i += 1
                    else:
                        brk = ast.copy_location(ast.If(test=_negate(new_test), body=[ast.copy_location(ast.Break(), st)], orelse=[]), st)
                        ast.fix_missing_locations(brk)
                        st.test = ast.copy_location(ast.Constant(value=True), st)
                        st.body = [asg, brk] + st.body
                    n += 1
            for fld_ in ('body', 'orelse', 'finalbody'):
                blk = getattr(st, fld_, None)
                if isinstance(blk, list) and blk and isinstance(blk[0], ast.stmt):
                    rewrite(blk)
            for h in getattr(st, 'handlers', []) or []:
                rewrite(h.body)
            i += 1

    for node in ast.walk(tree):
        if isinstance(node, ast.Module):
            rewrite(node.body)
    return n


# ---------------------------------------------------------------------------------------------------------------------
# Annotated assignments: `x: T = v` is read as `x = v`, a bare declaration `x: T` as `pass`.  The annotation of a local is
# never evaluated, that of a class/module attribute has no bearing on any rule.


def deannotate(tree: ast.AST) -> int:
    n = 0
    for node in ast.walk(tree):
        for fld in ('body', 'orelse', 'finalbody', 'handlers'):
            blk = getattr(node, fld, None)
            if not isinstance(blk, list):
                continue
            for i, st in enumerate(blk):
                if isinstance(st, ast.AnnAssign):
                    if st.value is not None:
                        new = ast.Assign(targets=[st.target], value=st.value, type_comment=None)
                    else:
                        new = ast.Pass()
                    blk[i] = ast.copy_location(new, st)
                    n += 1
    return n


# ---------------------------------------------------------------------------------------------------------------------
# Import aliases: `import threading as th` / `from time import perf_counter as clock` are read as the plain imports, the
# uses renamed accordingly -- exact when the alias is bound nowhere else in the module and the plain name is free.


def canonical_imports(tree: ast.AST) -> int:
    bound = Counter()
    for n in ast.walk(tree):
        if isinstance(n, ast.Name) and isinstance(n.ctx, (ast.Store, ast.Del)):
            bound[n.id] += 1
        elif isinstance(n, ast.arguments):
            for a in n.posonlyargs + n.args + n.kwonlyargs + ([n.vararg] if n.vararg else []) + ([n.kwarg] if n.kwarg else []):
                bound[a.arg] += 1
        elif isinstance(n, (ast.FunctionDef, ast.AsyncFunctionDef, ast.ClassDef)):
            bound[n.name] += 1
        elif isinstance(n, ast.ExceptHandler) and n.name:
            bound[n.name] += 1
        elif isinstance(n, (ast.Import, ast.ImportFrom)):
            for a in n.names:
                bound[a.asname or a.name.split('.')[0]] += 1
    used = {n.id for n in ast.walk(tree) if isinstance(n, ast.Name)}
    mapping = {}
    for st in ast.walk(tree):
        if isinstance(st, ast.Import):
            for a in st.names:
                if a.asname and a.asname != a.name and bound[a.asname] == 1:
                    head = a.name.split('.')[0]
                    if bound[head] == 0:
                        mapping[a.asname] = a.name
                        a.asname = None
                        bound[head] += 1
        elif isinstance(st, ast.ImportFrom):
            for a in st.names:
                if a.asname and a.asname != a.name and bound[a.asname] == 1 and bound[a.name] == 0 and a.name not in used:
                    mapping[a.asname] = a.name
                    a.asname = None
                    bound[a.name] += 1
    if not mapping:
        return 0

    def expr_of(dotted_name, ref):
        parts = dotted_name.split('.')
        e = ast.Name(id=parts[0], ctx=ast.Load())
        for p in parts[1:]:
            e = ast.Attribute(value=e, attr=p, ctx=ast.Load())
        return ast.copy_location(e, ref)

    class T(ast.NodeTransformer):
        def visit_Name(self, n):
            if n.id in mapping and isinstance(n.ctx, ast.Load):
                new = expr_of(mapping[n.id], n)
                for sub in ast.walk(new):
                    ast.copy_location(sub, n)
                return new
            return n

    T().visit(tree)
    return len(mapping)


# ---------------------------------------------------------------------------------------------------------------------
# Written-out increments: `n = n + 1`, `n = 1 + n`, `self.k = self.k - 2` are read as the augmented assignments.


def augment(tree: ast.AST) -> int:
    n = 0
    for node in ast.walk(tree):
        for fld in ('body', 'orelse', 'finalbody'):
            blk = getattr(node, fld, None)
            if not isinstance(blk, list):
                continue
            for i, st in enumerate(blk):
                if not (isinstance(st, ast.Assign) and len(st.targets) == 1 and isinstance(st.targets[0], (ast.Name, ast.Attribute)) and isinstance(st.value, ast.BinOp) and isinstance(st.value.op, (ast.Add, ast.Sub))):
                    continue
                t = ast.unparse(st.targets[0])
                l, r = st.value.left, st.value.right
                if isinstance(l, (ast.Name, ast.Attribute)) and ast.unparse(l) == t and not any(isinstance(x, (ast.Name, ast.Attribute)) and ast.unparse(x) == t for x in ast.walk(r)):
                    other = r
                elif isinstance(st.value.op, ast.Add) and isinstance(r, (ast.Name, ast.Attribute)) and ast.unparse(r) == t and isinstance(l, ast.Constant) and isinstance(l.value, (int, float)) and not isinstance(l.value, bool):
                    other = l
                else:
                    continue
                tgt = st.targets[0]
                blk[i] = ast.copy_location(ast.AugAssign(target=tgt, op=st.value.op, value=other), st)
                n += 1
    return n


# ---------------------------------------------------------------------------------------------------------------------
# Local aliases of attributes of self: `q = self._q` (once, at the top level of the method, never re-bound) is read as
# the attribute itself -- the rules reason about "the queue self._q", whatever a method calls it locally.


def self_aliases(fn) -> dict:
    """{local name: attribute text} for the top-level `v = self.<attr>` bindings of a method"""
    out = {}
    if not fn.args.args or fn.args.args[0].arg != 'self':
        return out
    for st in fn.body:
        if isinstance(st, ast.Assign) and len(st.targets) == 1 and isinstance(st.targets[0], ast.Name) and isinstance(st.value, ast.Attribute):
            chain = st.value
            while isinstance(chain, ast.Attribute):
                chain = chain.value
            if isinstance(chain, ast.Name) and chain.id == 'self':
                out[st.targets[0].id] = ast.unparse(st.value)
    return out


def unalias_self(tree: ast.AST, keep=None) -> int:
    """`tree`: a module or a single function node; `keep`: alias names that are left alone (those of the confirmed tree)"""
    n_done = 0
    keep = keep or set()
    fns = [tree] if isinstance(tree, (ast.FunctionDef, ast.AsyncFunctionDef)) else [x for x in ast.walk(tree) if isinstance(x, (ast.FunctionDef, ast.AsyncFunctionDef))]
    for fn in fns:
        if not fn.args.args or fn.args.args[0].arg != 'self':
            continue
        # names bound anywhere in the function (any scope below it), with counts
        binds = Counter()
        for x in ast.walk(fn):
            if isinstance(x, ast.Name) and isinstance(x.ctx, (ast.Store, ast.Del)):
                binds[x.id] += 1
            elif isinstance(x, ast.arg):
                binds[x.arg] += 1
            elif isinstance(x, (ast.FunctionDef, ast.AsyncFunctionDef, ast.ClassDef)) and x is not fn:
                binds[x.name] += 1
            elif isinstance(x, ast.ExceptHandler) and x.name:
                binds[x.name] += 1
            elif isinstance(x, (ast.Global, ast.Nonlocal)):
                for nm in x.names:
                    binds[nm] += 2
        stored_attrs = {ast.unparse(x) for x in ast.walk(fn) if isinstance(x, ast.Attribute) and isinstance(x.ctx, (ast.Store, ast.Del))}
        mapping = {}
        for i, st in enumerate(fn.body):
            if isinstance(st, ast.Assign) and len(st.targets) == 1 and isinstance(st.targets[0], ast.Name) and binds[st.targets[0].id] == 1 and st.targets[0].id not in keep:
                v = st.value
                chain = v
                ok = isinstance(chain, ast.Attribute)
                while isinstance(chain, ast.Attribute):
                    chain = chain.value
                if ok and isinstance(chain, ast.Name) and chain.id == 'self':
                    txt = ast.unparse(v)
                    if not any(s_ == txt or txt.startswith(s_ + '.') for s_ in stored_attrs):
                        mapping[st.targets[0].id] = (v, i)
        if not mapping:
            continue

        class T(ast.NodeTransformer):
            def visit_Name(self, n):
                if isinstance(n.ctx, ast.Load) and n.id in mapping:
                    import copy

                    new = copy.deepcopy(mapping[n.id][0])
                    for sub in ast.walk(new):
                        ast.copy_location(sub, n)
                    return new
                return n

        for nm, (v, i) in mapping.items():
            fn.body[i] = ast.copy_location(ast.Pass(), fn.body[i])
        fn.body = [T().visit(st) for st in fn.body]
        n_done += len(mapping)
    return n_done


# ---------------------------------------------------------------------------------------------------------------------
# New single-use temporaries: `t = E` immediately followed by `return t` / `yield t` / `<simple>.m(..., t, ...)` /
# `x = <simple>.m(t)`, with `t` a local the confirmed tree's function does not have and used nowhere else, is read as the
# statement with E in place of t.


def _simple(e):
    if isinstance(e, (ast.Name, ast.Constant)):
        return True
    if isinstance(e, ast.Attribute):
        return _simple(e.value)
    if isinstance(e, ast.Subscript):
        return _simple(e.value) and _simple(e.slice)
    return False


def inline_single_use_temps(fn, keep=frozenset()) -> int:
    loads, stores = Counter(), Counter()
    for x in ast.walk(fn):
        if isinstance(x, ast.Name):
            (loads if isinstance(x.ctx, ast.Load) else stores)[x.id] += 1
        elif isinstance(x, ast.arg):
            stores[x.arg] += 1
        elif isinstance(x, (ast.Global, ast.Nonlocal)):
            for nm in x.names:
                stores[nm] += 2
    n_done = 0
    for node in ast.walk(fn):
        if isinstance(node, (ast.FunctionDef, ast.AsyncFunctionDef, ast.ClassDef, ast.Lambda)) and node is not fn:
            continue
        for fld in ('body', 'orelse', 'finalbody'):
            blk = getattr(node, fld, None)
            if not (isinstance(blk, list) and blk and isinstance(blk[0], ast.stmt)):
                continue
            i = 0
            while i + 1 < len(blk):
                st, nx = blk[i], blk[i + 1]
                if isinstance(st, ast.Assign) and len(st.targets) == 1 and isinstance(st.targets[0], ast.Name):
                    t = st.targets[0].id
                    if t not in keep and stores[t] == 1 and loads[t] == 1:
                        slot = None  # (container, field or index) where Name(t) sits in nx
                        if isinstance(nx, ast.Return) and isinstance(nx.value, ast.Name) and nx.value.id == t:
                            slot = (nx, 'value')
                        elif isinstance(nx, ast.Expr) and isinstance(nx.value, (ast.Yield, ast.Await)) and isinstance(nx.value.value, ast.Name) and nx.value.value.id == t:
                            slot = (nx.value, 'value')
                        elif isinstance(nx, ast.If):
                            # `t = f(..)` / `if t:` -- the test of the next statement is evaluated first (and once)
                            tst = nx.test
                            if isinstance(tst, ast.Name) and tst.id == t:
                                slot = (nx, 'test')
                            elif isinstance(tst, ast.UnaryOp) and isinstance(tst.op, ast.Not) and isinstance(tst.operand, ast.Name) and tst.operand.id == t:
                                slot = (tst, 'operand')
                            elif isinstance(tst, ast.BoolOp) and isinstance(tst.values[0], ast.Name) and tst.values[0].id == t:
                                slot = (tst.values, 0)
                            elif isinstance(tst, ast.BoolOp) and isinstance(tst.values[0], ast.UnaryOp) and isinstance(tst.values[0].op, ast.Not) and isinstance(tst.values[0].operand, ast.Name) and tst.values[0].operand.id == t:
                                slot = (tst.values[0], 'operand')
                        else:
                            call = nx.value if isinstance(nx, (ast.Expr, ast.Assign)) else None
                            if isinstance(call, ast.Await):
                                call = call.value
                            if isinstance(call, ast.Call) and _simple(call.func) and not call.keywords and all(_simple(a) for a in call.args):
                                hits = [k for k, a in enumerate(call.args) if isinstance(a, ast.Name) and a.id == t]
                                if len(hits) == 1 and (not isinstance(nx, ast.Assign) or all(_simple(tg) or isinstance(tg, ast.Tuple) for tg in nx.targets)):
                                    slot = (call.args, hits[0])
                        if slot is not None:
                            cont, key = slot
                            if isinstance(cont, list):
                                cont[key] = st.value
                            else:
                                setattr(cont, key, st.value)
                            del blk[i]
                            n_done += 1
                            continue
                i += 1
    return n_done


# ---------------------------------------------------------------------------------------------------------------------
# New module-level constants: `_POLL = 0.1` (a literal, bound once, a name the confirmed tree's module does not have) is
# read as the literal wherever the module uses it.


def propagate_new_constants(tree: ast.Module, keep=frozenset()) -> int:
    stores = Counter()
    for x in ast.walk(tree):
        if isinstance(x, ast.Name) and isinstance(x.ctx, (ast.Store, ast.Del)):
            stores[x.id] += 1
        elif isinstance(x, ast.arg):
            stores[x.arg] += 1
        elif isinstance(x, (ast.Global, ast.Nonlocal)):
            for nm in x.names:
                stores[nm] += 2
        elif isinstance(x, (ast.FunctionDef, ast.AsyncFunctionDef, ast.ClassDef)):
            stores[x.name] += 1
        elif isinstance(x, (ast.Import, ast.ImportFrom)):
            for a in x.names:
                stores[a.asname or a.name.split('.')[0]] += 1
    consts = {}
    for st in tree.body:
        if isinstance(st, ast.Assign) and len(st.targets) == 1 and isinstance(st.targets[0], ast.Name) and isinstance(st.value, ast.Constant) and not isinstance(st.value.value, (bytes,)):
            nm = st.targets[0].id
            if nm not in keep and stores[nm] == 1:
                consts[nm] = st.value
    if not consts:
        return 0

    class T(ast.NodeTransformer):
        def visit_Name(self, n):
            if isinstance(n.ctx, ast.Load) and n.id in consts:
                return ast.copy_location(ast.Constant(consts[n.id].value), n)
            return n

    T().visit(tree)
    return len(consts)


# ---------------------------------------------------------------------------------------------------------------------
# (xiii) Renamed locals.  The rules name some locals of the confirmed tree (`preprocess`, `batch`, `fut`, ...), and the
# normalisations above treat a local the confirmed tree does not have as *new*.  A consistent renaming of a local is the
# commonest behaviour-preserving edit there is, and it must change nothing.  For every outermost function (nested
# functions share its variables) anchors.json records the locals in order of first occurrence and a digest of the
# function with the locals abstracted to their index.  Equal digest = the same function up to a bijective renaming of
# its locals (a renamed local that captures another name changes the digest), and the recorded names are put back.
# When the function changed in other ways too, a local is put back only if exactly one vanished and one new local have
# the same defining statements (locals abstracted) and the same number of reads.


def _local_occurrences(fn):
    """(stored local names, list of occurrence records in source order); a record is (node, field) with field 'id' for a
    Name, 'name' for an ExceptHandler, or an index into Nonlocal.names"""
    params = {a.arg for a in ast.walk(fn) if isinstance(a, ast.arg)}
    globs = {nm for g in ast.walk(fn) if isinstance(g, ast.Global) for nm in g.names}
    inner = {x.name for x in ast.walk(fn) if isinstance(x, (ast.FunctionDef, ast.AsyncFunctionDef, ast.ClassDef)) and x is not fn}
    imported = {(a.asname or a.name).split('.')[0] for x in ast.walk(fn) if isinstance(x, (ast.Import, ast.ImportFrom)) for a in x.names}
    stored = {x.id for x in ast.walk(fn) if isinstance(x, ast.Name) and isinstance(x.ctx, (ast.Store, ast.Del))}
    stored |= {h.name for h in ast.walk(fn) if isinstance(h, ast.ExceptHandler) and h.name}
    stored -= params | globs | inner | imported
    occ = []

    def visit(n):
        if isinstance(n, ast.Name):
            if n.id in stored:
                occ.append((n, 'id'))
            return
        if isinstance(n, ast.ExceptHandler):
            if n.type is not None:
                visit(n.type)
            if n.name and n.name in stored:
                occ.append((n, 'name'))
            for b in n.body:
                visit(b)
            return
        if isinstance(n, ast.Nonlocal):
            for i, nm in enumerate(n.names):
                if nm in stored:
                    occ.append((n, i))
            return
        # evaluation order differs from field order for assignments and comprehensions only in ways that are the same
        # in both trees: field order is deterministic, which is all that is needed
        for c in ast.iter_child_nodes(n):
            visit(c)

    visit(fn)
    return stored, occ


def _get(rec):
    n, f = rec
    return n.id if f == 'id' else (n.name if f == 'name' else n.names[f])


def _set(rec, v):
    n, f = rec
    if f == 'id':
        n.id = v
    elif f == 'name':
        n.name = v
    else:
        n.names[f] = v


def local_skeleton(fn) -> dict:
    """{'order': locals in order of first occurrence, 'digest': of the function with locals abstracted, 'sigs': per local}"""
    import hashlib

    stored, occ = _local_occurrences(fn)
    order = []
    for r in occ:
        v = _get(r)
        if v not in order:
            order.append(v)
    saved = [_get(r) for r in occ]
    name = fn.name
    try:
        # per-local signature: the statements that store it, with every local abstracted to `_`, and its number of reads
        fn.name = '_'
        sigs = {}
        defs: dict = {}
        loads: dict = {}
        for st in ast.walk(fn):
            tg = []
            if isinstance(st, ast.Assign):
                tg = [x for t in st.targets for x in ast.walk(t) if isinstance(x, ast.Name) and isinstance(x.ctx, ast.Store)]
            elif isinstance(st, (ast.AugAssign, ast.NamedExpr)):
                tg = [st.target] if isinstance(st.target, ast.Name) else []
            elif isinstance(st, (ast.For, ast.AsyncFor, ast.comprehension)):
                tg = [x for x in ast.walk(st.target) if isinstance(x, ast.Name)]
            elif isinstance(st, (ast.With, ast.AsyncWith)):
                tg = [x for it in st.items if it.optional_vars is not None for x in ast.walk(it.optional_vars) if isinstance(x, ast.Name)]
            for x in tg:
                if x.id in stored:
                    defs.setdefault(x.id, []).append(st)
            if isinstance(st, ast.ExceptHandler) and st.name in stored:
                defs.setdefault(st.name, []).append(st.type if st.type is not None else st)
        for n_ in ast.walk(fn):
            if isinstance(n_, ast.Name) and isinstance(n_.ctx, ast.Load) and n_.id in stored:
                loads[n_.id] = loads.get(n_.id, 0) + 1
        for r in occ:
            _set(r, '_')
        for v in order:
            texts = []
            for st in defs.get(v, ()):
                if isinstance(st, (ast.For, ast.AsyncFor)):
                    texts.append('for ' + ast.dump(st.target) + ' in ' + ast.dump(st.iter))
                elif isinstance(st, (ast.With, ast.AsyncWith)):
                    texts.append('with ' + ';'.join(ast.dump(it) for it in st.items))
                else:
                    texts.append(ast.dump(st))
            sigs[v] = hashlib.sha256(('|'.join(sorted(texts)) + f'#{loads.get(v, 0)}').encode()).hexdigest()[:16]
        # digest with the locals abstracted to their index
        for r, v in zip(occ, saved):
            _set(r, f'_L{order.index(v)}')
        digest = hashlib.sha256(ast.dump(fn).encode()).hexdigest()[:24]
    finally:
        for r, v in zip(occ, saved):
            _set(r, v)
        fn.name = name
    return {'order': order, 'digest': digest, 'sigs': sigs}


def restore_local_names(fn, ref: dict) -> list:
    """put the recorded names of renamed locals back; returns [(current, recorded)]"""
    # fast path: every recorded local still occurs in the function -- nothing was renamed away (a recorded name that is
    # still in use could not be put back anyway)
    present = set()
    for x in ast.walk(fn):
        if isinstance(x, ast.Name):
            present.add(x.id)
        elif isinstance(x, ast.ExceptHandler) and x.name:
            present.add(x.name)
    if all(v in present for v in ref['order']):
        return []
    cur = local_skeleton(fn)
    mapping = {}
    if cur['digest'] == ref['digest'] and len(cur['order']) == len(ref['order']):
        mapping = {c: r for c, r in zip(cur['order'], ref['order']) if c != r}
    else:
        new = [v for v in cur['order'] if v not in ref['order']]
        gone = [v for v in ref['order'] if v not in cur['order']]
        for v in new:
            cands = [g for g in gone if ref['sigs'].get(g) == cur['sigs'].get(v)]
            twins = [w for w in new if cur['sigs'].get(w) == cur['sigs'].get(v)]
            if len(cands) == 1 and len(twins) == 1 and len([g for g in gone if ref['sigs'].get(g) == ref['sigs'].get(cands[0])]) == 1:
                mapping[v] = cands[0]
    if not mapping:
        return []
    # a recorded name that is in use for something else in the current function (a swap, a capture) cannot be put back
    # one at a time: apply only when the images are free or are themselves being renamed away
    stored, occ = _local_occurrences(fn)
    used = {x.id for x in ast.walk(fn) if isinstance(x, ast.Name)} | {a.arg for a in ast.walk(fn) if isinstance(a, ast.arg)}
    for c, r in list(mapping.items()):
        if r in used and r not in mapping:
            del mapping[c]
    if not mapping:
        return []
    for rec in occ:
        v = _get(rec)
        if v in mapping:
            _set(rec, mapping[v])
    return sorted(mapping.items())


# ---------------------------------------------------------------------------------------------------------------------
# (xiv) Renamed attributes.  The rules name attributes of the confirmed tree (`_q_in`, `_future_`, `_workers`, ...).  An
# attribute renamed consistently across the package changes nothing.  anchors.json records, per module and attribute
# name, a signature: the statements that store it (the attribute itself abstracted), and how often it is read, stored
# and deleted in which function.  A name that occurs nowhere in the confirmed package (new) is read as a name that
# occurs nowhere in the current package (gone) when both occur in the same modules with the same signature in each, and
# no other new / gone name has these signatures.  Method names are not touched (renamed functions are reconciled by
# body fingerprints, mpsa/anchors.py).


def attribute_signatures(tree: ast.Module) -> dict:
    """{attr: signature} for every attribute name that is read or written through `<expr>.attr` in the module"""
    import hashlib

    occ: dict = {}
    stores: dict = {}
    first: dict = {}
    own: dict = {}
    defs = {x.name for x in ast.walk(tree) if isinstance(x, (ast.FunctionDef, ast.AsyncFunctionDef, ast.ClassDef))}

    def visit(n, fn):
        if isinstance(n, (ast.FunctionDef, ast.AsyncFunctionDef, ast.ClassDef)):
            fn = fn + '.' + n.name
        if isinstance(n, ast.Attribute):
            occ.setdefault(n.attr, []).append((fn, type(n.ctx).__name__))
            first.setdefault(n.attr, (getattr(n, 'lineno', 0), getattr(n, 'col_offset', 0)))
        if isinstance(n, (ast.Assign, ast.AugAssign, ast.AnnAssign)):
            tg = n.targets if isinstance(n, ast.Assign) else [n.target]
            for t in tg:
                for x in ast.walk(t):
                    if isinstance(x, ast.Attribute) and isinstance(x.ctx, ast.Store):
                        stores.setdefault(x.attr, []).append(n)
        for c in ast.iter_child_nodes(n):
            visit(c, fn)

    visit(tree, '')
    out = {}
    for a, oc in occ.items():
        if a in defs:
            continue
        # only attributes the package itself defines can be renamed in it: private names with a store through `self`
        # (`reader.readexactly` -> `reader.read`, `time.perf_counter` -> `time.time`, `logging.DEBUG` -> `logging.INFO` are
        # not renames)
        if not (a.startswith('_') and not a.startswith('__')):
            continue
        if not any(isinstance(x, ast.Attribute) and x.attr == a and isinstance(x.ctx, ast.Store) and isinstance(x.value, ast.Name) and x.value.id == 'self' for st in stores.get(a, ()) for x in ast.walk(st)):
            own_store = False
        else:
            own_store = True
        own[a] = own_store
        texts = []
        for st in stores.get(a, ()):
            # the attribute itself is abstracted, and so is every other private attribute in the statement (several
            # attributes may have been renamed at once)
            nodes = [(x, x.attr) for x in ast.walk(st) if isinstance(x, ast.Attribute) and (x.attr == a or (x.attr.startswith('_') and not x.attr.startswith('__')))]
            # ... and every plain name but `self` (locals may have been renamed in the same edit)
            names = [(x, x.id) for x in ast.walk(st) if isinstance(x, ast.Name) and x.id != 'self']
            for x, v in nodes:
                x.attr = '_A_' if v == a else '_'
            for x, v in names:
                x.id = '_n'
            texts.append(ast.dump(st))
            for x, v in nodes:
                x.attr = v
            for x, v in names:
                x.id = v
        out[a] = hashlib.sha256(('|'.join(sorted(texts)) + '#' + ';'.join(f'{f}:{c}' for f, c in sorted(oc))).encode()).hexdigest()[:16]
    # rank of the first occurrence among the attributes of the module (tie-break between attributes with one signature,
    # e.g. the two conditions of a queue)
    rank = {a: i for i, a in enumerate(sorted(out, key=lambda a: first[a]))}
    return {a: [sig, rank[a], own[a]] for a, sig in out.items()}


def attribute_renames(cur: dict, ref: dict) -> dict:
    """cur / ref: {module rel: {attr: signature}}; returns {new name: recorded name} for pure package-wide renames"""
    cur_names = {a for m in cur.values() for a in m}
    ref_names = {a for m in ref.values() for a in m}
    new, gone = cur_names - ref_names, ref_names - cur_names

    def profile(name, table):
        return tuple(sorted((rel, sigs[name][0]) for rel, sigs in table.items() if name in sigs))

    def position(name, table):
        return tuple(sorted((rel, sigs[name][1]) for rel, sigs in table.items() if name in sigs))

    pn = {a: profile(a, cur) for a in new}
    pg = {a: profile(a, ref) for a in gone}

    def defined(name, table):
        return any(name in sigs and len(sigs[name]) > 2 and sigs[name][2] for sigs in table.values())

    # the attribute is stored through `self` in at least one module of the package, before and after
    pn = {a: p for a, p in pn.items() if defined(a, cur)}
    pg = {a: p for a, p in pg.items() if defined(a, ref)}
    out = {}
    for p in set(pn.values()):
        ns = sorted((a for a in pn if pn[a] == p), key=lambda a: position(a, cur))
        gs = sorted((g for g in pg if pg[g] == p), key=lambda g: position(g, ref))
        if len(ns) == len(gs):
            # several attributes with one signature (two conditions over one lock): paired in order of first occurrence
            out.update(zip(ns, gs))
    return out


def rename_attributes(tree: ast.Module, mapping: dict) -> int:
    k = 0
    for x in ast.walk(tree):
        if isinstance(x, ast.Attribute) and x.attr in mapping:
            x.attr = mapping[x.attr]
            k += 1
    return k


# ---------------------------------------------------------------------------------------------------------------------
# (xv) Renamed classes.  A class of the confirmed tree that is gone, and a class the confirmed tree does not have, in the
# same module, with the same bases, the same methods in the same order and the same class-level names, one of each: the
# new name is read as the recorded one wherever it occurs in the package (names, attributes, imports).


def class_signatures(tree: ast.Module) -> dict:
    out = {}
    for c in ast.walk(tree):
        if isinstance(c, ast.ClassDef):
            bases = [ast.dump(b) for b in c.bases]
            members = [x.name if isinstance(x, (ast.FunctionDef, ast.AsyncFunctionDef, ast.ClassDef)) else type(x).__name__ for x in c.body]
            out[c.name] = [bases, members]
    return out


def class_renames(cur: dict, ref: dict, cur_words: set, ref_words: set) -> dict:
    """cur / ref: {module rel: {class: signature}}; *_words: every identifier of the package.  {new: recorded}"""
    out = {}
    for rel, rc in ref.items():
        cc = cur.get(rel)
        if cc is None:
            continue
        gone = [c for c in rc if c not in cc and c not in cur_words]
        new = [c for c in cc if c not in rc and c not in ref_words]
        for n in new:
            cands = [g for g in gone if rc[g] == cc[n]]
            if len(cands) == 1 and sum(1 for m in new if cc[m] == cc[n]) == 1:
                out[n] = cands[0]
    return out


def identifiers(tree: ast.Module) -> set:
    w = set()
    for x in ast.walk(tree):
        if isinstance(x, ast.Name):
            w.add(x.id)
        elif isinstance(x, ast.Attribute):
            w.add(x.attr)
        elif isinstance(x, (ast.FunctionDef, ast.AsyncFunctionDef, ast.ClassDef)):
            w.add(x.name)
        elif isinstance(x, ast.alias):
            w.add(x.name.split('.')[-1])
            if x.asname:
                w.add(x.asname)
        elif isinstance(x, ast.arg):
            w.add(x.arg)
    return w


def rename_classes(tree: ast.Module, mapping: dict) -> int:
    k = 0
    for x in ast.walk(tree):
        if isinstance(x, ast.Name) and x.id in mapping:
            x.id = mapping[x.id]
            k += 1
        elif isinstance(x, ast.Attribute) and x.attr in mapping:
            x.attr = mapping[x.attr]
            k += 1
        elif isinstance(x, ast.ClassDef) and x.name in mapping:
            x.name = mapping[x.name]
            k += 1
        elif isinstance(x, ast.alias):
            if x.name in mapping:
                x.name = mapping[x.name]
                k += 1
            if x.asname in mapping:
                x.asname = mapping[x.asname]
                k += 1
    return k


# ---------------------------------------------------------------------------------------------------------------------
# (xvi) Canonical tests.  `not (a is b)` / `not a == b` / `not a in b` are read as `a is not b` / `a != b` / `a not in b`
# (and the other way round for the negated operators), and a chain `isinstance(x, A) or isinstance(x, B)` over one
# subject as `isinstance(x, (A, B))`.  Several recognisers look for the test, not for its meaning on the branches.


def canonical_tests(tree: ast.AST) -> int:
    NEG = {ast.Is: ast.IsNot, ast.IsNot: ast.Is, ast.Eq: ast.NotEq, ast.NotEq: ast.Eq, ast.In: ast.NotIn, ast.NotIn: ast.In}
    k = [0]

    def is_isinstance(e):
        return isinstance(e, ast.Call) and isinstance(e.func, ast.Name) and e.func.id == 'isinstance' and len(e.args) == 2 and not e.keywords and isinstance(e.args[0], (ast.Name, ast.Attribute))

    class T(ast.NodeTransformer):
        def visit_UnaryOp(self, n):
            self.generic_visit(n)
            if isinstance(n.op, ast.Not) and isinstance(n.operand, ast.Compare) and len(n.operand.ops) == 1 and type(n.operand.ops[0]) in NEG:
                k[0] += 1
                return ast.copy_location(ast.Compare(left=n.operand.left, ops=[NEG[type(n.operand.ops[0])]()], comparators=n.operand.comparators), n)
            return n

        def visit_BoolOp(self, n):
            self.generic_visit(n)
            if not isinstance(n.op, ast.Or):
                return n
            out = []
            for v in n.values:
                if out and is_isinstance(v) and is_isinstance(out[-1]) and ast.dump(v.args[0]) == ast.dump(out[-1].args[0]):
                    prev = out[-1]
                    a = list(prev.args[1].elts) if isinstance(prev.args[1], ast.Tuple) else [prev.args[1]]
                    b = list(v.args[1].elts) if isinstance(v.args[1], ast.Tuple) else [v.args[1]]
                    out[-1] = ast.copy_location(ast.Call(func=prev.func, args=[prev.args[0], ast.copy_location(ast.Tuple(elts=a + b, ctx=ast.Load()), prev.args[1])], keywords=[]), prev)
                    k[0] += 1
                else:
                    out.append(v)
            if len(out) == 1:
                return out[0]
            n.values = out
            return n

    T().visit(tree)
    if k[0]:
        ast.fix_missing_locations(tree)
    return k[0]


# ---------------------------------------------------------------------------------------------------------------------
# (xvii) Queue calls with positional block / timeout: `q.get(True, t)` is read as `q.get(timeout=t)`, `q.get(False)` as
# `q.get(block=False)`, `q.put(x, True, t)` as `q.put(x, timeout=t)`.  Only with a literal True / False in the block
# position (`d.get(key, default)` of a mapping is not touched).
# (xviii) `x = a if c else b` as a statement is read as `if c: x = a` / `else: x = b` (one plain name as target).


def canonical_queue_calls(tree: ast.AST) -> int:
    k = 0
    for c in ast.walk(tree):
        if not (isinstance(c, ast.Call) and isinstance(c.func, ast.Attribute) and not c.keywords):
            continue
        me = c.func.attr
        at = 0 if me in ('get',) else (1 if me in ('put',) else None)
        if at is None or len(c.args) <= at or len(c.args) > at + 2:
            continue
        b = c.args[at]
        if not (isinstance(b, ast.Constant) and isinstance(b.value, bool)):
            continue
        rest = c.args[at + 1 :]
        c.args = c.args[:at]
        if b.value is False:
            c.keywords.append(ast.keyword(arg='block', value=b))
        if rest:
            c.keywords.append(ast.keyword(arg='timeout', value=rest[0]))
        k += 1
    return k


def expand_ternary_assignments(tree: ast.AST) -> int:
    k = [0]

    class T(ast.NodeTransformer):
        def visit_Assign(self, n):
            if isinstance(n.value, ast.IfExp) and len(n.targets) == 1 and isinstance(n.targets[0], ast.Name):
                k[0] += 1
                import copy

                t2 = copy.deepcopy(n.targets[0])
                new = ast.If(test=n.value.test, body=[ast.copy_location(ast.Assign(targets=[n.targets[0]], value=n.value.body), n)], orelse=[ast.copy_location(ast.Assign(targets=[t2], value=n.value.orelse), n)])
                return ast.copy_location(new, n)
            return n

    T().visit(tree)
    if k[0]:
        ast.fix_missing_locations(tree)
    return k[0]


# ---------------------------------------------------------------------------------------------------------------------
# (xix) Operand order of symmetric comparisons and pushed-in negations.  `None is z`, `0 == n`, `FINISHED == z` are read
# as `z is None`, `n == 0`, `z == FINISHED`: in ==, !=, is, is not the more constant operand goes to the right (literal >
# ALL-CAPS name > anything else; equal rank: left as written).  `not (a or b)` / `not (a and b)` are read as
# `not a and not b` / `not a or not b`, and `not not e` as `e` where e is boolean-valued (a comparison, an isinstance
# call, another negation, a boolean operation of such) or stands in a test position.


def _rank(e):
    if isinstance(e, ast.Constant):
        return 3
    if isinstance(e, ast.UnaryOp) and isinstance(e.operand, ast.Constant):
        return 3
    if isinstance(e, ast.Name) and e.id.isupper():
        return 2
    if isinstance(e, ast.Attribute) and e.attr.isupper():
        return 2
    return 1


def _boolean_valued(e):
    if isinstance(e, ast.Compare):
        return True
    if isinstance(e, ast.UnaryOp) and isinstance(e.op, ast.Not):
        return True
    if isinstance(e, ast.Call) and isinstance(e.func, ast.Name) and e.func.id in ('isinstance', 'issubclass', 'callable', 'hasattr', 'bool'):
        return True
    if isinstance(e, ast.BoolOp):
        return all(_boolean_valued(v) for v in e.values)
    if isinstance(e, ast.Constant) and isinstance(e.value, bool):
        return True
    return False


def canonical_operands(tree: ast.AST) -> int:
    k = [0]
    NEG = {ast.Is: ast.IsNot, ast.IsNot: ast.Is, ast.Eq: ast.NotEq, ast.NotEq: ast.Eq, ast.In: ast.NotIn, ast.NotIn: ast.In}

    for c in ast.walk(tree):
        if isinstance(c, ast.Compare) and len(c.ops) == 1 and isinstance(c.ops[0], (ast.Eq, ast.NotEq, ast.Is, ast.IsNot)):
            if _rank(c.left) > _rank(c.comparators[0]):
                c.left, c.comparators[0] = c.comparators[0], c.left
                k[0] += 1

    def neg(e, test):
        """the negation of e, pushed in"""
        if isinstance(e, ast.UnaryOp) and isinstance(e.op, ast.Not):
            inner = simp(e.operand, True)
            if test or _boolean_valued(inner):
                k[0] += 1
                return inner
            return ast.copy_location(ast.UnaryOp(op=ast.Not(), operand=e), e)
        if isinstance(e, ast.BoolOp):
            k[0] += 1
            dual = ast.Or() if isinstance(e.op, ast.And) else ast.And()
            return ast.copy_location(ast.BoolOp(op=dual, values=[neg(v, True) for v in e.values]), e)
        if isinstance(e, ast.Compare) and len(e.ops) == 1 and type(e.ops[0]) in NEG:
            k[0] += 1
            return ast.copy_location(ast.Compare(left=e.left, ops=[NEG[type(e.ops[0])]()], comparators=e.comparators), e)
        return ast.copy_location(ast.UnaryOp(op=ast.Not(), operand=simp(e, True)), e)

    def simp(e, test):
        if isinstance(e, ast.UnaryOp) and isinstance(e.op, ast.Not):
            if isinstance(e.operand, (ast.BoolOp, ast.UnaryOp)) or (isinstance(e.operand, ast.Compare) and len(e.operand.ops) == 1 and type(e.operand.ops[0]) in NEG):
                return neg(e.operand, test)
            return e
        if isinstance(e, ast.BoolOp) and test:
            e.values = [simp(v, True) for v in e.values]
            # flatten same-operator nesting produced by the push-in
            flat = []
            for v in e.values:
                if isinstance(v, ast.BoolOp) and type(v.op) is type(e.op):
                    flat.extend(v.values)
                else:
                    flat.append(v)
            e.values = flat
        return e

    class T(ast.NodeTransformer):
        def visit_If(self, n):
            self.generic_visit(n)
            n.test = simp(n.test, True)
            return n

        visit_While = visit_If
        visit_IfExp = visit_If

        def visit_Assert(self, n):
            self.generic_visit(n)
            n.test = simp(n.test, True)
            return n

        def visit_Return(self, n):
            self.generic_visit(n)
            if n.value is not None and isinstance(n.value, ast.UnaryOp):
                n.value = simp(n.value, False)
            return n

        def visit_Assign(self, n):
            self.generic_visit(n)
            if isinstance(n.value, ast.UnaryOp):
                n.value = simp(n.value, False)
            return n

    T().visit(tree)
    if k[0]:
        ast.fix_missing_locations(tree)
    return k[0]


# (xx) Orientation of the remaining symmetric comparisons (`end == z`, `n == z[2]`, `finished is z`): anchors.json records
# the symmetric comparisons of every outermost function as written in the confirmed tree; a comparison that is not among
# them while its mirror image is, is read as the mirror image.


def symmetric_comparisons(fn) -> list:
    out = set()
    for c in ast.walk(fn):
        if isinstance(c, ast.Compare) and len(c.ops) == 1 and isinstance(c.ops[0], (ast.Eq, ast.NotEq, ast.Is, ast.IsNot)):
            out.add(ast.dump(c.left) + '|' + type(c.ops[0]).__name__ + '|' + ast.dump(c.comparators[0]))
    return sorted(out)


def restore_orientation(fn, ref: list) -> int:
    ref = set(ref)
    k = 0
    for c in ast.walk(fn):
        if isinstance(c, ast.Compare) and len(c.ops) == 1 and isinstance(c.ops[0], (ast.Eq, ast.NotEq, ast.Is, ast.IsNot)):
            op = type(c.ops[0]).__name__
            key = ast.dump(c.left) + '|' + op + '|' + ast.dump(c.comparators[0])
            mirror = ast.dump(c.comparators[0]) + '|' + op + '|' + ast.dump(c.left)
            if key not in ref and mirror in ref:
                c.left, c.comparators[0] = c.comparators[0], c.left
                k += 1
    return k


# (xxi) `dict(a=x, b=y)` (keywords only) is read as the display `{'a': x, 'b': y}`.


def canonical_dicts(tree: ast.AST) -> int:
    k = [0]

    class T(ast.NodeTransformer):
        def visit_Call(self, n):
            self.generic_visit(n)
            if isinstance(n.func, ast.Name) and n.func.id == 'dict' and not n.args and n.keywords and all(kw.arg for kw in n.keywords):
                k[0] += 1
                return ast.copy_location(ast.Dict(keys=[ast.copy_location(ast.Constant(kw.arg), n) for kw in n.keywords], values=[kw.value for kw in n.keywords]), n)
            return n

    T().visit(tree)
    if k[0]:
        ast.fix_missing_locations(tree)
    return k[0]


# (xxii) `t = a` directly followed by `if not t: t = b` is read as `t = a or b`; `x = []` directly followed by a `for`
# whose whole body is `x.append(e)` (possibly under `if`s, loop variable not used elsewhere) as the list comprehension.


def recompose(tree: ast.AST) -> int:
    k = [0]

    def same(a, b):
        return ast.dump(a).replace('Store()', 'Load()') == ast.dump(b).replace('Store()', 'Load()')

    def fix(body, fn):
        out = []
        i = 0
        while i < len(body):
            st = body[i]
            nx = body[i + 1] if i + 1 < len(body) else None
            if isinstance(st, ast.Assign) and len(st.targets) == 1 and isinstance(st.targets[0], (ast.Name, ast.Attribute)) and isinstance(nx, ast.If) and not nx.orelse and len(nx.body) == 1:
                t = st.targets[0]
                b = nx.body[0]
                if isinstance(nx.test, ast.UnaryOp) and isinstance(nx.test.op, ast.Not) and same(nx.test.operand, t) and isinstance(b, ast.Assign) and len(b.targets) == 1 and same(b.targets[0], t) and not any(same(x, t) for x in ast.walk(b.value)):
                    st.value = ast.copy_location(ast.BoolOp(op=ast.Or(), values=[st.value, b.value]), st.value)
                    out.append(st)
                    k[0] += 1
                    i += 2
                    continue
            if isinstance(st, ast.Assign) and len(st.targets) == 1 and isinstance(st.targets[0], ast.Name) and isinstance(st.value, ast.List) and not st.value.elts and isinstance(nx, ast.For) and not nx.orelse and isinstance(nx.target, ast.Name):
                x = st.targets[0].id
                ifs = []
                b = nx.body
                while len(b) == 1 and isinstance(b[0], ast.If) and not b[0].orelse:
                    ifs.append(b[0].test)
                    b = b[0].body
                if len(b) == 1 and isinstance(b[0], ast.Expr) and isinstance(b[0].value, ast.Call) and isinstance(b[0].value.func, ast.Attribute) and b[0].value.func.attr == 'append' and isinstance(b[0].value.func.value, ast.Name) and b[0].value.func.value.id == x and len(b[0].value.args) == 1 and not b[0].value.keywords:
                    elt = b[0].value.args[0]
                    lv = nx.target.id
                    # occurrences in comprehensions that bind the same name themselves are other variables
                    own = set()
                    for cp in ast.walk(fn):
                        if isinstance(cp, (ast.ListComp, ast.SetComp, ast.DictComp, ast.GeneratorExp)) and any(isinstance(n_, ast.Name) and n_.id == lv for g_ in cp.generators for n_ in ast.walk(g_.target)):
                            own |= {id(n_) for n_ in ast.walk(cp) if isinstance(n_, ast.Name) and n_.id == lv}
                    inside = sum(1 for n_ in ast.walk(nx) if isinstance(n_, ast.Name) and n_.id == lv and id(n_) not in own)
                    total = sum(1 for n_ in ast.walk(fn) if isinstance(n_, ast.Name) and n_.id == lv and id(n_) not in own)
                    uses_x = any(isinstance(n_, ast.Name) and n_.id == x for e_ in [elt, nx.iter] + ifs for n_ in ast.walk(e_))
                    if inside == total and not uses_x:
                        st.value = ast.copy_location(ast.ListComp(elt=elt, generators=[ast.comprehension(target=nx.target, iter=nx.iter, ifs=ifs, is_async=0)]), st.value)
                        out.append(st)
                        k[0] += 1
                        i += 2
                        continue
            out.append(st)
            i += 1
        return out

    def rec(n, fn):
        if isinstance(n, (ast.FunctionDef, ast.AsyncFunctionDef)):
            fn = n
        for fld in ('body', 'orelse', 'finalbody'):
            b = getattr(n, fld, None)
            if isinstance(b, list) and b and isinstance(b[0], ast.stmt):
                if fn is not None:
                    setattr(n, fld, fix(b, fn))
        for c in ast.iter_child_nodes(n):
            rec(c, fn)

    rec(tree, None)
    if k[0]:
        ast.fix_missing_locations(tree)
    return k[0]


# (xxiii) `while True:` whose first statement is `if c: break` (no else on either) is read as `while not c:`.


def canonical_while(tree: ast.AST) -> int:
    k = 0
    for n in ast.walk(tree):
        if isinstance(n, ast.While) and isinstance(n.test, ast.Constant) and n.test.value in (True, 1) and not n.orelse and len(n.body) > 1:
            f = n.body[0]
            if isinstance(f, ast.If) and not f.orelse and len(f.body) == 1 and isinstance(f.body[0], ast.Break):
                n.test = ast.copy_location(ast.UnaryOp(op=ast.Not(), operand=f.test), f.test)
                n.body = n.body[1:]
                k += 1
    if k:
        ast.fix_missing_locations(tree)
    return k


# (xxiv) `L.acquire()` directly followed by `try: B finally: L.release()` (no handlers, nothing else in the finally) is read
# as `with L: B`; `return a if c else b` is read as `if c: return a` / `else: return b`.


def canonical_regions(tree: ast.AST) -> int:
    k = [0]

    def plain_call(st, meth):
        if isinstance(st, ast.Expr) and isinstance(st.value, ast.Call) and isinstance(st.value.func, ast.Attribute) and st.value.func.attr == meth and not st.value.args and not st.value.keywords:
            return st.value.func.value
        return None

    def fix(body):
        out = []
        i = 0
        while i < len(body):
            st = body[i]
            nx = body[i + 1] if i + 1 < len(body) else None
            rcv = plain_call(st, 'acquire')
            if rcv is not None and isinstance(rcv, (ast.Name, ast.Attribute)) and isinstance(nx, ast.Try) and not nx.handlers and not nx.orelse and len(nx.finalbody) == 1:
                rel = plain_call(nx.finalbody[0], 'release')
                if rel is not None and ast.dump(rel) == ast.dump(rcv):
                    out.append(ast.copy_location(ast.With(items=[ast.withitem(context_expr=rcv, optional_vars=None)], body=nx.body), st))
                    k[0] += 1
                    i += 2
                    continue
            if isinstance(st, ast.Return) and isinstance(st.value, ast.IfExp):
                out.append(ast.copy_location(ast.If(test=st.value.test, body=[ast.copy_location(ast.Return(value=st.value.body), st)], orelse=[ast.copy_location(ast.Return(value=st.value.orelse), st)]), st))
                k[0] += 1
                i += 1
                continue
            out.append(st)
            i += 1
        return out

    for n in ast.walk(tree):
        for fld in ('body', 'orelse', 'finalbody'):
            b = getattr(n, fld, None)
            if isinstance(b, list) and b and isinstance(b[0], ast.stmt):
                setattr(n, fld, fix(b))
        if isinstance(n, ast.Try):
            for h in n.handlers:
                h.body = fix(h.body)
    if k[0]:
        ast.fix_missing_locations(tree)
    return k[0]


# (xxv) `args=[a, b]` in a call (Thread, Process, Finalize, submit wrappers) is read as `args=(a, b)`.


def canonical_args(tree: ast.AST) -> int:
    k = 0
    for c in ast.walk(tree):
        if isinstance(c, ast.Call):
            for kw in c.keywords:
                if kw.arg == 'args' and isinstance(kw.value, ast.List) and not any(isinstance(e, ast.Starred) for e in kw.value.elts):
                    kw.value = ast.copy_location(ast.Tuple(elts=kw.value.elts, ctx=ast.Load()), kw.value)
                    k += 1
    return k


# (xxvi) `with contextlib.suppress(E, ...): B` (alone in its with statement, not bound) is read as `try: B` /
# `except (E, ...): pass`; `list()`, `dict()`, `tuple()` without arguments as the empty displays.


def canonical_suppress(tree: ast.AST) -> int:
    k = [0]

    class T(ast.NodeTransformer):
        def visit_With(self, n):
            self.generic_visit(n)
            if len(n.items) == 1 and n.items[0].optional_vars is None:
                c = n.items[0].context_expr
                if isinstance(c, ast.Call) and not c.keywords and c.args and ((isinstance(c.func, ast.Attribute) and c.func.attr == 'suppress' and isinstance(c.func.value, ast.Name) and c.func.value.id == 'contextlib') or (isinstance(c.func, ast.Name) and c.func.id == 'suppress')):
                    k[0] += 1
                    typ = c.args[0] if len(c.args) == 1 else ast.Tuple(elts=list(c.args), ctx=ast.Load())
                    h = ast.ExceptHandler(type=typ, name=None, body=[ast.copy_location(ast.Pass(), n)])
                    return ast.copy_location(ast.Try(body=n.body, handlers=[ast.copy_location(h, n)], orelse=[], finalbody=[]), n)
            return n

        def visit_Call(self, n):
            self.generic_visit(n)
            if isinstance(n.func, ast.Name) and not n.args and not n.keywords and n.func.id in ('list', 'dict', 'tuple'):
                k[0] += 1
                if n.func.id == 'list':
                    return ast.copy_location(ast.List(elts=[], ctx=ast.Load()), n)
                if n.func.id == 'tuple':
                    return ast.copy_location(ast.Tuple(elts=[], ctx=ast.Load()), n)
                return ast.copy_location(ast.Dict(keys=[], values=[]), n)
            return n

    T().visit(tree)
    if k[0]:
        ast.fix_missing_locations(tree)
    return k[0]


def canonicalize(tree: ast.AST) -> None:
    """the canonical forms (vii)-(ix), (xvi)-(xxvi), in the one order every user of them applies"""
    deannotate(tree)
    canonical_imports(tree)
    augment(tree)
    for _ in range(3):  # nested regions: the walk sees a block before its rewritten children
        if not canonical_regions(tree):
            break
    canonical_while(tree)
    canonical_operands(tree)
    canonical_tests(tree)
    canonical_queue_calls(tree)
    canonical_dicts(tree)
    canonical_args(tree)
    canonical_suppress(tree)
    recompose(tree)
    expand_ternary_assignments(tree)
