"""Source-level normalisations applied to every module before any rule looks at it.

Only rewrites whose two sides have the same control flow, effects and exception behaviour are done,
so that rules written against the common idiom also read its spelled-out form:

  it = iter(E)                       for x in E:
  while True:                            BODY
      try:                   ==>
          x = next(it)
      except StopIteration:
          break
      BODY

(and the `aiter` / `await anext(it)` / `StopAsyncIteration` form ==> `async for`), provided `it` is used
nowhere else in the function and the `while` has no `else`.
"""

from __future__ import annotations

import ast


def _is_true(e):
    return isinstance(e, ast.Constant) and e.value in (True, 1) and not isinstance(e.value, str)


def _iter_call(v):
    """(source expr, is_async) if v is iter(E) / aiter(E) / E.__iter__() / E.__aiter__()"""
    if isinstance(v, ast.Call) and not v.keywords:
        if isinstance(v.func, ast.Name) and v.func.id in ('iter', 'aiter') and len(v.args) == 1:
            return v.args[0], v.func.id == 'aiter'
        if isinstance(v.func, ast.Attribute) and v.func.attr in ('__iter__', '__aiter__') and not v.args:
            return v.func.value, v.func.attr == '__aiter__'
    return None


def _next_call(v, it):
    """is_async if v is next(it) / await anext(it) / await it.__anext__() / it.__next__()"""
    is_async = False
    if isinstance(v, ast.Await):
        v, is_async = v.value, True
    if isinstance(v, ast.Call) and not v.keywords:
        if isinstance(v.func, ast.Name) and v.func.id == ('anext' if is_async else 'next') and len(v.args) == 1 and isinstance(v.args[0], ast.Name) and v.args[0].id == it:
            return is_async
        if isinstance(v.func, ast.Attribute) and v.func.attr == ('__anext__' if is_async else '__next__') and not v.args and isinstance(v.func.value, ast.Name) and v.func.value.id == it:
            return is_async
    return None


def _uses(func_node, name):
    return sum(1 for n in ast.walk(func_node) if isinstance(n, ast.Name) and n.id == name)


def _rewrite_block(body, func_node):
    changed = False
    i = 0
    while i < len(body):
        st = body[i]
        if isinstance(st, ast.While) and _is_true(st.test) and not st.orelse and st.body and isinstance(st.body[0], ast.Try):
            tr = st.body[0]
            if len(tr.body) == 1 and isinstance(tr.body[0], ast.Assign) and len(tr.body[0].targets) == 1 and not tr.orelse and not tr.finalbody and len(tr.handlers) == 1 and len(tr.handlers[0].body) == 1 and isinstance(tr.handlers[0].body[0], ast.Break) and tr.handlers[0].name is None:
                asg = tr.body[0]
                # find `it = iter(E)` earlier in the same block
                for j in range(i - 1, -1, -1):
                    d = body[j]
                    if isinstance(d, ast.Assign) and len(d.targets) == 1 and isinstance(d.targets[0], ast.Name):
                        it = d.targets[0].id
                        ic = _iter_call(d.value)
                        na = _next_call(asg.value, it)
                        if ic is None or na is None or ic[1] != na:
                            continue
                        h = tr.handlers[0].type
                        want = 'StopAsyncIteration' if na else 'StopIteration'
                        if not (isinstance(h, ast.Name) and h.id == want):
                            continue
                        if _uses(func_node, it) != 2:
                            continue
                        cls = ast.AsyncFor if na else ast.For
                        new = cls(target=asg.targets[0], iter=ic[0], body=st.body[1:] or [ast.Pass()], orelse=[], type_comment=None)
                        ast.copy_location(new, st)
                        new.end_lineno, new.end_col_offset = st.end_lineno, st.end_col_offset
                        for t in ast.walk(new.target):
                            if hasattr(t, 'ctx'):
                                t.ctx = ast.Store()
                        if not st.body[1:]:
                            ast.copy_location(new.body[0], st)
                        body[i] = new
                        del body[j]
                        i -= 1
                        changed = True
                        break
        i += 1
    return changed


def normalize(tree: ast.AST) -> int:
    """Rewrite in place; returns the number of loops normalised."""
    n = 0
    for fn in [x for x in ast.walk(tree) if isinstance(x, (ast.FunctionDef, ast.AsyncFunctionDef))]:
        again = True
        while again:
            again = False
            for node in ast.walk(fn):
                for fld in ('body', 'orelse', 'finalbody'):
                    blk = getattr(node, fld, None)
                    if isinstance(blk, list) and blk and isinstance(blk[0], ast.stmt):
                        if _rewrite_block(blk, fn):
                            n += 1
                            again = True
                            break
                if again:
                    break
    return n
