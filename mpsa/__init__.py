"""mpsa -- a small, repository-specific static-analysis engine for zpz/mpservice.

Pure stdlib (ast only).  Nothing from /repo is ever imported or executed: every
verdict is computed from the source text of the *current* working tree.

Modules
-------
loader    parse the package, symbol tables, anchors (fail-closed)
exc       abstract exception lattice (class names, sub-class relation)
cfg       statement-level control-flow graph with exception / generator edges
flow      generic dataflow + path utilities (definite assignment, dominators,
          must-pass-through, min/max event counts, lock sets, guard facts)
match     helpers to recognise calls / attribute chains / aliases
report    obligations, findings, evidence, known findings, exit codes
"""
