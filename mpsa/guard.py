"""GUARD: path-sensitive type / None facts about local variables.

State at a node = a set of *disjuncts*; each disjunct is a frozenset of facts
    ('pos', var, K)   var is an instance of class K
    ('neg', var, K)   var is not an instance of K
    ('none', var) / ('notnone', var)
Disjuncts are kept apart (no lossy join), so correlations such as
"x was re-wrapped on the branch where it was an Exception" survive.  Branches whose
condition contradicts a disjunct are pruned for that disjunct.
"""

from __future__ import annotations

import ast

from .cfg import CFG, Edge, Node
from .exc import ExcLattice
from .flow import assigned_names, forward
from .loader import dotted

MAX_DISJUNCTS = 256


def _kill(d, var):
    # ('boolof', b, text, subject): `b` holds the truth value of a test of `subject`; dies with either name
    return frozenset(f for f in d if f[1] != var and not (f[0] == 'boolof' and f[3] == var))


def _test_subject(t):
    """the local name a simple test is about (`isinstance(x, K)`, `x is None`, `x is not None`, `not <such>`), else None"""
    while isinstance(t, ast.UnaryOp) and isinstance(t.op, ast.Not):
        t = t.operand
    if isinstance(t, ast.Call) and dotted(t.func) == 'isinstance' and len(t.args) == 2 and isinstance(t.args[0], ast.Name):
        return t.args[0].id
    if isinstance(t, ast.Compare) and len(t.ops) == 1 and isinstance(t.left, ast.Name) and isinstance(t.ops[0], (ast.Is, ast.IsNot)) and isinstance(t.comparators[0], ast.Constant) and t.comparators[0].value is None:
        return t.left.id
    return None


def _classes(e):
    return [n for n in (ExcLattice.names_of(e) or []) if n != '?']


class Guard:
    def __init__(self, cfg: CFG, lat: ExcLattice, *, edge_ok=None):
        self.cfg = cfg
        self.lat = lat
        self._tests = {}
        self.state = forward(cfg, frozenset({frozenset()}), self._transfer, self._join, edge_ok=edge_ok)

    @staticmethod
    def _join(a, b):
        u = a | b
        if len(u) > MAX_DISJUNCTS:
            # give up precision soundly: keep only what all disjuncts agree on
            common = frozenset.intersection(*u)
            return frozenset({common})
        return u

    # -- conditions ------------------------------------------------------
    def _assume(self, d, test, truth: bool):
        """Refine disjunct d with `test == truth`; None if contradictory."""
        lat = self.lat
        if isinstance(test, ast.UnaryOp) and isinstance(test.op, ast.Not):
            return self._assume(d, test.operand, not truth)
        if isinstance(test, ast.BoolOp):
            if isinstance(test.op, ast.And) and truth:
                for v in test.values:
                    d = self._assume(d, v, True)
                    if d is None:
                        return None
                return d
            if isinstance(test.op, ast.Or) and not truth:
                for v in test.values:
                    d = self._assume(d, v, False)
                    if d is None:
                        return None
                return d
            # `a and b` is false / `a or b` is true: nothing can be added, but the branch is infeasible
            # when every operand is already known to contradict it
            if all(self._assume(d, v, truth) is None for v in test.values):
                return None
            return d
        if isinstance(test, ast.Name):
            var = test.id
            if ('true' if not truth else 'false', var) in d:
                return None
            d = d | {('true' if truth else 'false', var)}
            # `failed = isinstance(y, Exception)` ... `if failed:` -- the flag stands for the test it was computed from
            for f in list(d):
                if f[0] == 'boolof' and f[1] == var and f[2] in self._tests:
                    d = self._assume(d, self._tests[f[2]], truth)
                    if d is None:
                        return None
            return d
        if isinstance(test, ast.Call) and dotted(test.func) == 'isinstance' and len(test.args) == 2 and isinstance(test.args[0], ast.Name):
            var = test.args[0].id
            ks = _classes(test.args[1])
            if not ks:
                return d
            pos = [f[2] for f in d if f[0] == 'pos' and f[1] == var]
            neg = [f[2] for f in d if f[0] == 'neg' and f[1] == var]
            if truth:
                # contradiction: every tested class is excluded by a negative fact
                if all(any(lat.is_sub(k, n) for n in neg) for k in ks):
                    return None
                if ('none', var) in d:
                    return None
                add = {('notnone', var)}
                if len(ks) == 1:
                    add.add(('pos', var, ks[0]))
                return d | add
            else:
                if any(any(lat.is_sub(p, k) for k in ks) for p in pos):
                    return None
                return d | {('neg', var, k) for k in ks}
        if isinstance(test, ast.Compare) and len(test.ops) == 1 and isinstance(test.left, ast.Name):
            var = test.left.id
            op, r = test.ops[0], test.comparators[0]
            if isinstance(r, ast.Constant) and r.value is None and isinstance(op, (ast.Is, ast.IsNot)):
                is_none = truth if isinstance(op, ast.Is) else not truth
                if is_none:
                    if ('notnone', var) in d or any(f[0] == 'pos' and f[1] == var for f in d):
                        return None
                    return d | {('none', var)}
                if ('none', var) in d:
                    return None
                return d | {('notnone', var)}
        return d

    # -- effects ---------------------------------------------------------
    def _effect(self, d, n: Node):
        a = n.ast
        names = assigned_names(n)
        if not names:
            return d
        for v in names:
            d = _kill(d, v)
        if n.kind == 'except' and a.name:
            ks = _classes(a.type) if a.type is not None else ['BaseException']
            if len(ks) == 1:
                d = d | {('pos', a.name, ks[0])}
            d = d | {('notnone', a.name), ('exc', a.name)}
            return d
        if n.kind == 'stmt' and isinstance(a, ast.Assign) and len(a.targets) == 1 and isinstance(a.targets[0], ast.Tuple) and isinstance(a.value, ast.Tuple) and len(a.targets[0].elts) == len(a.value.elts):
            # a, b = None, None
            for t, v in zip(a.targets[0].elts, a.value.elts):
                if isinstance(t, ast.Name) and isinstance(v, ast.Constant):
                    d = d | ({('none', t.id)} if v.value is None else {('notnone', t.id)})
            return d
        if n.kind == 'stmt' and isinstance(a, ast.Assign) and len(a.targets) == 1 and isinstance(a.targets[0], ast.Name):
            var = a.targets[0].id
            v = a.value
            if isinstance(v, ast.Await):
                v = v.value
            if isinstance(v, ast.Constant) and v.value is None:
                return d | {('none', var)}
            if isinstance(v, ast.Constant):
                return d | {('notnone', var)}
            if isinstance(v, ast.Call):
                k = dotted(v.func)
                if k and k.split('.')[-1].lstrip('_')[:1].isupper():
                    return d | {('pos', var, k.split('.')[-1]), ('notnone', var)}
            if isinstance(v, (ast.List, ast.Tuple, ast.Dict, ast.Set, ast.ListComp, ast.JoinedStr)):
                return d | {('notnone', var), ('neg', var, 'BaseException'), ('container', var)}
            if not isinstance(v, ast.Name):
                subj = _test_subject(v)
                if subj is not None and subj != var:
                    from .loader import norm_text

                    txt = norm_text(v)
                    self._tests[txt] = v
                    return d | {('derived', var), ('boolof', var, txt, subj)}
                # computed from something else (element of a result, attribute, user function result):
                # no longer one of the tracked exception-carrying message values
                return d | {('derived', var)}
        return d

    def _effect_src_facts(self, d_before, d_after, n: Node):
        """`x = e` copies the facts of e (evaluated in the pre-state)."""
        a = n.ast
        if n.kind == 'stmt' and isinstance(a, ast.Assign) and len(a.targets) == 1 and isinstance(a.targets[0], ast.Name) and isinstance(a.value, ast.Name):
            var, src = a.targets[0].id, a.value.id
            if var != src:
                return d_after | {(f[0], var) + tuple(f[2:]) for f in d_before if f[1] == src}
        return d_after

    def _transfer_one(self, e: Edge, d):
        n = self.cfg.nodes[e.src]
        if e.kind == 'exc':
            return d
        if n.kind == 'test':
            if e.kind in ('T', 'F'):
                return self._assume(d, n.ast, e.kind == 'T')
            return d
        if n.kind == 'for':
            return self._effect(d, n) if e.kind == 'iter' else d
        return self._effect_src_facts(d, self._effect(d, n), n)

    def _transfer(self, e: Edge, S):
        out = set()
        for d in S:
            nd = self._transfer_one(e, d)
            if nd is not None:
                out.add(nd)
        if not out:
            return None
        return frozenset(out)

    def feasible_path(self, start_edges, targets, *, avoid=(), edge_ok=None, limit=20000):
        """Path-sensitive reachability: is there a path from one of `start_edges` to a node in
        `targets`, not entering `avoid`, along which the accumulated facts never contradict a branch
        taken?  Search over (node, disjunct) pairs.  Returns a node-id path or None."""
        from collections import deque

        targets, avoid = set(targets), set(avoid)
        prev = {}
        dq = deque()
        for e in start_edges:
            if edge_ok and not edge_ok(e):
                continue
            for d in self.at(e.src) or [frozenset()]:
                nd = self._transfer_one(e, d)
                if nd is None:
                    continue
                if e.dst in avoid and e.dst not in targets:
                    continue
                k = (e.dst, nd)
                if k not in prev:
                    prev[k] = None
                    dq.append(k)
        while dq and len(prev) < limit:
            k = dq.popleft()
            n, d = k
            if n in targets:
                path = []
                while k is not None:
                    path.append(k[0])
                    k = prev[k]
                return list(reversed(path))
            for e in self.cfg.succ[n]:
                if edge_ok and not edge_ok(e):
                    continue
                nd = self._transfer_one(e, d)
                if nd is None:
                    continue
                if e.dst in avoid and e.dst not in targets:
                    continue
                k2 = (e.dst, nd)
                if k2 not in prev:
                    prev[k2] = k
                    dq.append(k2)
        return None

    # -- queries ---------------------------------------------------------
    def at(self, nid):
        return self.state.get(nid, frozenset())

    def excluded(self, nid, var, cls) -> bool:
        """In every disjunct reaching node nid, var is known not to be an instance of cls."""
        S = self.at(nid)
        if not S:
            return True  # unreachable
        lat = self.lat
        for d in S:
            ok = any(f[0] == 'neg' and f[1] == var and lat.is_sub(cls, f[2]) for f in d)
            if not ok:
                # a positive fact for an unrelated class also excludes: a non-exception package class
                # (RemoteException) vs an exception class, in either direction
                pos = [f[2] for f in d if f[0] == 'pos' and f[1] == var]
                ok = (any(p in lat.other and p != cls for p in pos) and cls not in lat.other) or (cls in lat.other and any(p not in lat.other and p != cls for p in pos))
            if not ok:
                return False
        return True

    def counterexample(self, nid, var, cls):
        for d in self.at(nid):
            if not any(f[0] == 'neg' and f[1] == var and self.lat.is_sub(cls, f[2]) for f in d):
                return sorted(f for f in d if f[1] == var)
        return None

    def notnone(self, nid, var) -> bool:
        S = self.at(nid)
        return all(('notnone', var) in d or any(f[0] == 'pos' and f[1] == var for f in d) for d in S)

    def derived(self, nid, var) -> bool:
        S = self.at(nid)
        return bool(S) and all(('derived', var) in d for d in S)

    def positive(self, nid, var, cls) -> bool:
        S = self.at(nid)
        return bool(S) and all(any(f[0] == 'pos' and f[1] == var and self.lat.is_sub(f[2], cls) for f in d) for d in S)
