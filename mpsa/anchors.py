"""Rename tolerance for anchored functions.

The rules name the functions they analyse (`Worker._start_single`, `Buffer._finalize`, ...).  A maintainer who renames
such a (private) function consistently has changed no behaviour, and the run should neither pass vacuously nor stop as
analysis-broken.  `/verif/anchors.json` (written by tools/gen_anchors.py from the tree the rules were confirmed on)
keeps, for every function a rule looks up, a fingerprint of its body.  When a module is loaded and a recorded name is
missing while a function *with no recorded name* sits under the same parent (class / enclosing function / module) and
has practically the same body, the tree is read with the new name mapped back to the recorded one: the definition and
the references inside the module are renamed in the syntax tree the rules see (never on disk), and the mapping is
reported in the output and the evidence.  Anything less than a clear, unique match is left alone (the lookup then fails
as an anchor error, as before).
"""

from __future__ import annotations

import ast
import json
from collections import Counter
from pathlib import Path

ANCHORS_FILE = Path(__file__).resolve().parent.parent / 'anchors.json'
MIN_SIM = 0.80
MIN_MARGIN = 0.10

_cache = None


def load_anchors():
    global _cache
    if _cache is None:
        try:
            _cache = json.loads(ANCHORS_FILE.read_text())
        except Exception:  # noqa: BLE001
            _cache = {}
    return _cache


def fingerprint(func_node, own_name=None) -> Counter:
    """Bag of structural tokens of a function body (its own name and docstring excluded)."""
    own = own_name or func_node.name
    c: Counter = Counter()
    body = list(func_node.body)
    if body and isinstance(body[0], ast.Expr) and isinstance(body[0].value, ast.Constant) and isinstance(body[0].value.value, str):
        body = body[1:]
    for st in body:
        for n in ast.walk(st):
            c['T:' + type(n).__name__] += 1
            if isinstance(n, ast.Attribute) and n.attr != own:
                c['A:' + n.attr] += 1
            elif isinstance(n, ast.Name) and n.id != own:
                c['N:' + n.id] += 1
            elif isinstance(n, ast.Constant) and isinstance(n.value, (str, int)) and not isinstance(n.value, bool):
                c['C:' + repr(n.value)[:24]] += 1
            elif isinstance(n, ast.arg):
                c['P:' + n.arg] += 1
    a = func_node.args
    for x in a.posonlyargs + a.args + a.kwonlyargs:
        c['P:' + x.arg] += 1
    return c


def similarity(a: Counter, b: Counter) -> float:
    keys = set(a) | set(b)
    num = sum(min(a.get(k, 0), b.get(k, 0)) for k in keys)
    den = sum(max(a.get(k, 0), b.get(k, 0)) for k in keys)
    return num / den if den else 0.0


def _rename_in(tree_or_node, new, old, *, attrs=True, names=True):
    for n in ast.walk(tree_or_node):
        if attrs and isinstance(n, ast.Attribute) and n.attr == new:
            n.attr = old
        elif names and isinstance(n, ast.Name) and n.id == new:
            n.id = old
        elif isinstance(n, (ast.FunctionDef, ast.AsyncFunctionDef)) and n.name == new:
            n.name = old
        elif isinstance(n, ast.keyword) and False:
            pass


def reconcile(module) -> list[tuple[str, str, float]]:
    """Map renamed functions of `module` back to their recorded names (in the AST).  Returns [(new, old, similarity)]."""
    ref = load_anchors().get(module.rel)
    if not ref or module.rel == '__all__':
        return []
    current = module.functions
    missing = [q for q in ref if q not in current]
    if not missing:
        return []
    proposals = []
    for old_q in missing:
        prefix = old_q.rsplit('.', 1)[0] + '.' if '.' in old_q else ''
        # candidates: functions under the same parent whose name is not a recorded one
        cands = [q for q in current if (q.rsplit('.', 1)[0] + '.' if '.' in q else '') == prefix and q not in ref and '#' not in q]
        if not cands:
            continue
        want = Counter(ref[old_q])
        scored = sorted(((similarity(want, fingerprint(current[q].node)), q) for q in cands), reverse=True)
        best, best_q = scored[0]
        second = scored[1][0] if len(scored) > 1 else 0.0
        if best < MIN_SIM or best - second < MIN_MARGIN:
            continue
        proposals.append((old_q, best_q, best))
    out = []
    groups: dict = {}
    for old_q, best_q, sim in proposals:
        groups.setdefault((old_q.rsplit('.', 1)[-1], best_q.rsplit('.', 1)[-1]), []).append((old_q, best_q, sim))
    for (old_name, new_name), members in groups.items():
        # the new name must not mean anything else in this module: every function carrying it is part of this very
        # rename (the same helper renamed in sibling classes / sibling generators counts as one rename)
        carrying = {q for q in current if q.rsplit('.', 1)[-1] == new_name}
        if carrying != {b for _, b, _ in members}:
            continue
        if any(q.rsplit('.', 1)[-1] == old_name for q in current):
            continue  # the recorded name is still in use elsewhere in the module: not a plain rename
        kinds = {('method' if current[b].cls is not None else ('nested' if current[b].parent is not None else 'top')) for _, b, _ in members}
        for old_q, best_q, sim in members:
            fi = current[best_q]
            if fi.cls is not None:
                _rename_in(module.tree, new_name, old_name, attrs=True, names=False)
            elif fi.parent is not None:
                _rename_in(fi.parent.node, new_name, old_name, attrs=False, names=True)
            else:
                _rename_in(module.tree, new_name, old_name, attrs=True, names=True)
            fi.node.name = old_name
            out.append((best_q, old_q, round(sim, 3)))
    return out
