"""Finite-domain evaluation of branch conditions.

Some clauses depend on a value only through a handful of tests (`e.code is None`, `isinstance(e.code, int)`,
`e.code == 0`, `not e.code`).  For those the set of behaviours is finite: one representative per outcome class of the
tests decides which branch is taken.  `eval_expr` interprets the *test expressions* (never repository code) over such
representatives; `walk` follows the CFG of a region deterministically for one representative and reports the events met.
"""

from __future__ import annotations

import ast

from .loader import dotted

UNKNOWN = object()
_TYPES = {'int': int, 'str': str, 'float': float, 'bool': bool, 'bytes': bytes, 'list': list, 'tuple': tuple, 'dict': dict, 'set': set, 'BaseException': BaseException, 'Exception': Exception}


def eval_expr(e, env: dict):
    """value of expression `e` with the dotted names in `env` bound, or UNKNOWN"""
    d = dotted(e)
    if d is not None and d in env:
        return env[d]
    if env.get('__texts__'):
        from .loader import norm_text

        t = norm_text(e)
        if t in env['__texts__']:
            return env['__texts__'][t]
    if isinstance(e, ast.Constant):
        return e.value
    if isinstance(e, ast.Name) and e.id in _TYPES:
        return _TYPES[e.id]
    if isinstance(e, ast.Tuple):
        vs = [eval_expr(x, env) for x in e.elts]
        return UNKNOWN if any(v is UNKNOWN for v in vs) else tuple(vs)
    if isinstance(e, ast.UnaryOp):
        v = eval_expr(e.operand, env)
        if v is UNKNOWN:
            return UNKNOWN
        if isinstance(e.op, ast.Not):
            return not v
        if isinstance(e.op, ast.USub) and isinstance(v, (int, float)):
            return -v
        return UNKNOWN
    if isinstance(e, ast.BoolOp):
        is_and = isinstance(e.op, ast.And)
        unknown = False
        last = None
        for x in e.values:
            v = eval_expr(x, env)
            if v is UNKNOWN:
                unknown = True
                continue
            last = v
            if is_and and not v:
                return v
            if not is_and and v:
                return v
        return UNKNOWN if unknown else last
    if isinstance(e, ast.Compare):
        left = eval_expr(e.left, env)
        for op, r in zip(e.ops, e.comparators):
            right = eval_expr(r, env)
            if left is UNKNOWN or right is UNKNOWN:
                return UNKNOWN
            try:
                if isinstance(op, ast.Is):
                    ok = left is right
                elif isinstance(op, ast.IsNot):
                    ok = left is not right
                elif isinstance(op, ast.Eq):
                    ok = left == right
                elif isinstance(op, ast.NotEq):
                    ok = left != right
                elif isinstance(op, ast.Lt):
                    ok = left < right
                elif isinstance(op, ast.LtE):
                    ok = left <= right
                elif isinstance(op, ast.Gt):
                    ok = left > right
                elif isinstance(op, ast.GtE):
                    ok = left >= right
                elif isinstance(op, ast.In):
                    ok = left in right
                elif isinstance(op, ast.NotIn):
                    ok = left not in right
                else:
                    return UNKNOWN
            except TypeError:
                return UNKNOWN
            if not ok:
                return False
            left = right
        return True
    if isinstance(e, ast.Call) and dotted(e.func) == 'isinstance' and len(e.args) == 2:
        v, t = eval_expr(e.args[0], env), eval_expr(e.args[1], env)
        if v is UNKNOWN or t is UNKNOWN:
            return UNKNOWN
        try:
            return isinstance(v, t)
        except TypeError:
            return UNKNOWN
    if isinstance(e, ast.Call) and dotted(e.func) == 'bool' and len(e.args) == 1:
        v = eval_expr(e.args[0], env)
        return UNKNOWN if v is UNKNOWN else bool(v)
    if isinstance(e, ast.IfExp):
        t = eval_expr(e.test, env)
        if t is UNKNOWN:
            return UNKNOWN
        return eval_expr(e.body if t else e.orelse, env)
    return UNKNOWN


def walk(cfg, start_id, env, event, stop, limit=400):
    """Follow the CFG from node `start_id` for one assignment of representative values.  At a test whose value is
    UNKNOWN both branches are explored.  Returns the set of event tuples of the explored paths (each path = tuple of
    the non-None `event(node)` values), cut where `stop(node)` holds or the region is left."""
    out = set()
    todo = [(start_id, ())]
    seen = 0
    while todo and seen < limit:
        nid, evs = todo.pop()
        seen += 1
        n = cfg.nodes[nid]
        if stop(n) and nid != start_id:
            out.add(evs)
            continue
        ev = event(n)
        if ev is not None:
            evs = evs + (ev,)
        succ = [e for e in cfg.succ[nid] if not e.is_exc]
        if n.kind == 'test':
            v = eval_expr(n.ast, env)
            if v is not UNKNOWN:
                want = 'T' if v else 'F'
                succ = [e for e in succ if e.kind == want]
        if not succ:
            out.add(evs)
        for e in succ:
            if (e.src, e.dst) in cfg.back_edges:
                out.add(evs)
                continue
            todo.append((e.dst, evs))
    return out
