"""Recognisers: calls, attribute chains, aliases, spawn sites, class-level facts."""

from __future__ import annotations

import ast
from dataclasses import dataclass, field

from .cfg import calls_in, walk_shallow
from .loader import ClassInfo, FuncInfo, Module, Repo, dotted


def call_dotted(call: ast.Call) -> str | None:
    return dotted(call.func)


def method_of(call: ast.Call):
    """(receiver expr, method name) for `recv.meth(...)`, else (None, None)."""
    if isinstance(call.func, ast.Attribute):
        return call.func.value, call.func.attr
    return None, None


def kwarg(call: ast.Call, name):
    for k in call.keywords:
        if k.arg == name:
            return k.value
    return None


def has_timeout(call: ast.Call, *, pos_index=None) -> bool:
    """Is the blocking call bounded (timeout= given and not None, or block=False)?"""
    t = kwarg(call, 'timeout')
    if t is not None and not (isinstance(t, ast.Constant) and t.value is None):
        return True
    b = kwarg(call, 'block')
    if b is not None and isinstance(b, ast.Constant) and b.value is False:
        return True
    if pos_index is not None and len(call.args) > pos_index:
        a = call.args[pos_index]
        if not (isinstance(a, ast.Constant) and a.value is None):
            return True
    return False


def names_in(node) -> set[str]:
    return {n.id for n in walk_shallow(node) if isinstance(n, ast.Name)}


def is_name(e, name) -> bool:
    return isinstance(e, ast.Name) and e.id == name


def is_none(e) -> bool:
    return isinstance(e, ast.Constant) and e.value is None


def unwrap_await(e):
    while isinstance(e, ast.Await):
        e = e.value
    return e


def stmt_value(st):
    """The value expression of Assign/Expr/Return/AugAssign/AnnAssign, unwrapped from await."""
    v = getattr(st, 'value', None)
    return unwrap_await(v) if v is not None else None


class Scope:
    """Alias resolution inside one function.

    canon(expr) -> canonical dotted string.  A local assigned exactly once from a
    Name/Attribute chain is an alias of that chain; parameters bound at a spawn site
    are aliases of the caller's expression (so that `q` inside the feeder *is* the
    `tasks` of the enclosing function).
    """

    def __init__(self, func: FuncInfo, bindings: dict[str, str] | None = None):
        self.func = func
        self.alias: dict[str, str] = {}
        counts: dict[str, int] = {}
        single: dict[str, ast.AST] = {}
        for st in walk_shallow_func(func.node):
            if isinstance(st, ast.Assign):
                for tgt in st.targets:
                    for t in walk_shallow(tgt):
                        if isinstance(t, ast.Name) and isinstance(t.ctx, ast.Store):
                            counts[t.id] = counts.get(t.id, 0) + 1
                            if len(st.targets) == 1 and tgt is t:
                                single[t.id] = st.value
            elif isinstance(st, (ast.AugAssign, ast.AnnAssign)):
                if isinstance(st.target, ast.Name):
                    counts[st.target.id] = counts.get(st.target.id, 0) + 2
            elif isinstance(st, (ast.For, ast.AsyncFor)):
                for t in walk_shallow(st.target):
                    if isinstance(t, ast.Name):
                        counts[t.id] = counts.get(t.id, 0) + 2
            elif isinstance(st, (ast.With, ast.AsyncWith)):
                for it in st.items:
                    if it.optional_vars is not None:
                        for t in walk_shallow(it.optional_vars):
                            if isinstance(t, ast.Name):
                                counts[t.id] = counts.get(t.id, 0) + 2
            elif isinstance(st, ast.ExceptHandler) and st.name:
                counts[st.name] = counts.get(st.name, 0) + 2
            elif isinstance(st, ast.NamedExpr) and isinstance(st.target, ast.Name):
                counts[st.target.id] = counts.get(st.target.id, 0) + 2
        params = set(func.params())
        self.raw_alias: dict[str, ast.AST] = {}
        for name, val in single.items():
            if counts.get(name) == 1 and name not in params:
                d = dotted(val)
                if d is not None:
                    self.raw_alias[name] = val
        self.bindings = dict(bindings or {})
        self.assign_counts = counts

    def canon(self, e, _depth=0) -> str | None:
        if isinstance(e, str):
            d = e
        else:
            d = dotted(e)
        if d is None:
            return None
        head, _, rest = d.partition('.')
        if _depth < 8:
            if head in self.raw_alias:
                base = self.canon(self.raw_alias[head], _depth + 1)
                if base is not None:
                    return base + ('.' + rest if rest else '')
            if head in self.bindings and head not in self.raw_alias:
                base = self.bindings[head]
                return base + ('.' + rest if rest else '')
        return d

    def same(self, a, b) -> bool:
        ca, cb = self.canon(a), self.canon(b)
        return ca is not None and ca == cb


def walk_shallow_func(func_node):
    """All AST nodes of a function body, not descending into nested defs/classes/lambdas."""
    for st in func_node.body:
        yield from walk_shallow(st)


def walk_deep_func(func_node):
    """All AST nodes of a function including nested defs."""
    for st in func_node.body:
        yield from ast.walk(st)


# ----------------------------------------------------------------------
# spawn sites
THREAD_CTORS = {'Thread', 'threading.Thread', 'Process', 'SpawnProcess'}


@dataclass
class Spawn:
    call: ast.Call
    kind: str  # thread | process | task | submit | executor | threadsafe
    target_expr: ast.AST | None
    target: FuncInfo | None
    bindings: dict = field(default_factory=dict)  # callee param -> caller expr (ast)
    owner: FuncInfo | None = None
    in_loop: bool = False


def resolve_callable(expr, owner: FuncInfo) -> FuncInfo | None:
    """Resolve a callable expression to a package function, best effort."""
    mod = owner.module
    if isinstance(expr, ast.Name):
        # nested def in owner or any enclosing function, then module level
        f = owner
        while isinstance(f, FuncInfo):
            q = f'{f.qualname}.{expr.id}'
            if q in mod.functions:
                return mod.functions[q]
            f = f.parent
        if expr.id in mod.functions:
            return mod.functions[expr.id]
        return None
    if isinstance(expr, ast.Attribute) and isinstance(expr.value, ast.Name) and expr.value.id in ('self', 'cls'):
        c = enclosing_class(owner)
        while c is not None:
            q = f'{c.qualname}.{expr.attr}'
            if q in c.module.functions:
                return c.module.functions[q]
            c = base_class(c)
        return None
    if isinstance(expr, ast.Attribute) and isinstance(expr.value, ast.Call):
        # type(self)._finalize
        return None
    return None


def enclosing_class(f) -> ClassInfo | None:
    while f is not None:
        if isinstance(f, ClassInfo):
            return f
        if isinstance(f, FuncInfo) and f.cls is not None:
            return f.cls
        f = getattr(f, 'parent', None)
    return None


def base_class(c: ClassInfo) -> ClassInfo | None:
    for b in c.bases:
        bn = b.split('.')[-1]
        if bn in c.module.classes and c.module.classes[bn] is not c:
            return c.module.classes[bn]
    return None


def _bind(target: FuncInfo | None, args, kwargs_expr, extra_kw=()):
    out = {}
    if target is None:
        return out
    a = target.node.args
    pos = [x.arg for x in a.posonlyargs + a.args]
    if pos and pos[0] in ('self', 'cls') and target.cls is not None:
        pos = pos[1:]
    for p, e in zip(pos, args):
        out[p] = e
    if isinstance(kwargs_expr, ast.Dict):
        for k, v in zip(kwargs_expr.keys, kwargs_expr.values):
            if isinstance(k, ast.Constant) and isinstance(k.value, str):
                out[k.value] = v
    for k in extra_kw:
        if k.arg:
            out[k.arg] = k.value
    return out


def spawn_sites(owner: FuncInfo, deep=False) -> list[Spawn]:
    out = []
    loops = []

    def visit(node, in_loop):
        for c in ast.iter_child_nodes(node):
            if isinstance(c, (ast.FunctionDef, ast.AsyncFunctionDef, ast.Lambda, ast.ClassDef)) and not deep:
                continue
            il = in_loop or isinstance(node, (ast.For, ast.AsyncFor, ast.While, ast.ListComp, ast.GeneratorExp, ast.SetComp))
            if isinstance(c, ast.Call):
                sp = _spawn_of(c, owner)
                if sp is not None:
                    sp.in_loop = il
                    out.append(sp)
            visit(c, il)

    visit(owner.node, False)
    return out


def _spawn_of(c: ast.Call, owner: FuncInfo) -> Spawn | None:
    d = call_dotted(c) or ''
    last = d.split('.')[-1]
    if d in THREAD_CTORS or last in ('Thread', 'Process', 'SpawnProcess'):
        t = kwarg(c, 'target')
        if t is None:
            return None
        args = kwarg(c, 'args')
        kw = kwarg(c, 'kwargs')
        tf = resolve_callable(t, owner)
        b = _bind(tf, list(args.elts) if isinstance(args, ast.Tuple) else [], kw)
        return Spawn(c, 'process' if 'Process' in last else 'thread', t, tf, b, owner)
    if last in ('create_task', 'ensure_future') and c.args:
        inner = c.args[0]
        if isinstance(inner, ast.Call):
            tf = resolve_callable(inner.func, owner)
            return Spawn(c, 'task', inner.func, tf, _bind(tf, inner.args, None, inner.keywords), owner)
        return Spawn(c, 'task', inner, None, {}, owner)
    if last == 'run_coroutine_threadsafe' and c.args:
        inner = c.args[0]
        if isinstance(inner, ast.Call):
            tf = resolve_callable(inner.func, owner)
            return Spawn(c, 'threadsafe', inner.func, tf, _bind(tf, inner.args, None, inner.keywords), owner)
        return Spawn(c, 'threadsafe', inner, None, {}, owner)
    if last == 'submit' and c.args:
        tf = resolve_callable(c.args[0], owner)
        return Spawn(c, 'submit', c.args[0], tf, _bind(tf, c.args[1:], None, c.keywords), owner)
    if last == 'run_in_executor' and len(c.args) >= 2:
        tf = resolve_callable(c.args[1], owner)
        return Spawn(c, 'executor', c.args[1], tf, _bind(tf, c.args[2:], None), owner)
    return None


def binding_names(sp: Spawn, caller_scope: Scope) -> dict[str, str]:
    """callee param -> canonical caller name (only for Name/Attribute args)."""
    out = {}
    for p, e in sp.bindings.items():
        c = caller_scope.canon(e)
        if c is not None:
            out[p] = c
    return out


# ----------------------------------------------------------------------
# class-level constructor tags:  self.X = K(...)
def ctor_tags(cls: ClassInfo, module: Module | None = None) -> dict[str, tuple[str, ast.Call]]:
    """attribute name -> (constructor dotted name, call) for `self.attr = K(...)` anywhere in the class."""
    out = {}
    for f in cls.methods():
        for n in walk_deep_func(f.node):
            if isinstance(n, ast.Assign) and len(n.targets) == 1:
                t = n.targets[0]
                if (
                    isinstance(t, ast.Attribute)
                    and isinstance(t.value, ast.Name)
                    and t.value.id == 'self'
                    and isinstance(n.value, ast.Call)
                ):
                    d = call_dotted(n.value)
                    if d:
                        out.setdefault(t.attr, (d, n.value))
    return out


def local_ctor(func: FuncInfo, name: str):
    """(constructor dotted name, call) if local `name` is assigned from a constructor call."""
    for n in walk_shallow_func(func.node):
        if isinstance(n, ast.Assign) and len(n.targets) == 1 and is_name(n.targets[0], name):
            v = unwrap_await(n.value)
            if isinstance(v, ast.Call):
                d = call_dotted(v)
                if d:
                    return d, v
    return None


def parent_map(root):
    pm = {}
    for n in ast.walk(root):
        for c in ast.iter_child_nodes(n):
            pm[c] = n
    return pm


def stmts_of(func_node, types):
    return [n for n in walk_shallow_func(func_node) if isinstance(n, types)]


def find_calls(func_node, pred, deep=False):
    it = walk_deep_func(func_node) if deep else walk_shallow_func(func_node)
    return [n for n in it if isinstance(n, ast.Call) and pred(n)]
