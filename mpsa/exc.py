"""Abstract exception lattice.

An element of a raise-set is a class *name* K standing for "some exception that is
an instance of K, not known to be anything more specific".  Names are the last
segment of the dotted expression (`queue.Empty` -> 'Empty').

Builtin hierarchy is read from the interpreter's `builtins`; library names come
from a short table; package classes are read from the ClassDefs of the tree under
analysis (so `StopRequested(BaseException)` is *read*, not assumed).
"""

from __future__ import annotations

import ast
import builtins

from .loader import Repo, dotted

_LIB = {
    # name: parent
    'Empty': 'Exception',  # queue.Empty
    'Full': 'Exception',  # queue.Full
    'CancelledError': 'BaseException',  # asyncio / concurrent.futures (3.8+)
    'InvalidStateError': 'Exception',  # concurrent.futures / asyncio
    'IncompleteReadError': 'EOFError',
    'LimitOverrunError': 'Exception',
    'BrokenExecutor': 'RuntimeError',
    'BrokenProcessPool': 'RuntimeError',
    'AuthenticationError': 'Exception',
    'PicklingError': 'Exception',
    'UnpicklingError': 'Exception',
}


class ExcLattice:
    def __init__(self, repo: Repo | None = None):
        self.parent: dict[str, str | None] = {'BaseException': None}
        for n in dir(builtins):
            o = getattr(builtins, n)
            if isinstance(o, type) and issubclass(o, BaseException) and o is not BaseException:
                self.parent[o.__name__] = o.__bases__[0].__name__
        # aliases
        self.parent.setdefault('IOError', 'Exception')
        self.parent.setdefault('EnvironmentError', 'Exception')
        for k, v in _LIB.items():
            self.parent.setdefault(k, v)
        self.repo_classes: dict[str, str] = {}
        self.other: set[str] = set()  # package classes that are NOT exceptions (e.g. RemoteException)
        if repo is not None:
            # iterate to a fixpoint so that subclasses of package exception classes are found
            changed = True
            while changed:
                changed = False
                for c in repo.all_classes():
                    if c.name in self.parent and c.name not in self.repo_classes:
                        # a package class shadowing a builtin name (TimeoutError, InvalidStateError):
                        # keep the builtin position (it is a subclass of the builtin)
                        continue
                    if c.name in self.repo_classes:
                        continue
                    for b in c.bases:
                        bn = b.split('.')[-1]
                        if bn in self.parent:
                            self.parent[c.name] = bn
                            self.repo_classes[c.name] = bn
                            changed = True
                            break
            self.finish(repo)

    def finish(self, repo):
        for c in repo.all_classes():
            if c.name not in self.parent:
                self.other.add(c.name)

    def known(self, name) -> bool:
        return name in self.parent

    def is_sub(self, a: str, b: str) -> bool:
        """a is b or a subclass of b.  Unknown names are treated as direct subclasses of Exception."""
        if a in self.other or b in self.other:
            return a == b
        seen = set()
        cur = a
        while cur is not None and cur not in seen:
            if cur == b:
                return True
            seen.add(cur)
            cur = self.parent[cur] if cur in self.parent else 'Exception'
        return False

    @staticmethod
    def names_of(type_expr) -> list[str] | None:
        """Class names of an `except <expr>` / isinstance second argument.  None = bare except."""
        if type_expr is None:
            return None
        if isinstance(type_expr, ast.Tuple):
            out = []
            for e in type_expr.elts:
                out.extend(ExcLattice.names_of(e) or [])
            return out
        d = dotted(type_expr)
        if d is None:
            return ['?']
        return [d.split('.')[-1]]

    def split(self, raised: frozenset[str], handler_names: list[str] | None):
        """Match a raise-set against one handler.

        Returns (enters, remaining): `enters` = the elements (possibly narrowed) with
        which the handler body is entered; `remaining` = what still propagates.
        A raised K that is a *superclass* of a handler class H enters the handler as H
        and also remains as K (an Exception that is not a ValueError passes by).
        """
        if handler_names is None:  # bare except
            return frozenset(raised), frozenset()
        enters, remaining = set(), set()
        for k in raised:
            caught = False
            for h in handler_names:
                if h == '?':
                    continue
                if self.is_sub(k, h):
                    enters.add(k)
                    caught = True
                    break
            if caught:
                continue
            remaining.add(k)
            for h in handler_names:
                if h != '?' and self.is_sub(h, k):
                    enters.add(h)
        return frozenset(enters), frozenset(remaining)

    def covers(self, handler_names: list[str] | None, k: str) -> bool:
        """Does a handler / isinstance tuple fully cover raise-element k?"""
        if handler_names is None:
            return True
        return any(h != '?' and self.is_sub(k, h) for h in handler_names)
