"""Statement-level control-flow graph with exception and generator edges.

One graph per function.  Built forward over the statement kinds the repository
uses.  `try/finally` and `with` cleanup bodies are instantiated once per pending
exit kind (fall-through, return, break, continue, one per escaping raise-set).

Exception edges exist only where the *rule's fallibility function* says a node may
raise; the edge carries an abstract raise-set (see exc.py).  Handlers subtract what
they catch; the remainder propagates outward.  Effects of a statement happen on its
normal out-edges only (a statement that raised did not perform its effect).
"""

from __future__ import annotations

import ast
from collections import defaultdict
from dataclasses import dataclass, field

from .exc import ExcLattice

NORMAL_KINDS = ('n', 'T', 'F', 'iter', 'exhaust')


@dataclass
class Node:
    id: int
    kind: str  # entry stmt test for with_enter with_exit except finally exit_return exit_raise
    ast: object
    lineno: int
    loops: tuple = ()  # ids of enclosing loop header nodes, outer -> inner
    pending: object = None  # for nodes inside a cleanup copy: the pending exit kind
    extra: dict = field(default_factory=dict)

    def __repr__(self):
        t = ''
        if self.ast is not None:
            try:
                t = ' '.join(ast.unparse(self.ast).split())[:60]
            except Exception:
                t = type(self.ast).__name__
        return f'<{self.id}:{self.kind}@{self.lineno} {t}>'


@dataclass(frozen=True)
class Edge:
    src: int
    dst: int
    kind: str  # branch label at src: n T F iter exhaust | exc (src raised: its effects did not happen)
    data: object = None  # raise-set for 'exc' edges and for flow == 'xprop'
    flow: str = ''  # 'xprop': a pending exception goes on after the cleanup node `src` completed
    #                 (kind then still tells which branch of src was taken; its effects DID happen)

    @property
    def is_exc(self):
        return self.kind == 'exc' or self.flow == 'xprop'


class _Loop:
    def __init__(self, header):
        self.header = header
        self.breaks = []


class _Try:
    def __init__(self, handlers):
        self.handlers = handlers  # list of (node_id, names|None)


class _Cleanup:
    """try/finally body or with-exit."""

    def __init__(self, body=None, with_item=None, with_stmt=None):
        self.body = body
        self.with_item = with_item
        self.with_stmt = with_stmt
        self.copies = {}


class _Handler:
    def __init__(self, caught, name):
        self.caught = caught
        self.name = name


def _contains(node, types):
    """Does `node` contain a node of `types`, not descending into nested defs/lambdas?"""
    if isinstance(node, (ast.FunctionDef, ast.AsyncFunctionDef, ast.ClassDef)):
        return False
    stack = [node]
    while stack:
        n = stack.pop()
        if isinstance(n, types):
            return True
        for c in ast.iter_child_nodes(n):
            if isinstance(c, (ast.FunctionDef, ast.AsyncFunctionDef, ast.Lambda, ast.ClassDef)):
                continue
            stack.append(c)
    return False


def walk_shallow(node):
    """ast.walk that does not descend into nested function / class / lambda bodies."""
    if isinstance(node, (ast.FunctionDef, ast.AsyncFunctionDef, ast.ClassDef)):
        yield node  # a definition statement: the name is bound here, the body is another scope
        return
    stack = [node]
    while stack:
        n = stack.pop()
        yield n
        for c in ast.iter_child_nodes(n):
            if isinstance(c, (ast.FunctionDef, ast.AsyncFunctionDef, ast.Lambda, ast.ClassDef)):
                continue
            stack.append(c)


def calls_in(node):
    """Call nodes inside `node` in (approximate) evaluation order, shallow."""
    out = []

    def rec(n):
        if isinstance(n, (ast.FunctionDef, ast.AsyncFunctionDef, ast.Lambda, ast.ClassDef)):
            return
        for c in ast.iter_child_nodes(n):
            rec(c)
        if isinstance(n, ast.Call):
            out.append(n)

    if node is not None:
        rec(node)
    return out


def header_expr(node: Node):
    """The expression(s) a CFG node evaluates (not the nested bodies)."""
    a = node.ast
    if a is None:
        return None
    if node.kind == 'for':
        return a.iter
    if node.kind in ('with_enter', 'with_exit'):
        return a.context_expr
    if node.kind == 'except':
        return None
    return a


class CFG:
    def __init__(self, func_node, lattice: ExcLattice, fallible=None, *, gen_throw=True, label=''):
        self.func = func_node
        self.lat = lattice
        self.fallible = fallible or (lambda node: frozenset())
        self.gen_throw = gen_throw
        self.label = label
        self.nodes: list[Node] = []
        self.succ: dict[int, list[Edge]] = defaultdict(list)
        self.pred: dict[int, list[Edge]] = defaultdict(list)
        self.back_edges: set[tuple[int, int]] = set()
        self._edgeset = set()
        self.is_async = isinstance(func_node, ast.AsyncFunctionDef)
        self.is_generator = any(
            isinstance(n, (ast.Yield, ast.YieldFrom)) for n in walk_shallow_body(func_node)
        )
        self.entry = self._new('entry', None, [], lineno=func_node.lineno)
        self.exit_return = self._new('exit_return', None, [], lineno=func_node.end_lineno or 0)
        self.exit_raise = self._new('exit_raise', None, [], lineno=func_node.end_lineno or 0)
        out = self._stmts(func_node.body, [(self.entry, 'n', None)], [])
        self._connect(out, self.exit_return)

    # ------------------------------------------------------------------
    def _new(self, kind, astnode, frames, lineno=None, **extra):
        loops = tuple(f.header for f in frames if isinstance(f, _Loop))
        pending = extra.pop('pending', None)
        n = Node(
            len(self.nodes),
            kind,
            astnode,
            lineno if lineno is not None else getattr(astnode, 'lineno', 0),
            loops,
            pending,
            extra,
        )
        self.nodes.append(n)
        return n.id

    def _edge(self, src, dst, kind, data=None, back=False, flow=''):
        key = (src, dst, kind, data, flow)
        if key in self._edgeset:
            return
        self._edgeset.add(key)
        e = Edge(src, dst, kind, data, flow)
        self.succ[src].append(e)
        self.pred[dst].append(e)
        if back:
            self.back_edges.add((src, dst))

    def _connect(self, preds, dst, back=False):
        """preds: (node, kind, data[, flow]) tuples of dangling out-edges."""
        for p in preds:
            n, k, d = p[0], p[1], p[2]
            self._edge(n, dst, k, d, back=back, flow=p[3] if len(p) > 3 else '')

    # ------------------------------------------------------------------
    def _raises(self, nid, frames):
        """Add exception edges out of node `nid` according to the fallibility function."""
        node = self.nodes[nid]
        R = set(self.fallible(node) or ())
        a = header_expr(node)
        if a is not None and self.gen_throw and node.kind != 'with_exit':
            if _contains(a, (ast.Yield, ast.YieldFrom)):
                R.add('GeneratorExit')
                if self.is_async:
                    R.add('CancelledError')
                node.extra['yield'] = True
        if R:
            R = frozenset(R)
            self._route_exc([(nid, 'exc', R)], R, frames)

    def _route_exc(self, preds, R, frames):
        """Route the raise-set R from the dangling edges `preds` outward through `frames`.
        preds carry kind 'exc' (the node raised) or a normal kind with flow 'xprop'."""
        R = frozenset(R)

        def with_data(ps, data):
            return [(p[0], p[1], data, p[3] if len(p) > 3 else '') for p in ps]

        i = len(frames) - 1
        while i >= 0 and R:
            f = frames[i]
            if isinstance(f, _Try):
                for hnode, names in f.handlers:
                    enters, remaining = self.lat.split(R, names)
                    if enters:
                        self._connect(with_data(preds, enters), hnode)
                    R = remaining
                    if not R:
                        break
            elif isinstance(f, _Cleanup):
                exits = self._enter_cleanup(f, ('exc', R), with_data(preds, R), frames[:i])
                # the pending exception continues after the cleanup completed normally
                self._route_exc([(p[0], p[1], R, 'xprop') for p in exits], R, frames[:i])
                return
            i -= 1
        if R:
            self._connect(with_data(preds, R), self.exit_raise)

    def _enter_cleanup(self, f: _Cleanup, key, preds, outer):
        if key in f.copies:
            entry, exits = f.copies[key]
            self._connect(preds, entry)
            return exits
        if f.with_item is not None:
            entry = self._new('with_exit', f.with_item, outer, lineno=f.with_stmt.lineno, pending=key, stmt=f.with_stmt)
            self._connect(preds, entry)
            exits = [(entry, 'n', None)]
            f.copies[key] = (entry, exits)
            # __exit__ of a lock / condition / executor does not raise in our tables,
            # but let the rule decide
            self._raises(entry, outer)
            return exits
        entry = self._new('finally', None, outer, lineno=f.body[0].lineno, pending=key)
        self._connect(preds, entry)
        f.copies[key] = (entry, [])  # placeholder for (unlikely) recursion
        exits = self._stmts(f.body, [(entry, 'n', None)], outer, pending=key)
        f.copies[key] = (entry, exits)
        return exits

    def _jump(self, preds, kind, frames):
        """return / break / continue: unwind through cleanups."""
        i = len(frames) - 1
        while i >= 0:
            f = frames[i]
            if isinstance(f, _Cleanup):
                preds = self._enter_cleanup(f, (kind,), preds, frames[:i])
            elif isinstance(f, _Loop) and kind in ('brk', 'cont'):
                if kind == 'brk':
                    f.breaks.extend(preds)
                else:
                    self._connect(preds, f.header, back=True)
                return
            i -= 1
        self._connect(preds, self.exit_return)

    # ------------------------------------------------------------------
    def _stmts(self, stmts, preds, frames, pending=None):
        for st in stmts:
            if not preds:
                break  # unreachable code is not built
            preds = self._stmt(st, preds, frames, pending)
        return preds

    def _simple(self, st, preds, frames, pending, kind='stmt'):
        n = self._new(kind, st, frames, pending=pending)
        self._connect(preds, n)
        self._raises(n, frames)
        return n

    def _stmt(self, st, preds, frames, pending):
        if isinstance(st, (ast.FunctionDef, ast.AsyncFunctionDef, ast.ClassDef)):
            n = self._new('stmt', st, frames, pending=pending, defn=True)
            self._connect(preds, n)
            return [(n, 'n', None)]
        if isinstance(st, ast.Return):
            n = self._simple(st, preds, frames, pending)
            self._jump([(n, 'n', None)], 'ret', frames)
            return []
        if isinstance(st, ast.Raise):
            n = self._new('stmt', st, frames, pending=pending)
            self._connect(preds, n)
            R = self._raise_set(st, frames, self.nodes[n])
            self._route_exc([(n, 'exc', R)], R, frames)
            return []
        if isinstance(st, ast.Break):
            n = self._new('stmt', st, frames, pending=pending)
            self._connect(preds, n)
            self._jump([(n, 'n', None)], 'brk', frames)
            return []
        if isinstance(st, ast.Continue):
            n = self._new('stmt', st, frames, pending=pending)
            self._connect(preds, n)
            self._jump([(n, 'n', None)], 'cont', frames)
            return []
        if isinstance(st, ast.If):
            t = self._new('test', st.test, frames, pending=pending, stmt=st)
            self._connect(preds, t)
            self._raises(t, frames)
            c = const_truth(st.test)
            tp = [] if c is False else [(t, 'T', None)]
            fp = [] if c is True else [(t, 'F', None)]
            out = self._stmts(st.body, tp, frames, pending)
            out = out + (self._stmts(st.orelse, fp, frames, pending) if st.orelse else fp)
            return out
        if isinstance(st, ast.While):
            t = self._new('test', st.test, frames, pending=pending, stmt=st, loop=True)
            self._connect(preds, t)
            lf = _Loop(t)
            self._raises(t, frames)
            c = const_truth(st.test)
            body_out = self._stmts(st.body, [] if c is False else [(t, 'T', None)], frames + [lf], pending)
            self._connect(body_out, t, back=True)
            fp = [] if c is True else [(t, 'F', None)]
            out = self._stmts(st.orelse, fp, frames, pending) if st.orelse else fp
            return out + lf.breaks
        if isinstance(st, (ast.For, ast.AsyncFor)):
            h = self._new('for', st, frames, pending=pending, stmt=st, loop=True)
            self._connect(preds, h)
            lf = _Loop(h)
            self._raises(h, frames)
            body_out = self._stmts(st.body, [(h, 'iter', None)], frames + [lf], pending)
            self._connect(body_out, h, back=True)
            fp = [(h, 'exhaust', None)]
            out = self._stmts(st.orelse, fp, frames, pending) if st.orelse else fp
            return out + lf.breaks
        if isinstance(st, (ast.With, ast.AsyncWith)):
            return self._with(st, 0, preds, frames, pending)
        if isinstance(st, ast.Try) or (hasattr(ast, 'TryStar') and isinstance(st, ast.TryStar)):
            return self._try(st, preds, frames, pending)
        if isinstance(st, ast.Match):  # pragma: no cover - not used by the repo
            n = self._simple(st.subject, preds, frames, pending, kind='test')
            out = []
            for case in st.cases:
                out += self._stmts(case.body, [(n, 'T', None)], frames, pending)
            return out + [(n, 'F', None)]
        # simple statements: Assign AugAssign AnnAssign Expr Assert Delete Pass Import Global Nonlocal
        n = self._simple(st, preds, frames, pending)
        return [(n, 'n', None)]

    def _with(self, st, idx, preds, frames, pending):
        item = st.items[idx]
        e = self._new('with_enter', item, frames, lineno=st.lineno, pending=pending, stmt=st)
        self._connect(preds, e)
        self._raises(e, frames)
        cf = _Cleanup(with_item=item, with_stmt=st)
        inner = frames + [cf]
        if idx + 1 < len(st.items):
            out = self._with(st, idx + 1, [(e, 'n', None)], inner, pending)
        else:
            out = self._stmts(st.body, [(e, 'n', None)], inner, pending)
        if out:
            out = self._enter_cleanup(cf, ('fall',), out, frames)
        return out

    def _try(self, st, preds, frames, pending):
        fin = _Cleanup(body=st.finalbody) if st.finalbody else None
        base = frames + ([fin] if fin else [])
        hnodes = []
        for h in st.handlers:
            hn = self._new('except', h, base, pending=pending)
            hnodes.append((hn, h))
        tf = _Try([(hn, ExcLattice.names_of(h.type)) for hn, h in hnodes])
        body_out = self._stmts(st.body, preds, base + [tf], pending)
        outs = self._stmts(st.orelse, body_out, base, pending) if st.orelse else body_out
        for hn, h in hnodes:
            caught = frozenset().union(*[e.data for e in self.pred[hn] if e.is_exc]) if self.pred[hn] else frozenset()
            self.nodes[hn].extra['caught'] = caught
            if not self.pred[hn]:
                continue  # unreachable under this fallibility table
            outs = outs + self._stmts(h.body, [(hn, 'n', None)], base + [_Handler(caught, h.name)], pending)
        if fin and outs:
            outs = self._enter_cleanup(fin, ('fall',), outs, frames)
        return outs

    def _raise_set(self, st: ast.Raise, frames, node):
        hf = next((f for f in reversed(frames) if isinstance(f, _Handler)), None)
        if st.exc is None:
            return hf.caught if hf and hf.caught else frozenset({'BaseException'})
        e = st.exc
        if isinstance(e, ast.Name) and hf and hf.name == e.id and hf.caught:
            return hf.caught
        override = self.fallible(node)
        if override:
            return frozenset(override)
        if isinstance(e, ast.Call):
            e = e.func
        names = ExcLattice.names_of(e)
        if names and names != ['?'] and (self.lat.known(names[0]) or names[0][:1].isupper()):
            return frozenset(names)
        return frozenset({'Exception'})

    # ------------------------------------------------------------------
    # queries
    def node(self, nid) -> Node:
        return self.nodes[nid]

    def normal_succ(self, nid):
        return [e for e in self.succ[nid] if not e.is_exc]

    def find(self, pred):
        return [n for n in self.nodes if pred(n)]

    def loop_nodes(self, header_id):
        return [n.id for n in self.nodes if header_id in n.loops]

    def exits(self):
        """All edges into the two exit nodes."""
        return list(self.pred[self.exit_return]) + list(self.pred[self.exit_raise])

    def dump(self):
        out = []
        for n in self.nodes:
            out.append(repr(n) + (f' pending={n.pending}' if n.pending else ''))
            for e in self.succ[n.id]:
                b = ' (back)' if (e.src, e.dst) in self.back_edges else ''
                d = f' {sorted(e.data)}' if e.data else ''
                out.append(f'     -{e.kind}{"/" + e.flow if e.flow else ""}{d}-> {e.dst}{b}')
        return '\n'.join(out)


def walk_shallow_body(func_node):
    for st in func_node.body:
        yield from walk_shallow(st)


def const_truth(test):
    if isinstance(test, ast.Constant):
        return bool(test.value)
    return None
