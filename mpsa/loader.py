"""Parse the package under analysis and build symbol tables.

The tree that is analysed is ``$MPSA_REPO`` (default ``/repo``); the self-test
points it at scratch copies.  A missing file / function / class is an
``AnchorError`` -- the caller turns that into ANALYSIS-ERROR (exit 2), never into
a silent pass.
"""

from __future__ import annotations

import ast
import hashlib
import os
from dataclasses import dataclass, field
from pathlib import Path


class AnchorError(Exception):
    """An anchor the rules rely on could not be located in the tree."""


def repo_root() -> Path:
    return Path(os.environ.get('MPSA_REPO', '/repo'))


PKG_REL = 'src/mpservice'
CLASS_LOOKUP_LOG: set | None = None  # selftest/engine.consulted_modules
LOOKUP_LOG: set | None = None  # tools/gen_anchors.py sets this to record which functions the rules look up


@dataclass
class FuncInfo:
    qualname: str  # e.g. 'Buffer._run_worker', 'fifo_stream.feed'
    node: ast.AST  # FunctionDef | AsyncFunctionDef
    module: 'Module'
    parent: object  # FuncInfo | ClassInfo | None
    cls: 'ClassInfo | None'  # innermost enclosing class, if `node` is a method of it

    @property
    def name(self):
        return self.node.name

    @property
    def is_async(self):
        return isinstance(self.node, ast.AsyncFunctionDef)

    @property
    def where(self):
        return f'{self.module.rel}:{self.node.lineno}'

    @property
    def key(self):
        return f'{self.module.rel}::{self.qualname}'

    def params(self):
        a = self.node.args
        return [x.arg for x in a.posonlyargs + a.args + a.kwonlyargs]

    def nested(self, name) -> 'FuncInfo':
        return self.module.func(f'{self.qualname}.{name}')

    def __repr__(self):
        return f'<Func {self.key}>'

    def __hash__(self):
        return hash(self.key)

    def __eq__(self, other):
        return isinstance(other, FuncInfo) and other.key == self.key


@dataclass
class ClassInfo:
    qualname: str
    node: ast.ClassDef
    module: 'Module'
    parent: object
    bases: list = field(default_factory=list)  # dotted strings

    @property
    def name(self):
        return self.node.name

    def method(self, name) -> FuncInfo:
        return self.module.func(f'{self.qualname}.{name}')

    def has_method(self, name) -> bool:
        return f'{self.qualname}.{name}' in self.module.functions

    def methods(self):
        pre = self.qualname + '.'
        return [
            f
            for q, f in self.module.functions.items()
            if q.startswith(pre) and '.' not in q[len(pre) :]
        ]

    def __repr__(self):
        return f'<Class {self.module.rel}::{self.qualname}>'


def dotted(e) -> str | None:
    """'a.b.c' for Name/Attribute chains, else None."""
    parts = []
    while isinstance(e, ast.Attribute):
        parts.append(e.attr)
        e = e.value
    if isinstance(e, ast.Name):
        parts.append(e.id)
        return '.'.join(reversed(parts))
    return None


class Module:
    def __init__(self, root: Path, path: Path, attr_map=None, class_map=None, tree=None):
        self.path = path
        self.rel = str(path.relative_to(root))
        self.source = path.read_text()
        self.sha256 = hashlib.sha256(self.source.encode()).hexdigest()
        try:
            self.tree = tree if tree is not None else ast.parse(self.source, filename=str(path))
        except SyntaxError as e:  # pragma: no cover
            raise AnchorError(f'{self.rel}: does not parse: {e}') from e
        precanon = tree is not None
        from .normalize import normalize

        from .normalize import desugar_walrus

        from .normalize import augment, canonical_imports, deannotate

        if class_map:
            from .normalize import rename_classes

            rename_classes(self.tree, class_map)
        if attr_map:
            from .normalize import rename_attributes

            rename_attributes(self.tree, attr_map)
        from .normalize import canonicalize

        if not precanon:  # the tree handed over by Repo is in canonical form already
            canonicalize(self.tree)
        if not os.environ.get('MPSA_NO_RENAME_TOLERANCE'):
            from .anchors import load_anchors as _la
            from .normalize import propagate_new_constants

            ref_globals = (_la().get('__globals__') or {}).get(self.rel)
            if ref_globals is not None:
                self.constants_read = propagate_new_constants(self.tree, keep=set(ref_globals))
        self.normalised = desugar_walrus(self.tree) + normalize(self.tree)
        self.lines = self.source.splitlines()
        self.functions: dict[str, FuncInfo] = {}
        self.classes: dict[str, ClassInfo] = {}
        self.imports: dict[str, str] = {}
        self._index(self.tree.body, '', None, None)
        # functions a rule looks up by name that were renamed consistently are read under their recorded name
        self.renamed: list = []
        self.moved: list = []
        if not os.environ.get('MPSA_NO_RENAME_TOLERANCE'):
            from .anchors import reconcile

            for _ in range(4):
                got = reconcile(self)
                if not got:
                    break
                self.renamed.extend(got)
                self.functions, self.classes = {}, {}
                self._index(self.tree.body, '', None, None)
        # locals that were renamed consistently are read under their recorded names
        self.locals_restored: list = []
        if not os.environ.get('MPSA_NO_RENAME_TOLERANCE'):
            from .anchors import load_anchors as _la2
            from .normalize import restore_local_names

            ref_loc = (_la2().get('__locals__') or {}).get(self.rel)
            if ref_loc:
                for q_, fi_ in list(self.functions.items()):
                    if isinstance(fi_.parent, FuncInfo) or q_ not in ref_loc:
                        continue
                    got_ = restore_local_names(fi_.node, ref_loc[q_])
                    if got_:
                        self.locals_restored.append((q_, got_))
            ref_cmp = (_la2().get('__cmps__') or {}).get(self.rel)
            if ref_cmp:
                from .normalize import restore_orientation

                for q_, fi_ in list(self.functions.items()):
                    if not isinstance(fi_.parent, FuncInfo) and q_ in ref_cmp:
                        self.mirrored = getattr(self, 'mirrored', 0) + restore_orientation(fi_.node, ref_cmp[q_])
        # calls of helpers that did not exist in the confirmed tree are read in place (extract-method tolerance)
        self.inlined: list = []
        if not os.environ.get('MPSA_NO_RENAME_TOLERANCE'):
            from .anchors import load_anchors
            from .normalize import inline_new_helpers

            ref_all = (load_anchors().get('__all__') or {}).get(self.rel)
            if ref_all is not None:
                self.inlined = inline_new_helpers(self, set(ref_all))
            # local aliases of self attributes that the confirmed tree does not have are read as the attribute
            ref_alias = (load_anchors().get('__aliases__') or {}).get(self.rel)
            if ref_alias is not None:
                from .normalize import unalias_self

                from .normalize import inline_single_use_temps

                for q_, fi_ in list(self.functions.items()):
                    keep_ = set(ref_alias.get(q_, ())) if q_ in ref_alias else None
                    if keep_ is None:
                        continue  # a function the confirmed tree does not have: nothing to compare its locals with
                    if fi_.cls is not None:
                        k_ = unalias_self(fi_.node, keep=keep_)
                        if k_:
                            self.unaliased = getattr(self, 'unaliased', 0) + k_
                    k_ = inline_single_use_temps(fi_.node, keep=keep_)
                    if k_:
                        self.temps_inlined = getattr(self, 'temps_inlined', 0) + k_
        for node in ast.walk(self.tree):
            if isinstance(node, ast.Import):
                for a in node.names:
                    self.imports[(a.asname or a.name).split('.')[0]] = (
                        a.name if a.asname else a.name.split('.')[0]
                    )
            elif isinstance(node, ast.ImportFrom):
                for a in node.names:
                    mod = ('.' * node.level) + (node.module or '')
                    self.imports[a.asname or a.name] = f'{mod}.{a.name}'

    def _index(self, body, prefix, parent, cls):
        for st in body:
            if isinstance(st, (ast.FunctionDef, ast.AsyncFunctionDef)):
                q = prefix + st.name
                fi = FuncInfo(q, st, self, parent, cls)
                # a redefinition (e.g. property setter) keeps the first and indexes the
                # later one under a numbered name
                if q in self.functions:
                    k = 2
                    while f'{q}#{k}' in self.functions:
                        k += 1
                    fi.qualname = f'{q}#{k}'
                self.functions[fi.qualname] = fi
                self._index(st.body, q + '.', fi, None)
            elif isinstance(st, ast.ClassDef):
                q = prefix + st.name
                ci = ClassInfo(q, st, self, parent, [dotted(b) or '?' for b in st.bases])
                self.classes[q] = ci
                self._index(st.body, q + '.', ci, ci)
            elif isinstance(st, (ast.If, ast.Try, ast.With, ast.For, ast.While)):
                # definitions under `if`/`try` at module or class level (e.g. the
                # shared-memory block of server_process.py)
                for fld in ('body', 'orelse', 'finalbody'):
                    self._index(getattr(st, fld, []) or [], prefix, parent, cls)
                for h in getattr(st, 'handlers', []) or []:
                    self._index(h.body, prefix, parent, cls)

    # -- anchors -------------------------------------------------------
    def func(self, qualname) -> FuncInfo:
        if LOOKUP_LOG is not None:
            LOOKUP_LOG.add((self.rel, qualname))
        try:
            return self.functions[qualname]
        except KeyError:
            moved = self._elsewhere('functions', qualname)
            if moved is not None:
                return moved
            raise AnchorError(f'{self.rel}: function `{qualname}` not found') from None

    def cls(self, qualname) -> ClassInfo:
        if CLASS_LOOKUP_LOG is not None:
            CLASS_LOOKUP_LOG.add(self.rel)
        try:
            return self.classes[qualname]
        except KeyError:
            moved = self._elsewhere('classes', qualname)
            if moved is not None:
                return moved
            raise AnchorError(f'{self.rel}: class `{qualname}` not found') from None

    def _elsewhere(self, table, qualname):
        """a definition that was moved to another module of the package is found there when the qualified name is unique"""
        repo = getattr(self, 'repo', None)
        if repo is None:
            return None
        top = qualname.split('.')[0]
        hits = [m for m in repo.modules.values() if m is not self and qualname in getattr(m, table)]
        if len(hits) == 1:
            note = (qualname, hits[0].rel)
            if note not in self.moved:
                self.moved.append(note)
            return getattr(hits[0], table)[qualname]
        return None

    def has_func(self, qualname):
        return qualname in self.functions

    def text(self, node) -> str:
        return ast.get_source_segment(self.source, node) or ast.unparse(node)


class Repo:
    def __init__(self, root: Path | None = None):
        self.root = Path(root) if root else repo_root()
        pkg = self.root / PKG_REL
        if not pkg.is_dir():
            raise AnchorError(f'{pkg} is not a directory')
        self.modules: dict[str, Module] = {}
        # attributes renamed consistently across the package are read under their recorded names
        self.attrs_restored: dict = {}
        self.classes_restored: dict = {}
        pretrees: dict = {}
        if not os.environ.get('MPSA_NO_RENAME_TOLERANCE'):
            from .anchors import load_anchors
            from .normalize import attribute_renames, attribute_signatures

            from .normalize import class_renames, class_signatures, identifiers

            ref_attrs = load_anchors().get('__attrs__')
            ref_cls = load_anchors().get('__classes__')
            if ref_attrs or ref_cls:
                cur_attrs, cur_cls, words = {}, {}, set()
                for p in sorted(pkg.rglob('*.py')):
                    try:
                        t_ = ast.parse(p.read_text())
                    except SyntaxError:
                        continue  # reported by Module below
                    from .normalize import canonicalize as _canon

                    _canon(t_)  # signatures are taken from the canonical forms, as in anchors.json
                    pretrees[p] = t_
                    cur_attrs[str(p.relative_to(self.root))] = attribute_signatures(t_)
                    cur_cls[str(p.relative_to(self.root))] = class_signatures(t_)
                    words |= identifiers(t_)
                if ref_attrs:
                    self.attrs_restored = attribute_renames(cur_attrs, ref_attrs)
                if ref_cls:
                    self.classes_restored = class_renames(cur_cls, ref_cls, words, set(load_anchors().get('__words__') or ()))
        for p in sorted(pkg.rglob('*.py')):
            m = Module(self.root, p, attr_map=self.attrs_restored, class_map=self.classes_restored, tree=pretrees.get(p))
            m.repo = self
            self.modules[m.rel] = m

    def module(self, rel) -> Module:
        rel = rel if rel.startswith('src/') else f'{PKG_REL}/{rel}'
        try:
            return self.modules[rel]
        except KeyError:
            raise AnchorError(f'module {rel} not found') from None

    def func(self, rel, qualname) -> FuncInfo:
        return self.module(rel).func(qualname)

    def cls(self, rel, qualname) -> ClassInfo:
        return self.module(rel).cls(qualname)

    def all_functions(self):
        for m in self.modules.values():
            yield from m.functions.values()

    def all_classes(self):
        for m in self.modules.values():
            yield from m.classes.values()

    def digest(self):
        return {m.rel: m.sha256[:16] for m in self.modules.values()}

    def stats(self):
        return {
            'modules': len(self.modules),
            'functions': sum(len(m.functions) for m in self.modules.values()),
            'classes': sum(len(m.classes) for m in self.modules.values()),
        }

    # class lookup by simple name across the package (used for exception lattice etc.)
    def classes_named(self, name):
        return [c for c in self.all_classes() if c.name == name]


def norm_text(node) -> str:
    """Normalised statement text: used as a line-number-free key."""
    try:
        return ' '.join(ast.unparse(node).split())
    except Exception:  # pragma: no cover
        return type(node).__name__
