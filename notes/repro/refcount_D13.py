"""D13 (C13): a proxy passed to a child as a Process argument leaks one reference."""
import gc, os, time
from mpservice.multiprocessing import Process
from mpservice.multiprocessing.server_process import ServerProcess


def child(p):
    p.append(1)
    return len(p)


def info(server):
    from multiprocessing.managers import dispatch

    conn = server._Client(server._address, authkey=server._authkey)
    try:
        return [(d['id'][-4:], d['refcount:']) for d in dispatch(conn, None, 'debug_info')]
    finally:
        conn.close()


if __name__ == '__main__':
    with ServerProcess() as server:
        lst = server.list()
        time.sleep(0.3)
        print('D13 after create      ', info(server), flush=True)  # expect 1
        pr = Process(target=child, args=(lst,))
        pr.start()
        pr.join()
        time.sleep(0.5)
        print('D13 after child exit  ', info(server), flush=True)  # expect 1, pinned tree gives 2
        del pr
        del lst
        gc.collect()
        time.sleep(0.3)
        print('D13 after last del    ', info(server), flush=True)  # expect [], pinned tree gives 1
    os._exit(0)
