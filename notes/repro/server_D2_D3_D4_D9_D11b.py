import threading, time, concurrent.futures, os, gc, sys, multiprocessing
from mpservice.mpserver import Server, ThreadServlet, ProcessServlet, EnsembleServlet, Worker
import mpservice.mpserver._server as S
class Slow(Worker):
    def call(self, x):
        time.sleep(0.02); return x
class W(Worker):
    def call(self, x): return x
class A(Worker):
    def call(self, x):
        if x < 0: raise ValueError(x)
        return ('A', x)
class B(Worker):
    def call(self, x):
        time.sleep(0.03); return ('B', x)
class Echo(Worker):
    def call(self, x):
        time.sleep(0.02); return x
def d2():
    cap = 3
    with Server(ThreadServlet(Slow, num_threads=4), capacity=cap) as server:
        mx = [0]; stop = threading.Event()
        def sampler():
            while not stop.is_set(): mx[0] = max(mx[0], server.backlog)
        threading.Thread(target=sampler, daemon=True).start()
        def caller():
            for _ in range(30):
                try: server.call(1, timeout=5, backpressure=False)
                except Exception: pass
        ts = [threading.Thread(target=caller) for _ in range(24)]
        [t.start() for t in ts]; [t.join() for t in ts]; stop.set()
        print('D2 capacity', cap, 'max backlog', mx[0], flush=True)
def d3():
    server = Server(ThreadServlet(W)); server.__enter__()
    class SlowAfterPut:
        def __init__(self, q): self.q = q
        def put(self, x): self.q.put(x); time.sleep(0.2)
        def __getattr__(self, n): return getattr(self.q, n)
    server._input_buffer = SlowAfterPut(server._input_buffer)
    try: print('D3 call ->', server.call(5, timeout=2), 'backlog', server.backlog, flush=True)
    except BaseException as e: print('D3 call ->', type(e).__name__, flush=True)
def d4():
    armed = threading.Event()
    class RacyFuture(concurrent.futures.Future):
        def cancelled(self):
            r = super().cancelled()
            if armed.is_set() and not r and threading.current_thread().name.endswith('_gather_output'):
                armed.clear(); self.cancel()
            return r
    S.concurrent.futures.Future = RacyFuture
    server = Server(ThreadServlet(W)); server.__enter__()
    server.call(1); armed.set()
    try: server.call(2, timeout=1)
    except BaseException as e: print('D4 call 2 ->', type(e).__name__, flush=True)
    time.sleep(0.2)
    print('D4 gather alive', server._gather_thread.is_alive(), 'call 3 ->', server.call(3, timeout=2), flush=True)
    S.concurrent.futures.Future = concurrent.futures.Future
def d9():
    server = Server(EnsembleServlet(ThreadServlet(A), ThreadServlet(B))); server.__enter__()
    for i in range(1, 40):
        try: server.call(-i, timeout=5)
        except Exception: pass
        gc.collect()
    bad = 0
    for i in range(40):
        r = server.call(1000 + i, timeout=10)
        if r != [('A', 1000+i), ('B', 1000+i)]: bad += 1
    print('D9 cross-talk count', bad, flush=True)
def d11b():
    server = Server(ProcessServlet(Echo), capacity=512); server.__enter__()
    n = 0
    for y in server.stream(['x'*1000 for _ in range(400)]):
        n += 1
        if n == 3: break
    done = threading.Event()
    def ex(): server.__exit__(None, None, None); done.set()
    t = threading.Thread(target=ex, daemon=True); t.start(); t.join(40)
    print('D11b exit hangs:', not done.is_set(), 'children', len(multiprocessing.active_children()), flush=True)
if __name__ == '__main__':
    d2(); d3(); d4(); d9(); d11b()
    os._exit(0)
