import threading, time, os, multiprocessing
from mpservice.mpserver import Server, ProcessServlet, ThreadServlet, SequentialServlet, EnsembleServlet, SwitchServlet, Worker
class Good(Worker):
    def call(self, x): return x
class Bad(Worker):
    def __init__(self, **kw):
        super().__init__(**kw); raise RuntimeError('init failed')
class BadSecond(Worker):
    def __init__(self, worker_index, **kw):
        super().__init__(worker_index=worker_index, **kw)
        if worker_index == 1: raise RuntimeError('init failed in worker 1')
    def call(self, x): return x
class Sw(SwitchServlet):
    def switch(self, x): return 0
def left():
    time.sleep(0.5)
    return sorted(t.name for t in threading.enumerate() if t is not threading.main_thread() and 'LoggerThread' not in t.name), len(multiprocessing.active_children())
def attempt(name, servlet):
    server = Server(servlet)
    try:
        server.__enter__(); print(name, 'enter did not raise', flush=True)
    except BaseException as e:
        print(name, 'enter raised', type(e).__name__, 'left:', left(), flush=True)
if __name__ == '__main__':
    attempt('seq-thread', SequentialServlet(ThreadServlet(Good, num_threads=2), ThreadServlet(Bad)))
    attempt('thread-2nd', ThreadServlet(BadSecond, num_threads=3))
    attempt('proc-2nd', ProcessServlet(BadSecond, cpus=3))
    attempt('seq-proc', SequentialServlet(ProcessServlet(Good, cpus=2), ThreadServlet(Good), ProcessServlet(Bad)))
    attempt('ensemble', EnsembleServlet(ThreadServlet(Good), ProcessServlet(Good), ThreadServlet(Bad)))
    attempt('switch', Sw(ThreadServlet(Good), ThreadServlet(Bad)))
    # re-usable after failure? a good server afterwards
    s = SequentialServlet(ThreadServlet(Good), ProcessServlet(Good))
    with Server(s) as server: print('good server ->', server.call(7), flush=True)
    with Server(s) as server: print('re-entered ->', server.call(8), flush=True)
    print('final left:', left(), flush=True)
    os._exit(0)
