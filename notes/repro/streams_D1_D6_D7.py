import threading, time, asyncio, os
from mpservice.streamer import Stream, async_fifo_stream
from mpservice._common import StopRequested
def hang(fn, t=5):
    r = {}
    def w():
        try: r['v'] = fn()
        except BaseException as e: r['v'] = repr(e)
    th = threading.Thread(target=w, daemon=True); th.start(); th.join(t)
    return ('HANG' if th.is_alive() else r.get('v'))
def brk(n):
    def f():
        for x in Stream(range(100)).buffer(n):
            if x == 3: break
        return 'ok'
    return f
for n in (1,2,5): print('buffer', n, 'break ->', hang(brk(n)))
def stopper():
    yield 1
    raise StopRequested
print('StopRequested buffer ->', hang(lambda: list(Stream(stopper()).buffer(3))))
print('StopRequested parmap ->', hang(lambda: list(Stream(stopper()).parmap(lambda x: x, executor='thread', concurrency=2))))
async def src():
    for i in range(6): yield i
def pre(x):
    if x in (0, 2): raise ValueError(x)
    return x
async def main():
    loop = asyncio.get_running_loop()
    async def func(x):
        async def w(): return x*10
        return loop.create_task(w())
    return [z async for z in async_fifo_stream(src(), func, preprocessor=pre, return_x=True, return_exceptions=True)]
print('async pre ->', asyncio.run(main()))
# SyncIter early break with fast source
from mpservice.streamer._streamer_async import SyncIter
async def fast():
    for i in range(1000): yield i
def si():
    for x in SyncIter(fast()):
        if x == 2: break
    return 'ok'
print('SyncIter break ->', hang(si))
print('threads left:', [t.name for t in threading.enumerate() if t is not threading.main_thread() and not t.daemon])
os._exit(0)
