import os
from mpservice.multiprocessing.server_process import ServerProcess, managed_list
from mpservice.multiprocessing.remote_exception import is_remote_exception, get_remote_traceback
class Host:
    def probe(self):
        p = managed_list([1, 2, 3])
        try:
            p.index(99)
        except BaseException as e:
            return f'{type(e).__name__}: {e} remote={is_remote_exception(e)} tb_has_index={"index" in get_remote_traceback(e) if is_remote_exception(e) else None}'
        return 'no error'
ServerProcess.register('HostC14', Host)
if __name__ == '__main__':
    with ServerProcess() as server:
        h = server.HostC14()
        print('D16 in-server ->', h.probe(), flush=True)
    os._exit(0)
