import threading, queue, time, os, asyncio
from mpservice.queue import IterableQueue
q = IterableQueue(queue.Queue(), num_suppliers=2)
pause = threading.Event()
orig_put = q._used_lids.put
def slow_put(z, *a, **k):
    orig_put(z, *a, **k)
    if threading.current_thread().name == 'A' and not pause.is_set():
        threading.Timer(0.5, pause.set).start()
        pause.wait()
q._used_lids.put = slow_put
q.put(1); q.put_end(); q.put(2); q.put_end()
got = {}
def cons(name): got[name] = list(q)
ta = threading.Thread(target=cons, args=('A',), name='A'); ta.start(); time.sleep(0.2)
tb = threading.Thread(target=cons, args=('B',), name='B'); tb.start()
ta.join(5); tb.join(5)
print('D14', got, 'markers left:', q._q.qsize(), flush=True)
q.renew()
q.put(10); q.put_end(); q.put(20); q.put_end()
print('D14 round 2:', list(q), flush=True)
# D12
from mpservice.streamer import Stream
running = 0; peak = 0; lock = threading.Lock()
async def f(x):
    global running, peak
    with lock:
        running += 1; peak = max(peak, running)
    await asyncio.sleep(0.02)
    with lock: running -= 1
    return x
for c in (1, 2, 4):
    running = 0; peak = 0
    assert list(Stream(range(40)).parmap(f, concurrency=c)) == list(range(40))
    print('D12 ParmapperAsync c', c, 'peak', peak, flush=True)
from mpservice.streamer._streamer_async import AsyncStream
async def am():
    global running, peak
    async def src():
        for i in range(40): yield i
    for c in (1, 2, 4):
        running = 0; peak = 0
        out = [x async for x in AsyncStream(src()).parmap(f, concurrency=c)]
        assert out == list(range(40))
        print('D12 AsyncParmapperAsync c', c, 'peak', peak, flush=True)
asyncio.run(am())
os._exit(0)
