import os, signal, time, threading, logging
from mpservice.multiprocessing import Process, wait
from mpservice.streamer import tee
def target(): time.sleep(30)
def logt(n, size):
    lg = logging.getLogger('child')
    for i in range(n): lg.info('%d %s', i, 'x'*size)
    return n
class H(logging.Handler):
    def __init__(self): super().__init__(); self.n = 0; self.last=None; self.ooo=0
    def emit(self, r):
        self.n += 1
        k = int(r.getMessage().split()[0])
        if self.last is not None and k != self.last+1: self.ooo += 1
        self.last = k
def run(name, s, res):
    try: res[name] = list(s)
    except BaseException as e: res[name] = repr(e)
if __name__ == '__main__':
    p = Process(target=target); p.start(); time.sleep(1); os.kill(p.pid, signal.SIGKILL)
    r = {}
    t = threading.Thread(target=lambda: r.setdefault('w', wait([p])), daemon=True); t.start(); t.join(5)
    print('D5 wait hangs:', t.is_alive(), 'exception:', repr(p.exception()), flush=True)
    try: p.join()
    except BaseException as e: print('D5 join raises', repr(e), flush=True)
    h = H(); logging.getLogger().addHandler(h); logging.getLogger().setLevel(logging.DEBUG)
    for n, size in ((50, 2000), (300, 100), (3000, 100), (0, 1)):
        h.n = 0; h.last = None; h.ooo = 0
        p = Process(target=logt, args=(n, size)); p.start()
        rr = {}
        t = threading.Thread(target=lambda: rr.setdefault('v', p.result()), daemon=True); t.start(); t.join(30)
        time.sleep(0.3)
        print(f'D15 n={n} size={size}: hangs={t.is_alive()} handled={h.n} out_of_order={h.ooo} result={rr.get("v")}', flush=True)
    logging.getLogger().removeHandler(h)
    # D8
    def src():
        yield 1; yield 2; raise ValueError('boom')
    a, b = tee(src(), 2, buffer_size=4); res = {}
    ta = threading.Thread(target=run, args=('a', a, res), daemon=True); tb = threading.Thread(target=run, args=('b', b, res), daemon=True)
    ta.start(); tb.start(); ta.join(3); tb.join(3)
    print('D8a a alive', ta.is_alive(), 'b alive', tb.is_alive(), res, flush=True)
    a, b = tee(iter(range(100)), 2, buffer_size=2)
    fa = a.streamlets[0]; fb = b.streamlets[0]
    gate = threading.Event()
    class GateLock:
        def __init__(self, lk): self.lk = lk; self.first = True
        def _pause(self):
            if threading.current_thread().name == 'A' and not gate.is_set(): gate.wait()
        def __enter__(self): self._pause(); return self.lk.__enter__()
        def __exit__(self, *a): return self.lk.__exit__(*a)
        def acquire(self, *a, **k): self._pause(); return self.lk.acquire(*a, **k)
        def release(self): return self.lk.release()
    gl = GateLock(fa.instream_lock); fa.instream_lock = gl; fb.instream_lock = gl
    res = {}
    ta = threading.Thread(target=run, args=('a', a, res), name='A', daemon=True); tb = threading.Thread(target=run, args=('b', b, res), name='B', daemon=True)
    ta.start(); time.sleep(0.2); tb.start(); time.sleep(0.5); gate.set(); ta.join(5); tb.join(5)
    print('D8b a alive', ta.is_alive(), 'b alive', tb.is_alive(), 'equal', res.get('a') == res.get('b') == list(range(100)), flush=True)
    os._exit(0)
